(* Gc/Model.v — executable model of sst/src/gc.rs (policy AST, determiners, GarbageCollector) and of
   the lock-step walk of lsmtk/src/tree/mod.rs perform_garbage_collection.  Definitions only.

   Conventions: bytes are N, keys are byte lists, timestamps/counters are unbounded N (u64 in the
   Rust; `count` grows by at most 2 per entry so it cannot wrap in practice), NonZeroU64 is
   `positive`.  A cursor is the list of entries from its current position on: `cursor.key_value()`
   is the head, `cursor.next()` drops the head (I/O errors of `next` are outside the model). *)
From Coq Require Import NArith PArith List Bool.
From Blue Require Import Gen.Const_Gc.
Import ListNotations.
Open Scope N_scope.

(* ------------------------------------------------------------------ keys, entries, KeyRef *)
Definition key := list N.

(* [u8]::cmp *)
Fixpoint lex_cmp (a b : key) : comparison :=
  match a, b with
  | [], [] => Eq
  | [], _ :: _ => Lt
  | _ :: _, [] => Gt
  | x :: a', y :: b' => match N.compare x y with Eq => lex_cmp a' b' | c => c end
  end.

(* Vec<u8> == &[u8] *)
Definition key_eqb (a b : key) : bool := match lex_cmp a b with Eq => true | _ => false end.

(* KeyValuePair / KeyValueRef: value None is a tombstone *)
Record entry := mkE { ekey : key; ets : N; evalue : option (list N) }.

(* KeyRef *)
Definition keyref := (key * N)%type.
Definition kr (e : entry) : keyref := (ekey e, ets e).

(* impl Ord for KeyRef: key ascending, then timestamp DEscending *)
Definition keyref_cmp (a b : keyref) : comparison :=
  match lex_cmp (fst a) (fst b) with
  | Eq => CompOpp (N.compare (snd a) (snd b))
  | c => c
  end.

Definition is_value (e : entry) : bool := match evalue e with Some _ => true | None => false end.
Definition is_nil {A} (l : list A) : bool := match l with [] => true | _ => false end.

(* ------------------------------------------------------------------ GarbageCollectionPolicy *)
Inductive policy :=
| PVersions (number : positive)
| PExpires (micros : positive)
| PAny (ps : list policy)
| PAll (ps : list policy).

(* the boxed determiners with their per-instance state *)
Inductive det :=
| DVersions (number : positive) (dkey : key) (count : N)   (* VersionsDeterminer *)
| DExpires (threshold : N)                                 (* ExpiresDeterminer *)
| DAny (ds : list det)
| DAll (ds : list det).

(* GarbageCollectionPolicy::determiner; u64 saturating_sub is N.sub *)
Fixpoint determiner (p : policy) (now : N) : det :=
  match p with
  | PVersions n => DVersions n [] 0
  | PExpires m => DExpires (now - Npos m)
  | PAny ps => DAny (map (fun q => determiner q now) ps)
  | PAll ps => DAll (map (fun q => determiner q now) ps)
  end.

(* the loop shared by AnyDeterminer::retain and AllDeterminer::retain:
   `let mut retain = acc0; for d in self.xs.iter_mut() { retain op= d.retain(..); } retain`
   — every child is evaluated (`|=` / `&=` do not short-circuit), in order *)
Section RetainEach.
  Variable f : det -> bool * det.
  Variable op : bool -> bool -> bool.
  Fixpoint retain_each (ds : list det) (acc : bool) {struct ds} : bool * list det :=
    match ds with
    | [] => (acc, [])
    | d0 :: ds' =>
        let (r, d0') := f d0 in
        let (racc, ds'') := retain_each ds' (op acc r) in
        (racc, d0' :: ds'')
    end.
End RetainEach.

(* Determiner::retain(key, tombstones, exists) -> (result, updated determiner).
   VersionsDeterminer: the literals 1 and 2 are retyped from the function body. *)
Fixpoint retain (d : det) (k : key) (tombs : list N) (ex : N) {struct d} : bool * det :=
  match d with
  | DVersions n dk c =>
      if negb (key_eqb dk k) then
        if is_nil tombs then (true, DVersions n k 1)
        else (2 <=? Npos n, DVersions n k 2)
      else
        let c' := if is_nil tombs then c + 1 else c + 2 in
        (c' <=? Npos n, DVersions n dk c')
  | DExpires th => (th <=? ex, DExpires th)
  | DAny ds =>
      let (r, ds') := retain_each (fun d0 => retain d0 k tombs ex) orb ds false in (r, DAny ds')
  | DAll ds =>
      let (r, ds') := retain_each (fun d0 => retain d0 k tombs ex) andb ds true in (r, DAll ds')
  end.

(* ------------------------------------------------------------------ GarbageCollector *)
Record collector := mkGC {
  gcur : list entry;      (* cursor: entries from the current position on *)
  gdet : det;             (* determiner *)
  gkb  : key;             (* key_backing *)
  gret : option N         (* key_return *)
}.

(* GarbageCollectionPolicy::collector(cursor, now_micros): the cursor is positioned at the first
   key to be considered *)
Definition collector_new (p : policy) (cursor : list entry) (now : N) : collector :=
  mkGC cursor (determiner p now)
       (match cursor with e :: _ => ekey e | [] => [] end)
       None.

(* GarbageCollector::next, the `'iterating` loop.  One recursive call = one visit of an entry.
   The Rust reaches an entry whose key differs from key_backing by leaving the inner `while`,
   copying the key into key_backing and going round `'iterating` again WITHOUT advancing, which
   resets `tombstones`; the next inner iteration then sees equal keys.  The model merges these two
   iterations: [kb'] / [tombs'] are key_backing / tombstones as they are when the entry is handled.
   return_key: with pending tombstones the OLDEST (last pushed) one is returned first and the
   value's timestamp is parked in key_return. *)
Fixpoint gc_loop (cur : list entry) (kb : key) (tombs : list N) (d : det) {struct cur}
  : option keyref * collector :=
  match cur with
  | [] => (None, mkGC [] d kb None)                         (* break 'iterating; Ok(None) *)
  | e :: cur' =>
      let same := key_eqb kb (ekey e) in
      let kb' := if same then kb else ekey e in
      let tombs' := if same then tombs else [] in
      match evalue e with
      | Some _ =>
          (* self.cursor.next()?; then ask the determiner *)
          let (r, d') := retain d (ekey e) tombs' (ets e) in
          if r then
            if is_nil tombs' then (Some (kb', ets e), mkGC cur' d' kb' None)
            else (Some (kb', last tombs' 0), mkGC cur' d' kb' (Some (ets e)))
          else gc_loop cur' kb' [] d'                       (* continue 'iterating *)
      | None =>
          (* tombstones.push(ts); self.cursor.next()? *)
          gc_loop cur' kb' (tombs' ++ [ets e]) d
      end
  end.

Definition gc_next (g : collector) : option keyref * collector :=
  match gret g with
  | Some ts => (Some (gkb g, ts), mkGC (gcur g) (gdet g) (gkb g) None)   (* key_return.take() *)
  | None => gc_loop (gcur g) (gkb g) [] (gdet g)
  end.

(* call next() until it returns None (what sst's test_expectation and every consumer does);
   None = out of fuel *)
Fixpoint drain (fuel : nat) (g : collector) : option (list keyref) :=
  match fuel with
  | O => None
  | S f =>
      match gc_next g with
      | (Some x, g') => match drain f g' with Some l => Some (x :: l) | None => None end
      | (None, _) => Some []
      end
  end.

(* every next() either consumes an entry or hands out a parked key_return *)
Definition collect (p : policy) (es : list entry) (now : N) : option (list keyref) :=
  drain (2 * length es + 1) (collector_new p es now).

(* ------------------------------------------------------------------ lsmtk: perform_compaction *)
(* Compaction::top_level *)
Definition top_level (upper_level : N) : bool := upper_level =? GC_NUM_LEVELS - 1.

Inductive ckind := KMove | KGc | KRewrite.
(* the dispatch at the head of perform_compaction: one input = a move (no rewrite at all),
   otherwise a garbage collection iff top_level *)
Definition dispatch (ninputs upper_level : N) : ckind :=
  if ninputs =? 1 then KMove else if top_level upper_level then KGc else KRewrite.

Inductive walk_result (A : Type) :=
| WOk (written : list entry) (discard : A)
| WOutOfSync.                                  (* logic_error("gc iterator out of sync with inputs") *)
Arguments WOk {A} _ _.
Arguments WOutOfSync {A}.

(* ---- SstMultiBuilder (sst/src/lib.rs), as far as cutting the stream into files goes.
   [mb_cur] = the entries put into the open SstBuilder (None: no builder open), [mb_done] = the
   sealed files in the order their paths were pushed (`paths`: a path is pushed when its builder is
   created, and a builder is created only by get_builder on behalf of a put/del, so the open
   builder's path is the last one).  Sizes are external: [target_full es] stands for
   `size >= TABLE_FULL_SIZE || size >= options.target_file_size` of a builder holding es,
   [minimum_full es] for `size >= TABLE_FULL_SIZE || size >= options.minimum_file_size`;
   both are arbitrary here. ---- *)
Record mbuilder := mkMB { mb_cur : option (list entry); mb_done : list (list entry) }.

Section MultiBuilder.
  Variable target_full : list entry -> bool.
  Variable minimum_full : list entry -> bool.

  (* seal_builder *)
  Definition mb_seal_builder (mb : mbuilder) : mbuilder :=
    match mb_cur mb with
    | Some es => mkMB None (mb_done mb ++ [es])
    | None => mb
    end.

  (* split_hint *)
  Definition mb_split_hint (mb : mbuilder) : mbuilder :=
    match mb_cur mb with
    | Some es => if minimum_full es then mb_seal_builder mb else mb
    | None => mb
    end.

  (* put / del = get_builder()?.put(..): an open builder that is full is sealed and a fresh one
     created (get_builder recurses once), no builder open: one is created *)
  Definition mb_put (mb : mbuilder) (e : entry) : mbuilder :=
    match mb_cur mb with
    | Some es =>
        if target_full es then mkMB (Some [e]) (mb_done mb ++ [es])
        else mkMB (Some (es ++ [e])) (mb_done mb)
    | None => mkMB (Some [e]) (mb_done mb)
    end.

  (* seal: the open builder, if any, is sealed; the paths are returned in creation order *)
  Definition mb_seal (mb : mbuilder) : list (list entry) :=
    match mb_cur mb with
    | Some es => mb_done mb ++ [es]
    | None => mb_done mb
    end.

  (* perform_compaction's `'looping` (not a GC): for every entry of the merging cursor, first
     `if !top_level && split_hint.witness(key) { sstmb.split_hint() }` — the witness is a stateful
     oracle over the current version, here an arbitrary boolean per entry — then put/del.
     Nothing is discarded: compaction_finish gets Setsum::default(). *)
  Fixpoint rewrite_loop (main : list (bool * entry)) (mb : mbuilder) : mbuilder :=
    match main with
    | [] => mb
    | (hint, e) :: r => rewrite_loop r (mb_put (if hint then mb_split_hint mb else mb) e)
    end.

  Definition rewrite_outputs (main : list (bool * entry)) : list (list entry) :=
    mb_seal (rewrite_loop main (mkMB None [])).
End MultiBuilder.

(* perform_garbage_collection's `'looping`: [main] is the merging cursor over the inputs, [g] the
   collector over an independent clone of it, [nxt] is gc_next.  [add] is `discard += setsum(kvr)`
   (abstract here so that the model stays hash-free; Discard.v instantiates it). *)
Fixpoint walk {A} (add : A -> entry -> A) (main : list entry) (g : collector)
         (nxt : option keyref) (out : list entry) (acc : A) {struct main} : walk_result A :=
  match main with
  | [] => WOk out acc
  | e :: main' =>
      match nxt with
      | Some gcn =>
          match keyref_cmp gcn (kr e) with
          | Lt => WOutOfSync
          | Eq => let (n', g') := gc_next g in walk add main' g' n' (out ++ [e]) acc
          | Gt => walk add main' g nxt out (add acc e)
          end
      | None => walk add main' g None out (add acc e)
      end
  end.

(* cursor.seek_to_first(); gc_cursor = cursor.clone(); gc_cursor.next(); collector(gc_cursor, 0);
   gc_next = gc.next(); then the loop.  Inside lsmtk now_micros is the literal 0. *)
Definition gc_walk {A} (add : A -> entry -> A) (acc0 : A) (p : policy) (es : list entry)
  : walk_result A :=
  let g := collector_new p es 0 in
  let (n, g') := gc_next g in
  walk add es g' n [] acc0.

(* the accumulator used by the correspondence check: the list of dropped entries, in order *)
Definition gc_walk_lists (p : policy) (es : list entry) : walk_result (list entry) :=
  gc_walk (fun acc e => acc ++ [e]) [] p es.
