(* Extraction of the executable Gc model (and of the executable specification) for the
   correspondence check.  Directives in force: those of ExtrOcamlBasic only; N, positive, nat stay
   inductive.  No Extract Constant of ours. *)
From Coq Require Import NArith PArith List.
From Blue Require Import Gc.Model Gc.ModelLiteral Gc.Spec.
Require Import ExtrOcamlBasic.
Extraction Language OCaml.
Extraction "../ocaml/gc/gen_gc.ml" collect collect_literal gc_walk_lists gc_spec gc_dropped dispatch
  N.add N.mul N.div_eucl N.of_nat N.to_nat.
