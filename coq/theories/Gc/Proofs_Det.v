(* Gc/Proofs_Det.v — the tree of boxed determiners is always `det_of p now dk c` for ONE pair
   (dk, c): every VersionsDeterminer in the tree sees the same calls, so they all hold the same
   key and the same count; and `retain` on that tree computes `sat`. *)
From Coq Require Import NArith PArith List Bool Lia.
From Blue Require Import Gc.Model Gc.Spec Gc.Proofs_Key.
Import ListNotations.
Open Scope N_scope.

(* induction principle for the nested inductive [policy] *)
Section PolicyInd.
  Variable P : policy -> Prop.
  Hypothesis Hv : forall n, P (PVersions n).
  Hypothesis He : forall m, P (PExpires m).
  Hypothesis Ha : forall ps, Forall P ps -> P (PAny ps).
  Hypothesis Hl : forall ps, Forall P ps -> P (PAll ps).
  Fixpoint policy_ind' (p : policy) : P p :=
    match p with
    | PVersions n => Hv n
    | PExpires m => He m
    | PAny ps =>
        Ha ps ((fix go (ps : list policy) : Forall P ps :=
                  match ps with
                  | [] => Forall_nil P
                  | q :: qs => Forall_cons q (policy_ind' q) (go qs)
                  end) ps)
    | PAll ps =>
        Hl ps ((fix go (ps : list policy) : Forall P ps :=
                  match ps with
                  | [] => Forall_nil P
                  | q :: qs => Forall_cons q (policy_ind' q) (go qs)
                  end) ps)
    end.
End PolicyInd.

(* the determiner tree of policy p in which every VersionsDeterminer holds key dk and count c *)
Fixpoint det_of (p : policy) (now : N) (dk : key) (c : N) : det :=
  match p with
  | PVersions n => DVersions n dk c
  | PExpires m => DExpires (now - Npos m)
  | PAny ps => DAny (map (fun q => det_of q now dk c) ps)
  | PAll ps => DAll (map (fun q => det_of q now dk c) ps)
  end.

Lemma determiner_det_of p now : determiner p now = det_of p now [] 0.
Proof.
  induction p as [n|m|ps IH|ps IH] using policy_ind'; cbn [determiner det_of]; try reflexivity.
  - f_equal. induction IH as [|q qs Hq _ IHqs]; cbn [map]; [reflexivity|]. now rewrite Hq, IHqs.
  - f_equal. induction IH as [|q qs Hq _ IHqs]; cbn [map]; [reflexivity|]. now rewrite Hq, IHqs.
Qed.

(* weight of a version group: a bare value is one version, a value under tombstones two *)
Definition wt (tombs : list N) : N := if is_nil tombs then 1 else 2.

(* the count after a call of retain for key k *)
Definition newcount (dk : key) (c : N) (k : key) (tombs : list N) : N :=
  if key_eqb dk k then c + wt tombs else wt tombs.

Lemma retain_each_spec (f : det -> bool * det) (g : policy -> det) (g' : policy -> det)
      (s : policy -> bool) op ps :
  Forall (fun q => f (g q) = (s q, g' q)) ps ->
  forall acc, retain_each f op (map g ps) acc =
              (fold_left (fun a q => op a (s q)) ps acc, map g' ps).
Proof.
  induction 1 as [|q qs Hq _ IH]; intros acc; cbn [map retain_each fold_left]; [reflexivity|].
  rewrite Hq, IH. reflexivity.
Qed.

Lemma fold_orb_existsb {A} (s : A -> bool) l : forall acc,
  fold_left (fun a q => a || s q) l acc = acc || existsb s l.
Proof.
  induction l as [|x l IH]; intros acc; cbn [fold_left existsb].
  - now rewrite orb_false_r.
  - rewrite IH. now rewrite orb_assoc.
Qed.

Lemma fold_andb_forallb {A} (s : A -> bool) l : forall acc,
  fold_left (fun a q => a && s q) l acc = acc && forallb s l.
Proof.
  induction l as [|x l IH]; intros acc; cbn [fold_left forallb].
  - now rewrite andb_true_r.
  - rewrite IH. now rewrite andb_assoc.
Qed.

(* the central fact about determiners: on the tree det_of p now dk c, retain answers `sat` at the
   new count and leaves the tree det_of p now k (new count) *)
Lemma retain_det_of p now dk c k tombs ex :
  retain (det_of p now dk c) k tombs ex =
  (sat p now (newcount dk c k tombs) ex, det_of p now k (newcount dk c k tombs)).
Proof.
  induction p as [n|m|ps IH|ps IH] using policy_ind'; cbn [det_of retain sat].
  - unfold newcount, wt. destruct (key_eqb dk k) eqn:E; cbn [negb].
    + apply key_eqb_eq in E. subst dk. destruct (is_nil tombs); reflexivity.
    + destruct (is_nil tombs); [|reflexivity].
      f_equal. symmetry. apply N.leb_le. lia.
  - reflexivity.
  - rewrite (retain_each_spec _ (fun q => det_of q now dk c)
               (fun q => det_of q now k (newcount dk c k tombs))
               (fun q => sat q now (newcount dk c k tombs) ex) orb ps IH).
    now rewrite fold_orb_existsb.
  - rewrite (retain_each_spec _ (fun q => det_of q now dk c)
               (fun q => det_of q now k (newcount dk c k tombs))
               (fun q => sat q now (newcount dk c k tombs) ex) andb ps IH).
    now rewrite fold_andb_forallb.
Qed.

(* sat is antitone in the weight: once a policy lets go of a key's groups it never picks them
   up again further down (for equal timestamps) *)
Lemma sat_antitone p now ts : forall w w', w <= w' -> sat p now w' ts = true -> sat p now w ts = true.
Proof.
  induction p as [n|m|ps IH|ps IH] using policy_ind'; intros w w' Hw; cbn [sat].
  - rewrite !N.leb_le. lia.
  - auto.
  - rewrite !existsb_exists. intros (q & Hin & Hq). exists q. split; [exact Hin|].
    rewrite Forall_forall in IH. eapply IH; eauto.
  - rewrite !forallb_forall. intros H q Hin.
    rewrite Forall_forall in IH. eapply IH; eauto.
Qed.

(* and monotone in the timestamp *)
Lemma sat_monotone_ts p now w : forall ts ts', ts <= ts' -> sat p now w ts = true -> sat p now w ts' = true.
Proof.
  induction p as [n|m|ps IH|ps IH] using policy_ind'; intros ts ts' Hts; cbn [sat].
  - auto.
  - rewrite !N.leb_le. lia.
  - rewrite !existsb_exists. intros (q & Hin & Hq). exists q. split; [exact Hin|].
    rewrite Forall_forall in IH. eapply IH; eauto.
  - rewrite !forallb_forall. intros H q Hin.
    rewrite Forall_forall in IH. eapply IH; eauto.
Qed.

(* inside lsmtk now_micros = 0: the threshold of every ExpiresDeterminer is 0, so timestamps do
   not matter *)
Lemma sat_now0_ts p w ts ts' : sat p 0 w ts = sat p 0 w ts'.
Proof.
  induction p as [n|m|ps IH|ps IH] using policy_ind'; cbn [sat].
  - reflexivity.
  - change (0 - N.pos m) with 0. destruct ts, ts'; reflexivity.
  - induction IH as [|q qs Hq _ IHqs]; cbn [existsb]; [reflexivity|]. now rewrite Hq, IHqs.
  - induction IH as [|q qs Hq _ IHqs]; cbn [forallb]; [reflexivity|]. now rewrite Hq, IHqs.
Qed.
