(* Gc/Proofs_Literal.v — the loop-by-loop transcription of GarbageCollector::next (ModelLiteral.v)
   never runs out of fuel and computes exactly Model.gc_next. *)
From Coq Require Import NArith PArith List Bool Lia.
From Blue Require Import Gc.Model Gc.ModelLiteral Gc.Proofs_Key.
Import ListNotations.
Open Scope N_scope.

Lemma gc_loop_other_key e cur kb tombs d : key_eqb kb (ekey e) = false ->
  gc_loop (e :: cur) kb tombs d = gc_loop (e :: cur) (ekey e) [] d.
Proof. intros Hne. cbn [gc_loop]. rewrite Hne, key_eqb_refl. reflexivity. Qed.

(* passes round `'iterating` still to go: two per entry, one more if the head has a new key *)
Definition passes (cur : list entry) (kb : key) : nat :=
  (2 * length cur + match cur with e :: _ => if key_eqb kb (ekey e) then 0 else 1 | [] => 0 end)%nat.

Lemma passes_le cur kb : (passes cur kb <= 2 * length cur + 1)%nat.
Proof. unfold passes. destruct cur as [|e c]; [lia|]. destruct (key_eqb kb (ekey e)); lia. Qed.

Lemma gc_while_loop cur : forall kb tombs d,
  match gc_while cur kb tombs d with
  | WReturn x g => gc_loop cur kb tombs d = (Some x, g)
  | WContinue cur' d' => gc_loop cur kb tombs d = gc_loop cur' kb [] d' /\ (length cur' < length cur)%nat
  | WBreak d' => gc_loop cur kb tombs d = (None, mkGC [] d' kb None)
  | WExit cur' d' =>
      exists e c, cur' = e :: c /\ gc_loop cur kb tombs d = gc_loop cur' (ekey e) [] d' /\
                  (passes cur' (ekey e) < passes cur kb)%nat
  end.
Proof.
  induction cur as [|e cur IH]; intros kb tombs d; cbn [gc_while]; [reflexivity|].
  destruct (key_eqb kb (ekey e)) eqn:E.
  - destruct (evalue e) as [v|] eqn:Ev.
    + cbn [gc_loop]. rewrite E, Ev.
      destruct (retain d (ekey e) tombs (ets e)) as [r d']. destruct r.
      * unfold return_key. destruct (is_nil tombs); cbn [negb]; reflexivity.
      * split; [reflexivity|cbn [length]; lia].
    + specialize (IH kb (tombs ++ [ets e]) d).
      assert (Hstep : gc_loop (e :: cur) kb tombs d = gc_loop cur kb (tombs ++ [ets e]) d)
        by (cbn [gc_loop]; now rewrite E, Ev).
      destruct (gc_while cur kb (tombs ++ [ets e]) d) as [x g|cur' d'|d'|cur' d'].
      * now rewrite Hstep.
      * destruct IH as [IH1 IH2]. split; [now rewrite Hstep|cbn [length]; lia].
      * now rewrite Hstep.
      * destruct IH as (e2 & c & -> & IH1 & IH2). exists e2, c. split; [reflexivity|].
        split; [now rewrite Hstep|].
        pose proof (passes_le cur kb). unfold passes at 2. cbn [length]. rewrite E. lia.
  - exists e, cur. split; [reflexivity|]. split; [now apply gc_loop_other_key|].
    unfold passes. rewrite key_eqb_refl, E. lia.
Qed.

Lemma gc_iterating_loop fuel : forall cur kb d, (passes cur kb < fuel)%nat ->
  gc_iterating fuel cur kb d = Some (gc_loop cur kb [] d).
Proof.
  induction fuel as [|f IH]; intros cur kb d Hf; [lia|]. cbn [gc_iterating].
  destruct cur as [|e0 cur0]; [reflexivity|].
  pose proof (gc_while_loop (e0 :: cur0) kb [] d) as H.
  destruct (gc_while (e0 :: cur0) kb [] d) as [x g|cur' d'|d'|cur' d'].
  - now rewrite H.
  - destruct H as [H1 H2]. rewrite IH; [now rewrite H1|].
    pose proof (passes_le cur' kb). unfold passes in Hf. cbn [length] in *.
    destruct (key_eqb kb (ekey e0)); lia.
  - now rewrite H.
  - destruct H as (e & c & -> & H1 & H2). rewrite IH; [now rewrite H1|lia].
Qed.

(* the literal next() = the model's next(), and its fuel always suffices *)
Theorem gc_next_literal_eq g : gc_next_literal g = Some (gc_next g).
Proof.
  unfold gc_next_literal, gc_next. destruct (gret g); [reflexivity|].
  apply gc_iterating_loop. pose proof (passes_le (gcur g) (gkb g)). lia.
Qed.

Lemma drain_literal_eq fuel : forall g, drain_literal fuel g = drain fuel g.
Proof.
  induction fuel as [|f IH]; intros g; cbn [drain_literal drain]; [reflexivity|].
  rewrite gc_next_literal_eq. destruct (gc_next g) as [[x|] g']; [now rewrite IH|reflexivity].
Qed.

Theorem collect_literal_eq p es now : collect_literal p es now = collect p es now.
Proof. apply drain_literal_eq. Qed.
