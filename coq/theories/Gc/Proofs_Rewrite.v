(* Gc/Proofs_Rewrite.v — perform_compaction's loop through the multi-builder: whatever the size
   thresholds and the split hints, every entry of the merged inputs is written exactly once, in
   order, and no output file is empty. *)
From Coq Require Import NArith List Bool Lia.
From Blue Require Import Gc.Model.
Import ListNotations.
Open Scope N_scope.

Section MultiBuilder.
  Variable target_full : list entry -> bool.
  Variable minimum_full : list entry -> bool.

  Definition mb_ok (mb : mbuilder) : Prop :=
    Forall (fun f => f <> []) (mb_done mb) /\
    match mb_cur mb with Some es => es <> [] | None => True end.

  Definition mb_all (mb : mbuilder) : list entry :=
    concat (mb_done mb) ++ match mb_cur mb with Some es => es | None => [] end.

  Lemma mb_split_hint_ok mb : mb_ok mb ->
    mb_ok (mb_split_hint minimum_full mb) /\ mb_all (mb_split_hint minimum_full mb) = mb_all mb.
  Proof.
    destruct mb as [[es|] dn]; unfold mb_ok, mb_all, mb_split_hint, mb_seal_builder; cbn [mb_cur mb_done];
      intros [Hd Hc]; [|auto].
    destruct (minimum_full es); cbn [mb_cur mb_done]; [|auto].
    split.
    - split; [|exact I]. apply Forall_app. split; [exact Hd|]. now constructor.
    - rewrite concat_app. cbn [concat]. now rewrite !app_nil_r.
  Qed.

  Lemma mb_put_ok mb e : mb_ok mb ->
    mb_ok (mb_put target_full mb e) /\ mb_all (mb_put target_full mb e) = mb_all mb ++ [e].
  Proof.
    destruct mb as [[es|] dn]; unfold mb_ok, mb_all, mb_put; cbn [mb_cur mb_done]; intros [Hd Hc].
    - destruct (target_full es); cbn [mb_done mb_cur].
      + split.
        * split; [|discriminate]. apply Forall_app. split; [exact Hd|]. now constructor.
        * rewrite concat_app. cbn [concat]. now rewrite app_nil_r, <- app_assoc.
      + split.
        * split; [exact Hd|]. destruct es; discriminate.
        * now rewrite app_assoc.
    - split; [split; [exact Hd|discriminate]|]. now rewrite app_nil_r.
  Qed.

  Lemma rewrite_loop_ok main : forall mb, mb_ok mb ->
    mb_ok (rewrite_loop target_full minimum_full main mb) /\
    mb_all (rewrite_loop target_full minimum_full main mb) = mb_all mb ++ map snd main.
  Proof.
    induction main as [|[h e] r IH]; intros mb Hok; cbn [rewrite_loop map snd].
    - split; [exact Hok|now rewrite app_nil_r].
    - assert (H1 : mb_ok (if h then mb_split_hint minimum_full mb else mb) /\
                   mb_all (if h then mb_split_hint minimum_full mb else mb) = mb_all mb).
      { destruct h; [now apply mb_split_hint_ok|auto]. }
      destruct H1 as [Hok1 Hall1].
      destruct (mb_put_ok _ e Hok1) as [Hok2 Hall2].
      destruct (IH _ Hok2) as [Hok3 Hall3]. split; [exact Hok3|].
      rewrite Hall3, Hall2, Hall1, <- app_assoc. reflexivity.
  Qed.

  (* every size policy, every pattern of split hints, every input: the outputs, concatenated in
     the order seal() returns them, are the input; none is empty *)
  Theorem rewrite_outputs_spec main :
    concat (rewrite_outputs target_full minimum_full main) = map snd main /\
    Forall (fun f => f <> []) (rewrite_outputs target_full minimum_full main).
  Proof.
    unfold rewrite_outputs.
    destruct (rewrite_loop_ok main (mkMB None [])) as [[Hd Hc] Hall].
    { split; [constructor|exact I]. }
    unfold mb_all in Hall. cbn [mb_done mb_cur concat app] in Hall. unfold mb_seal.
    destruct (mb_cur (rewrite_loop target_full minimum_full main (mkMB None []))) as [es|].
    - split.
      + rewrite concat_app. cbn [concat]. now rewrite app_nil_r.
      + apply Forall_app. split; [exact Hd|]. now constructor.
    - split; [now rewrite app_nil_r in Hall|exact Hd].
  Qed.
End MultiBuilder.
