(* Gc/Proofs_Collect.v — the collector (GarbageCollector::next driven to exhaustion) returns
   exactly the KeyRefs of gc_spec, for every policy, every `now`, every input whose equal keys are
   adjacent. *)
From Coq Require Import NArith PArith List Bool Lia.
From Blue Require Import Gc.Model Gc.Spec Gc.Proofs_Key Gc.Proofs_Det.
Import ListNotations.
Open Scope N_scope.

(* ------------------------------------------------------------ 1. next-until-None, structurally *)
(* everything the collector will still return, as one structural recursion over the cursor *)
Fixpoint drain_s (cur : list entry) (kb : key) (tombs : list N) (d : det) {struct cur}
  : list keyref :=
  match cur with
  | [] => []
  | e :: cur' =>
      let same := key_eqb kb (ekey e) in
      let kb' := if same then kb else ekey e in
      let tombs' := if same then tombs else [] in
      match evalue e with
      | Some _ =>
          let (r, d') := retain d (ekey e) tombs' (ets e) in
          if r then
            (if is_nil tombs' then [(kb', ets e)] else [(kb', last tombs' 0); (kb', ets e)])
              ++ drain_s cur' kb' [] d'
          else drain_s cur' kb' [] d'
      | None => drain_s cur' kb' (tombs' ++ [ets e]) d
      end
  end.

Definition drain_g (g : collector) : list keyref :=
  match gret g with
  | Some ts => (gkb g, ts) :: drain_s (gcur g) (gkb g) [] (gdet g)
  | None => drain_s (gcur g) (gkb g) [] (gdet g)
  end.

Definition measure (g : collector) : nat :=
  (2 * length (gcur g) + match gret g with Some _ => 1 | None => 0 end)%nat.

Lemma gc_loop_drain cur : forall kb tombs d,
  match gc_loop cur kb tombs d with
  | (Some x, g') => drain_s cur kb tombs d = x :: drain_g g' /\ (measure g' < 2 * length cur)%nat
  | (None, g') => drain_s cur kb tombs d = []
  end.
Proof.
  induction cur as [|e cur IH]; intros kb tombs d; cbn [gc_loop drain_s]; [reflexivity|].
  destruct (evalue e) as [v|].
  - destruct (retain d (ekey e) (if key_eqb kb (ekey e) then tombs else []) (ets e)) as [r d'].
    destruct r.
    + destruct (is_nil (if key_eqb kb (ekey e) then tombs else [])).
      * unfold drain_g, measure; cbn [gret gcur gkb gdet app length]. split; [reflexivity|lia].
      * unfold drain_g, measure; cbn [gret gcur gkb gdet app length]. split; [reflexivity|lia].
    + specialize (IH (if key_eqb kb (ekey e) then kb else ekey e) [] d').
      destruct (gc_loop cur _ [] d') as [[x|] g'].
      * destruct IH as [IH1 IH2]. split; [exact IH1|cbn [length]; lia].
      * exact IH.
  - specialize (IH (if key_eqb kb (ekey e) then kb else ekey e)
                   ((if key_eqb kb (ekey e) then tombs else []) ++ [ets e]) d).
    destruct (gc_loop cur _ _ d) as [[x|] g'].
    + destruct IH as [IH1 IH2]. split; [exact IH1|cbn [length]; lia].
    + exact IH.
Qed.

Lemma gc_next_drain g :
  match gc_next g with
  | (Some x, g') => drain_g g = x :: drain_g g' /\ (measure g' < measure g)%nat
  | (None, _) => drain_g g = []
  end.
Proof.
  unfold gc_next. destruct g as [cur d kb ret]; cbn [gret gcur gkb gdet].
  destruct ret as [ts|].
  - unfold drain_g, measure; cbn [gret gcur gkb gdet]. split; [reflexivity|lia].
  - pose proof (gc_loop_drain cur kb [] d) as H.
    destruct (gc_loop cur kb [] d) as [[x|] g'].
    + destruct H as [H1 H2]. unfold drain_g at 1, measure at 2; cbn [gret gcur gkb gdet].
      split; [exact H1|lia].
    + exact H.
Qed.

Lemma drain_enough fuel : forall g, (measure g < fuel)%nat -> drain fuel g = Some (drain_g g).
Proof.
  induction fuel as [|f IH]; intros g Hm; [lia|]. cbn [drain].
  pose proof (gc_next_drain g) as H.
  destruct (gc_next g) as [[x|] g'].
  - destruct H as [H1 H2]. rewrite IH by lia. now rewrite H1.
  - now rewrite H.
Qed.

Definition hdkey (es : list entry) : key := match es with e :: _ => ekey e | [] => [] end.

Lemma collect_drain_s p es now :
  collect p es now = Some (drain_s es (hdkey es) [] (determiner p now)).
Proof.
  unfold collect. rewrite drain_enough.
  - reflexivity.
  - unfold measure, collector_new; cbn [gcur gret]. lia.
Qed.

(* ------------------------------------------------------------ 2. one key's run *)
Definition mkT (k : key) (t : N) : entry := mkE k t None.

Lemma spec_key_tombs_only p now w k tombs : spec_key p now w (map (mkT k) tombs) = [].
Proof.
  induction tombs as [|t tombs IH]; cbn [map spec_key]; [reflexivity|].
  cbn [is_value mkT evalue]. destruct tombs as [|t2 tombs']; [reflexivity|].
  cbn [map] in *. cbn [is_value mkT evalue]. exact IH.
Qed.

(* tombstones above a tombstone are dropped: only the oldest of a run matters *)
Lemma spec_key_collapse p now w k tombs l : tombs <> [] ->
  spec_key p now w (map (mkT k) tombs ++ l) = spec_key p now w (mkT k (last tombs 0) :: l).
Proof.
  induction tombs as [|t tombs IH]; intros Hne; [contradiction|].
  destruct tombs as [|t2 tombs'].
  - reflexivity.
  - change (last (t :: t2 :: tombs') 0) with (last (t2 :: tombs') 0).
    rewrite <- IH by discriminate.
    cbn [map app]. cbn [spec_key]. cbn [is_value mkT evalue]. reflexivity.
Qed.

Lemma entry_eta e : e = mkE (ekey e) (ets e) (evalue e).
Proof. destruct e; reflexivity. Qed.

Lemma wt_nil : wt [] = 1. Proof. reflexivity. Qed.
Lemma wt_cons t l : wt (t :: l) = 2. Proof. reflexivity. Qed.

(* the collector over the entries vs of one key k (followed by anything), started with the
   pending tombstones [tombs], the determiners at (dk, c) and w = weight already counted for k *)
Lemma run_lemma p now k rest vs :
  Forall (fun e => ekey e = k) vs ->
  forall tombs w dk c,
    (dk = k /\ c = w) \/ (dk <> k /\ w = 0) ->
    exists tombs' dk' c',
      drain_s (vs ++ rest) k tombs (det_of p now dk c) =
        map kr (spec_key p now w (map (mkT k) tombs ++ vs))
          ++ drain_s rest k tombs' (det_of p now dk' c')
      /\ (dk' = k \/ (dk' = dk /\ c' = c)).
Proof.
  induction 1 as [|e vs He _ IH]; intros tombs w dk c Hinv.
  - exists tombs, dk, c. rewrite app_nil_r, spec_key_tombs_only. cbn [map app]. auto.
  - cbn [app drain_s]. rewrite He, key_eqb_refl.
    destruct (evalue e) as [v|] eqn:Ev.
    + rewrite retain_det_of.
      assert (Hnc : newcount dk c k tombs = w + wt tombs).
      { unfold newcount. destruct Hinv as [[-> ->]|[Hne ->]].
        - now rewrite key_eqb_refl.
        - apply key_eqb_neq in Hne. rewrite Hne. lia. }
      rewrite Hnc.
      destruct (IH [] (w + wt tombs) k (w + wt tombs)) as (tombs' & dk' & c' & Hd & Hk);
        [left; auto|].
      cbn [map app] in Hd.
      exists tombs', dk', c'. split.
      2:{ destruct Hk as [Hk|[Hk _]]; left; exact Hk. }
      destruct tombs as [|t tombs0].
      * cbn [map app is_nil]. cbn [spec_key]. unfold is_value. rewrite Ev. rewrite wt_nil in *.
        destruct (sat p now (w + 1) (ets e)).
        -- cbn [app map]. replace (kr e) with (k, ets e) by (unfold kr; now rewrite He).
           rewrite Hd. reflexivity.
        -- rewrite Hd. reflexivity.
      * rewrite spec_key_collapse by discriminate.
        cbn [is_nil]. cbn [spec_key]. cbn [is_value mkT evalue]. unfold is_value. rewrite Ev.
        rewrite wt_cons in *.
        destruct (sat p now (w + 2) (ets e)).
        -- cbn [app map]. replace (kr e) with (k, ets e) by (unfold kr; now rewrite He).
           replace (kr (mkT k (last (t :: tombs0) 0))) with (k, last (t :: tombs0) 0) by reflexivity.
           rewrite Hd. reflexivity.
        -- rewrite Hd. reflexivity.
    + destruct (IH (tombs ++ [ets e]) w dk c Hinv) as (tombs' & dk' & c' & Hd & Hk).
      exists tombs', dk', c'. split; [|exact Hk].
      rewrite Hd. rewrite map_app, <- app_assoc. cbn [map app].
      replace (mkT k (ets e)) with e; [reflexivity|].
      rewrite (entry_eta e) at 1. rewrite He, Ev. reflexivity.
Qed.

(* pending tombstones and key_backing are irrelevant once the cursor stands on another key *)
Lemma drain_s_other_key e cur kb tombs d : kb <> ekey e ->
  drain_s (e :: cur) kb tombs d = drain_s (e :: cur) (ekey e) [] d.
Proof.
  intros Hne. cbn [drain_s]. apply key_eqb_neq in Hne. rewrite Hne, key_eqb_refl. reflexivity.
Qed.

(* ------------------------------------------------------------ 3. splitting off the first run *)
Fixpoint take_key (k : key) (es : list entry) : list entry :=
  match es with
  | e :: es' => if key_eqb (ekey e) k then e :: take_key k es' else []
  | [] => []
  end.
Fixpoint drop_key (k : key) (es : list entry) : list entry :=
  match es with
  | e :: es' => if key_eqb (ekey e) k then drop_key k es' else es
  | [] => []
  end.

Lemma take_drop k es : es = take_key k es ++ drop_key k es.
Proof.
  induction es as [|e es IH]; cbn [take_key drop_key]; [reflexivity|].
  destruct (key_eqb (ekey e) k); cbn [app]; [now rewrite <- IH|reflexivity].
Qed.

Lemma take_key_all k es : Forall (fun e => ekey e = k) (take_key k es).
Proof.
  induction es as [|e es IH]; cbn [take_key]; [constructor|].
  destruct (key_eqb (ekey e) k) eqn:E; [|constructor].
  constructor; [now apply key_eqb_eq|exact IH].
Qed.

Lemma drop_key_head k es : match drop_key k es with e :: _ => ekey e <> k | [] => True end.
Proof.
  induction es as [|e es IH]; cbn [drop_key]; [exact I|].
  destruct (key_eqb (ekey e) k) eqn:E; [exact IH|now apply key_eqb_neq].
Qed.

Lemma drop_key_length k es : (length (drop_key k es) <= length es)%nat.
Proof.
  induction es as [|e es IH]; cbn [drop_key length]; [lia|].
  destruct (key_eqb (ekey e) k); cbn [length]; lia.
Qed.

Lemma drop_key_incl k es x : In x (drop_key k es) -> In x es.
Proof.
  induction es as [|e es IH]; cbn [drop_key]; [auto|].
  destruct (key_eqb (ekey e) k); [intros H; right; auto|auto].
Qed.

Lemma contiguous_tail e es : contiguous (e :: es) -> contiguous es.
Proof. cbn [contiguous]. tauto. Qed.

Lemma contiguous_drop k es : contiguous es -> contiguous (drop_key k es).
Proof.
  induction es as [|e es IH]; intros Hc; cbn [drop_key]; [exact I|].
  destruct (key_eqb (ekey e) k); [apply IH; eapply contiguous_tail; eauto|exact Hc].
Qed.

Lemma contiguous_drop_notin es : forall e, contiguous (e :: es) ->
  ~ In (ekey e) (map ekey (drop_key (ekey e) es)).
Proof.
  induction es as [|e' es IH]; intros e Hc; [cbn; tauto|].
  cbn [drop_key]. destruct Hc as [Hc' Hhd].
  destruct (key_eqb (ekey e') (ekey e)) eqn:E.
  - apply key_eqb_eq in E. rewrite <- E. apply IH. exact Hc'.
  - destruct Hhd as [Heq|Hnin]; [apply key_eqb_neq in E; contradiction|exact Hnin].
Qed.

(* ------------------------------------------------------------ 4. gc_spec, run by run *)
Lemma filter_comm {A} (f g : A -> bool) l : filter f (filter g l) = filter g (filter f l).
Proof.
  induction l as [|x l IH]; cbn [filter]; [reflexivity|].
  destruct (g x) eqn:G; destruct (f x) eqn:F; cbn [filter]; rewrite ?G, ?F; now rewrite ?IH.
Qed.

Lemma filter_idem {A} (f : A -> bool) l : filter f (filter f l) = filter f l.
Proof.
  induction l as [|x l IH]; cbn [filter]; [reflexivity|].
  destruct (f x) eqn:F; cbn [filter]; rewrite ?F; now rewrite ?IH.
Qed.

Lemma keys_filter k es :
  filter (fun k' => negb (key_eqb k' k)) (keys es)
  = keys (filter (fun e => negb (key_eqb (ekey e) k)) es).
Proof.
  induction es as [|e es IH]; cbn [keys filter]; [reflexivity|].
  destruct (key_eqb (ekey e) k) eqn:E; cbn [negb].
  - apply key_eqb_eq in E. rewrite <- IH. rewrite E. apply filter_idem.
  - cbn [keys]. f_equal. rewrite <- IH. apply filter_comm.
Qed.

Lemma filter_all_false {A} (f : A -> bool) l : Forall (fun x => f x = false) l -> filter f l = [].
Proof. induction 1 as [|x l Hx _ IH]; cbn [filter]; [reflexivity|]. now rewrite Hx. Qed.

Lemma filter_all_true {A} (f : A -> bool) l : Forall (fun x => f x = true) l -> filter f l = l.
Proof. induction 1 as [|x l Hx _ IH]; cbn [filter]; [reflexivity|]. now rewrite Hx, IH. Qed.

Lemma keys_in es k : In k (keys es) <-> In k (map ekey es).
Proof.
  induction es as [|e es IH]; cbn [keys map]; [tauto|]. cbn [In].
  rewrite filter_In, IH. split.
  - intros [H|[H _]]; auto.
  - intros [H|H]; [auto|]. destruct (key_eq_dec k (ekey e)) as [->|Hne]; [auto|].
    right. split; [exact H|]. apply key_eqb_neq in Hne. now rewrite Hne.
Qed.

Lemma flat_map_ext_in' {A B} (f g : A -> list B) l :
  (forall x, In x l -> f x = g x) -> flat_map f l = flat_map g l.
Proof.
  induction l as [|x l IH]; intros H; cbn [flat_map]; [reflexivity|].
  rewrite H by (left; reflexivity). f_equal. apply IH. intros y Hy. apply H. now right.
Qed.

Lemma gc_spec_split p now k tw dw :
  tw <> [] -> Forall (fun e => ekey e = k) tw -> ~ In k (map ekey dw) ->
  gc_spec p now (tw ++ dw) = spec_key p now 0 tw ++ gc_spec p now dw.
Proof.
  intros Hne Hall Hnin. unfold gc_spec.
  destruct tw as [|e tw']; [contradiction|].
  assert (Hk : ekey e = k) by now inversion Hall.
  cbn [app keys flat_map]. rewrite Hk.
  assert (Hdwf : Forall (fun x => key_eqb (ekey x) k = false) dw).
  { apply Forall_forall. intros x Hx. apply key_eqb_neq. intros E. apply Hnin.
    rewrite <- E. now apply in_map. }
  assert (Htwt : Forall (fun x => key_eqb (ekey x) k = true) (e :: tw')).
  { eapply Forall_impl; [|exact Hall]. cbn. intros x ->. apply key_eqb_refl. }
  f_equal.
  - f_equal. unfold kfilter. change (e :: tw' ++ dw) with ((e :: tw') ++ dw).
    rewrite filter_app, (filter_all_true _ _ Htwt), (filter_all_false _ _ Hdwf). now rewrite app_nil_r.
  - rewrite keys_filter, filter_app.
    rewrite (filter_all_false (fun e0 => negb (key_eqb (ekey e0) k)) tw').
    2:{ inversion Htwt; subst. eapply Forall_impl; [|eassumption]. cbn. intros x ->. reflexivity. }
    rewrite (filter_all_true (fun e0 => negb (key_eqb (ekey e0) k)) dw).
    2:{ eapply Forall_impl; [|exact Hdwf]. cbn. intros x ->. reflexivity. }
    cbn [app]. apply flat_map_ext_in'. intros k' Hk'.
    f_equal. unfold kfilter. change (e :: tw' ++ dw) with ((e :: tw') ++ dw).
    rewrite filter_app. rewrite (filter_all_false (fun e0 => key_eqb (ekey e0) k') (e :: tw')); [reflexivity|].
    eapply Forall_impl; [|exact Hall]. cbn. intros x ->.
    apply key_eqb_neq. intros ->. apply Hnin. now apply keys_in.
Qed.

(* ------------------------------------------------------------ 5. the whole input *)
Lemma drain_s_spec p now : forall n es, (length es <= n)%nat -> contiguous es ->
  forall dk c, (c = 0 \/ ~ In dk (map ekey es)) ->
  drain_s es (hdkey es) [] (det_of p now dk c) = map kr (gc_spec p now es).
Proof.
  induction n as [|n IH]; intros es Hlen Hc dk c HQ.
  - destruct es; [reflexivity|cbn in Hlen; lia].
  - destruct es as [|e es']; [reflexivity|].
    cbn [hdkey]. set (k := ekey e).
    pose proof (take_drop k es') as Hsplit.
    set (tw := e :: take_key k es'). set (dw := drop_key k es').
    assert (Hes : e :: es' = tw ++ dw) by (unfold tw, dw; cbn [app]; now rewrite <- Hsplit).
    assert (Hall : Forall (fun x => ekey x = k) tw)
      by (unfold tw; constructor; [reflexivity|apply take_key_all]).
    assert (Hnin : ~ In k (map ekey dw)) by (unfold dw, k; now apply contiguous_drop_notin).
    rewrite Hes.
    destruct (run_lemma p now k dw tw Hall [] 0 dk c) as (tombs' & dk' & c' & Hd & Hk).
    { destruct (key_eq_dec dk k) as [->|Hne]; [|right; auto].
      left. split; [reflexivity|]. destruct HQ as [HQ|HQ]; [exact HQ|].
      exfalso. apply HQ. cbn [map In]. now left. }
    cbn [map app] in Hd. rewrite Hd.
    rewrite (gc_spec_split p now k tw dw) by (auto; unfold tw; discriminate).
    rewrite map_app. f_equal.
    assert (Hdwc : contiguous dw)
      by (unfold dw; apply contiguous_drop; eapply contiguous_tail; eauto).
    assert (Hdwl : (length dw <= n)%nat).
    { unfold dw. pose proof (drop_key_length k es'). cbn [length] in Hlen. lia. }
    assert (HQ' : c' = 0 \/ ~ In dk' (map ekey dw)).
    { destruct Hk as [->|[-> ->]]; [right; exact Hnin|].
      destruct HQ as [HQ|HQ]; [left; exact HQ|right].
      intros Hin. apply HQ. apply in_map_iff in Hin. destruct Hin as (x & Hx1 & Hx2).
      apply in_map_iff. exists x. split; [exact Hx1|]. right. eapply drop_key_incl; eauto. }
    pose proof (drop_key_head k es') as Hhd. fold dw in Hhd.
    destruct dw as [|e2 dw'] eqn:Edw.
    + reflexivity.
    + rewrite drain_s_other_key by (intros E; apply Hhd; now rewrite E).
      rewrite <- Edw in *. replace (ekey e2) with (hdkey dw) by (rewrite Edw; reflexivity).
      apply IH; assumption.
Qed.

(* the collector equals the specification: every policy, every clock value, every input in which
   equal keys are adjacent (in particular every sorted input), any length *)
Theorem collect_eq_spec p now es : contiguous es ->
  collect p es now = Some (map kr (gc_spec p now es)).
Proof.
  intros Hc. rewrite collect_drain_s, determiner_det_of. f_equal.
  apply (drain_s_spec p now (length es)); auto.
Qed.
