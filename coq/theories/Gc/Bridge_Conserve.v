(* Gc/Bridge_Conserve.v — the first half of C05 over the tree model of area Lsm:
   "a compaction that is not a garbage collection leaves the multiset of (key, timestamp,
   value-or-tombstone) entries reachable through the tree unchanged", for every admissible
   compaction (shape + the upper level's slice are inputs) and EVERY way of cutting the merged
   inputs into output files (outputs_okb: the concatenation of the outputs is the sorted merge
   of the inputs; no empty file). *)
From Coq Require Import NArith List Bool Lia Arith Permutation.
From Blue Require Import Lsm.Model Lsm.KeyOrder Lsm.ListLemmas Lsm.SortLemmas Lsm.CompactProofs.
Import ListNotations.
Open Scope N_scope.

Lemma filter_partition_perm {A} (p : A -> bool) (l : list A) :
  Permutation l (filter p l ++ filter (fun x => negb (p x)) l).
Proof.
  induction l as [|x l IH]; cbn [filter]; [constructor|].
  destruct (p x); cbn [negb app].
  - now constructor.
  - now apply Permutation_cons_app.
Qed.

Lemma filter_forallb_id {A} (p : A -> bool) (l : list A) : forallb p l = true -> filter p l = l.
Proof.
  induction l as [|x l IH]; cbn [forallb filter]; [reflexivity|].
  intros H. apply andb_prop in H. destruct H as [Hx Hl]. now rewrite Hx, IH.
Qed.

(* the file lists before and after an admissible compaction, whatever the outputs are *)
Lemma flat_before_after v c outs : vc_shape v c = true ->
  let ov := ordered_levels v in
  let u := upper_level v c in
  let lb := lower_bound u (cfirst c) in
  let ub := upper_bound u (clast c) in
  let pre := concat (firstn (clower c) ov) in
  let post := concat (skipn (S (cupper c)) ov) in
  flat v = pre ++ mid_files v c ++ (firstn lb u ++ upper_slice v c ++ skipn ub u) ++ post /\
  flat (apply_compaction v c outs) =
    pre ++ filter (fun f => negb (is_input c f)) (mid_files v c) ++ (firstn lb u ++ outs ++ skipn ub u) ++ post.
Proof.
  intros Hs. unfold vc_shape in Hs.
  repeat (apply andb_prop in Hs; destruct Hs as [Hs ?]).
  apply Nat.ltb_lt in Hs. rename Hs into Hlt.
  match goal with H : (_ <? length _)%nat = true |- _ => apply Nat.ltb_lt in H; rename H into Hlen end.
  match goal with H : (_ <=? _)%nat = true |- _ => apply Nat.leb_le in H; rename H into Hlbub end.
  cbv zeta.
  set (ov := ordered_levels v). set (lo := clower c) in *. set (up := cupper c) in *.
  set (u := upper_level v c) in *. set (lb := lower_bound u (cfirst c)) in *. set (ub := upper_bound u (clast c)) in *.
  assert (Hu : u = nth up ov []) by (unfold u, upper_level, ov; rewrite nth_ordered_levels; [reflexivity|lia]).
  assert (HM : mid_files v c = concat (firstn (up - lo) (skipn lo ov))) by reflexivity.
  assert (Hsplit : u = firstn lb u ++ upper_slice v c ++ skipn ub u).
  { unfold upper_slice, slice. fold u lb ub.
    rewrite <- (firstn_skipn lb u) at 1. f_equal.
    rewrite <- (firstn_skipn (ub - lb) (skipn lb u)) at 1. f_equal.
    rewrite skipn_skipn'. f_equal. lia. }
  split.
  - rewrite flat_ordered_levels. fold ov.
    rewrite (split_levels lo up ov []) at 1; [|lia|unfold ov; rewrite length_ordered_levels; lia].
    rewrite !concat_app. cbn [concat]. rewrite app_nil_r, <- Hu, HM, <- Hsplit. reflexivity.
  - rewrite flat_ordered_levels, ordered_levels_apply by assumption.
    fold ov lo up. rewrite !concat_app. cbn [concat]. rewrite app_nil_r, HM, filter_concat. reflexivity.
Qed.

Lemma input_entries_split v c : vc_slice v c = true ->
  input_entries v c = flat_map fents (filter (is_input c) (mid_files v c)) ++ flat_map fents (upper_slice v c).
Proof.
  intros Hsl. unfold input_entries, input_files. rewrite filter_app, flat_map_app.
  unfold vc_slice in Hsl. now rewrite (filter_forallb_id _ _ Hsl).
Qed.

(* entries of the tree after = entries before - entries of the inputs + entries of the outputs *)
Lemma file_entries_compaction v c outs : vc_shape v c = true -> vc_slice v c = true ->
  Permutation (file_entries (apply_compaction v c outs) ++ input_entries v c)
              (file_entries v ++ flat_map fents outs).
Proof.
  intros Hshape Hslice.
  destruct (flat_before_after v c outs Hshape) as [Hold Hnew]. cbv zeta in Hold, Hnew.
  unfold file_entries. rewrite Hold, Hnew, (input_entries_split v c Hslice). clear Hold Hnew.
  rewrite !flat_map_app.
  set (X := flat_map fents (concat (firstn (clower c) (ordered_levels v)))).
  set (Z := flat_map fents (concat (skipn (S (cupper c)) (ordered_levels v)))).
  set (A := flat_map fents (firstn _ (upper_level v c))).
  set (B := flat_map fents (skipn _ (upper_level v c))).
  set (S := flat_map fents (upper_slice v c)).
  set (O := flat_map fents outs).
  set (I := flat_map fents (filter (is_input c) (mid_files v c))).
  set (Nn := flat_map fents (filter (fun f => negb (is_input c f)) (mid_files v c))).
  assert (HM : Permutation (flat_map fents (mid_files v c)) (I ++ Nn)).
  { unfold I, Nn. rewrite <- flat_map_app. apply Permutation_flat_map, filter_partition_perm. }
  rewrite HM. clear HM.
  (* both sides hold X, Nn, A, O, B, Z, I, S once each *)
  apply Permutation_trans with (X ++ Nn ++ A ++ B ++ Z ++ I ++ S ++ O).
  - rewrite <- !app_assoc. apply Permutation_app_head. apply Permutation_app_head. apply Permutation_app_head.
    replace (B ++ Z ++ I ++ S ++ O) with ((B ++ Z ++ I ++ S) ++ O) by now rewrite <- !app_assoc.
    apply Permutation_app_comm.
  - rewrite <- !app_assoc. apply Permutation_app_head.
    rewrite (Permutation_app_swap_app I Nn). apply Permutation_app_head.
    rewrite (Permutation_app_swap_app I A). apply Permutation_app_head.
    rewrite (Permutation_app_swap_app S B). rewrite (Permutation_app_swap_app I B). apply Permutation_app_head.
    rewrite (Permutation_app_swap_app S Z). rewrite (Permutation_app_swap_app I Z). apply Permutation_app_head.
    reflexivity.
Qed.

(* THE conservation theorem: an admissible compaction whose outputs are the sorted merge of its
   inputs cut anywhere into non-empty files (what perform_compaction's loop and the multi-builder
   produce, with or without split hints, a key's versions straddling two files or not) leaves the
   multiset of entries reachable through the tree unchanged *)
Theorem compaction_conserves_entries v c outs :
  vc_shape v c = true -> vc_slice v c = true -> outputs_okb v c outs = true ->
  Permutation (file_entries (apply_compaction v c outs)) (file_entries v).
Proof.
  intros Hshape Hslice Hok.
  unfold outputs_okb in Hok. apply andb_prop in Hok. destruct Hok as [Heq _].
  apply entries_eqb_eq in Heq.
  pose proof (file_entries_compaction v c outs Hshape Hslice) as H.
  rewrite Heq in H. rewrite <- (sort_entries_perm (input_entries v c)) in H.
  eapply Permutation_app_inv_r. exact H.
Qed.

Corollary valid_compaction_conserves_entries v c outs :
  valid_compactionb v c = true -> outputs_okb v c outs = true ->
  Permutation (file_entries (apply_compaction v c outs)) (file_entries v).
Proof.
  intros Hv Hok. unfold valid_compactionb in Hv. rewrite !andb_true_iff in Hv.
  destruct Hv as [[[[[Hshape Hslice] _] _] _] _].
  now apply compaction_conserves_entries.
Qed.
