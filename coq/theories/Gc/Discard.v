(* Gc/Discard.v — the discard accumulator of perform_garbage_collection, over the Setsum model of
   area Setsum (C14).  Definitions only.  H is SHA3-256: a Section variable. *)
From Coq Require Import NArith List.
From Blue Require Import Setsum.Model Gc.Model Gc.Spec.
Import ListNotations.
Open Scope N_scope.

Section WithHash.
  Variable H : list N -> list N.

  (* `let mut setsum = sst::Setsum::default(); setsum.insert(kvr);` — sst::Setsum::insert
     dispatches on the value: put frames [8] key ts_le value, del frames [9] key ts_le *)
  Definition entry_setsum (e : entry) : state :=
    match evalue e with
    | Some v => kv_put H zero (ekey e) (ets e) v
    | None => kv_del H zero (ekey e) (ets e)
    end.

  (* `discard += setsum.into_inner();` *)
  Definition discard_add (discard : state) (e : entry) : state :=
    add_state discard (entry_setsum e).

  (* perform_garbage_collection: written entries and the discard setsum handed to
     compaction_finish *)
  Definition gc_walk_setsum (p : policy) (es : list entry) : walk_result state :=
    gc_walk discard_add zero p es.

  (* the item a key-value entry contributes to a setsum (sst/src/setsum.rs framing) *)
  Definition frame (e : entry) : list N :=
    match evalue e with
    | Some v => [8] ++ ekey e ++ le64_of (ets e) ++ v
    | None => [9] ++ ekey e ++ le64_of (ets e)
    end.

  (* the setsum of a list of entries: what an SST holding them records (SstBuilder adds every
     entry with put/del) and what compaction_finish sums over inputs and outputs *)
  Definition entries_setsum (es : list entry) : state := setsum_of H (map frame es).
End WithHash.
