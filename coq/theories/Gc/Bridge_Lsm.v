(* Gc/Bridge_Lsm.v — area Gc (the collector and the walk of perform_garbage_collection, over a
   merged list of entries) joined to area Lsm (the tree: levels, files, apply_compaction, reads).

   For a compaction c that area Lsm admits (valid_compactionb) into the LAST level of a
   well-formed, Ordered store s, with E = the sorted merge of c's inputs:
   1. E, seen as a Gc input, is strictly sorted (so every Gc walk theorem applies to it);
   2. whatever is cut from gc_spec p 0 E into non-empty files satisfies Lsm's gc_outputs_okb
      (for every policy that retains a sole newest version) — hence Lsm's gc_preserves_reads
      applies to what the real collector writes;
   3. the precondition inputs_closed_for of Gc's tree-level read theorem holds for the part of the
      key's view that lies outside the inputs (derived from Ordered + valid_compactionb, whose
      vc_closed is the overlap closure of the inputs);
   4. the tree's entries after the GC plus the dropped entries are the tree's entries before. *)
From Coq Require Import NArith PArith List Bool Lia Arith Permutation.
From Blue Require Import Lsm.Model Lsm.KeyOrder Lsm.LoadProofs Lsm.Ordered Lsm.ListLemmas
  Lsm.SortLemmas Lsm.CompactProofs Lsm.GcProofs.
From Blue Require Gc.Model Gc.Spec Gc.Proofs_Key Gc.Proofs_Walk Gc.Proofs_Current Gc.Proofs_Tree
  Gc.Proofs_Weak Gc.Proofs_Rewrite.
From Blue Require Import Gc.Bridge_Conserve.
Import ListNotations.
Open Scope N_scope.

Module G := Blue.Gc.Model.
Module GS := Blue.Gc.Spec.

(* ------------------------------------------------------------ the two entry types *)
Definition to_gc (e : entry) : G.entry := G.mkE (ek e) (ets e) (ev e).
Definition of_gc (e : G.entry) : entry := mkE (G.ekey e) (G.ets e) (G.evalue e).

Lemma of_to e : of_gc (to_gc e) = e.
Proof. destruct e; reflexivity. Qed.
Lemma to_of e : to_gc (of_gc e) = e.
Proof. destruct e; reflexivity. Qed.
Lemma map_of_to l : map of_gc (map to_gc l) = l.
Proof. rewrite map_map. rewrite <- (map_id l) at 2. apply map_ext. exact of_to. Qed.
Lemma map_to_of l : map to_gc (map of_gc l) = l.
Proof. rewrite map_map. rewrite <- (map_id l) at 2. apply map_ext. exact to_of. Qed.

(* the two areas define the byte-string order by the same fixpoint *)
Lemma lex_cmp_same a b : lex_cmp a b = G.lex_cmp a b.
Proof. reflexivity. Qed.

Lemma key_eqb_same a b : key_eqb a b = G.key_eqb a b.
Proof. reflexivity. Qed.

(* ------------------------------------------------------------ 1. sortedness *)
Lemma entry_leb_keyref x y : entry_leb x y = true <-> G.keyref_cmp (G.kr (to_gc x)) (G.kr (to_gc y)) <> Gt.
Proof.
  unfold entry_leb, G.keyref_cmp, G.kr, to_gc; cbn [fst snd G.ekey G.ets].
  change (G.lex_cmp (ek x) (ek y)) with (lex_cmp (ek x) (ek y)).
  destruct (lex_cmp (ek x) (ek y)); [|split; [discriminate|reflexivity]|split; [discriminate|congruence]].
  rewrite N.leb_le. destruct (N.compare (ets x) (ets y)) eqn:C; cbn [CompOpp].
  - apply N.compare_eq in C. split; [discriminate|intros _; lia].
  - rewrite N.compare_lt_iff in C. split; [intros H; exfalso; lia|congruence].
  - rewrite N.compare_gt_iff in C. split; [discriminate|intros _; lia].
Qed.

Lemma ssorted_wsorted l : ssorted l -> GS.wsorted (map to_gc l).
Proof.
  induction l as [|x r IH]; intros Hs; [exact I|]. destruct Hs as [Hx Hr]. cbn [map GS.wsorted].
  split; [auto|]. destruct r as [|y r']; [exact I|]. cbn [map].
  apply entry_leb_keyref. apply Hx. now left.
Qed.

Lemma sorted_entriesb_sorted l : sorted_entriesb l = true -> GS.sorted (map to_gc l).
Proof.
  induction l as [|x r IH]; intros Hs; [exact I|]. cbn [map GS.sorted].
  destruct r as [|y r']; [split; exact I|].
  change (sorted_entriesb (x :: y :: r')) with (entry_leb x y && negb (entry_leb y x) && sorted_entriesb (y :: r')) in Hs.
  apply andb_prop in Hs. destruct Hs as [Hs Hr]. apply andb_prop in Hs. destruct Hs as [Hxy Hyx].
  split; [now apply IH|]. cbn [map].
  apply negb_true_iff in Hyx.
  assert (Hn : ~ G.keyref_cmp (G.kr (to_gc y)) (G.kr (to_gc x)) <> Gt).
  { intros H. apply entry_leb_keyref in H. congruence. }
  rewrite (Gc.Proofs_Key.keyref_cmp_antisym (G.kr (to_gc x)) (G.kr (to_gc y))) in Hn.
  destruct (G.keyref_cmp (G.kr (to_gc x)) (G.kr (to_gc y))); cbn [CompOpp] in Hn; try reflexivity;
    exfalso; apply Hn; discriminate.
Qed.

(* ------------------------------------------------------------ sub-sequences, both ways *)
Lemma sublist_subseq a b : Gc.Proofs_Walk.sublist a b -> subseq (map of_gc a) (map of_gc b).
Proof. induction 1; cbn [map]; constructor; assumption. Qed.

Lemma entry_eqb_refl e : entry_eqb e e = true.
Proof.
  unfold entry_eqb. rewrite key_eqb_refl, N.eqb_refl. destruct (ev e); [apply key_eqb_refl|reflexivity].
Qed.

Lemma subseq_cons_l x a b : subseq (x :: a) b -> subseq a b.
Proof.
  remember (x :: a) as xa eqn:E. induction 1 as [l|a0 y b0 H IH|x0 a0 b0 H IH]; [discriminate| |].
  - apply sub_skip. auto.
  - inversion E; subst. now apply sub_skip.
Qed.

(* the boolean leftmost matcher finds every sub-sequence *)
Lemma subseqb_complete b : forall a, subseq a b -> subseqb a b = true.
Proof.
  induction b as [|y b IH]; intros a Hs.
  - apply subseq_nil_r in Hs. now subst.
  - destruct a as [|x a]; [reflexivity|]. cbn [subseqb].
    destruct (entry_eqb x y) eqn:E.
    + apply IH. inversion Hs; subst; [eapply subseq_cons_l; eauto|assumption].
    + apply IH. inversion Hs; subst; [assumption|]. rewrite entry_eqb_refl in E. discriminate.
Qed.

(* ------------------------------------------------------------ 2. gc_spec outputs are gc outputs *)
Lemma shown_find_visible k l :
  shown (find (fun x => key_eqb (ek x) k) l) = GS.visible (map to_gc l) k.
Proof.
  unfold GS.visible, GS.kfilter. induction l as [|e l IH]; [reflexivity|]. cbn [find map filter].
  change (G.key_eqb (G.ekey (to_gc e)) k) with (key_eqb (ek e) k).
  destruct (key_eqb (ek e) k); [reflexivity|exact IH].
Qed.

Lemma opt_bytes_eqb_refl o : opt_bytes_eqb o o = true.
Proof. destruct o; [apply key_eqb_refl|reflexivity]. Qed.

Theorem gc_spec_outputs_ok v c outs p :
  GS.keeps_newest p = true ->
  ssorted (sort_entries (input_entries v c)) ->
  flat_map fents outs = map of_gc (GS.gc_spec p 0 (map to_gc (sort_entries (input_entries v c)))) ->
  forallb (fun f => match fents f with [] => false | _ => true end) outs = true ->
  gc_outputs_okb v c outs = true.
Proof.
  intros Hk Hss Hout Hne. unfold gc_outputs_okb. rewrite Hne, andb_true_r.
  set (E := sort_entries (input_entries v c)) in *. set (es := map to_gc E) in *.
  rewrite Hout. apply andb_true_intro. split.
  - apply subseqb_complete. rewrite <- (map_of_to E). fold es. apply sublist_subseq.
    apply (Gc.Proofs_Walk.gc_spec_sublist p 0 (length es)); [lia|].
    apply Gc.Proofs_Weak.wsorted_contiguous. now apply ssorted_wsorted.
  - unfold gc_heads_okb. apply forallb_forall. intros e _.
    rewrite !shown_find_visible, map_to_of. fold es.
    rewrite (Gc.Proofs_Current.gc_spec_visible p es (ek e) Hk). apply opt_bytes_eqb_refl.
Qed.

(* ------------------------------------------------------------ perform_compaction's loop feeds Lsm *)
Lemma entries_eqb_refl l : entries_eqb l l = true.
Proof.
  induction l as [|x l IH]; [reflexivity|]. cbn [entries_eqb].
  rewrite key_eqb_refl, N.eqb_refl, IH. destruct (ev x); [now rewrite key_eqb_refl|reflexivity].
Qed.

Lemma concat_map_map {A B} (f : A -> B) (ls : list (list A)) : concat (map (map f) ls) = map f (concat ls).
Proof. induction ls as [|l ls IH]; cbn [map concat]; [reflexivity|]. now rewrite map_app, IH. Qed.

(* what the rewrite loop of perform_compaction writes through the multi-builder — for every size
   policy and every pattern of split hints — is an admissible set of outputs for area Lsm's
   apply_compaction, so (Bridge_Conserve) the tree's entries are conserved *)
Theorem rewrite_outputs_admissible v c target_full minimum_full main outs :
  map snd main = map to_gc (sort_entries (input_entries v c)) ->
  map fents outs = map (map of_gc) (G.rewrite_outputs target_full minimum_full main) ->
  outputs_okb v c outs = true.
Proof.
  intros Hmain Hout.
  destruct (Gc.Proofs_Rewrite.rewrite_outputs_spec target_full minimum_full main) as [Hcat Hne].
  unfold outputs_okb. apply andb_true_intro. split.
  - rewrite flat_map_concat_map, Hout, concat_map_map, Hcat, Hmain, map_of_to. apply entries_eqb_refl.
  - apply forallb_forall. intros f Hf.
    assert (Hin : In (fents f) (map fents outs)) by now apply in_map.
    rewrite Hout in Hin. apply in_map_iff in Hin. destruct Hin as (es & Hes & Hes').
    rewrite Forall_forall in Hne. specialize (Hne es Hes').
    rewrite <- Hes. destruct es; [contradiction|reflexivity].
Qed.

Corollary rewrite_conserves_entries v c target_full minimum_full main outs :
  valid_compactionb v c = true ->
  map snd main = map to_gc (sort_entries (input_entries v c)) ->
  map fents outs = map (map of_gc) (G.rewrite_outputs target_full minimum_full main) ->
  Permutation (file_entries (apply_compaction v c outs)) (file_entries v).
Proof.
  intros Hv Hmain Hout. apply valid_compaction_conserves_entries; [exact Hv|].
  eapply rewrite_outputs_admissible; eauto.
Qed.

(* ------------------------------------------------------------ the inputs of an admissible
   compaction into the last level of an Ordered store *)
Section TopLevel.
  Variable s : store.
  Variable c : compaction.
  Hypothesis Hw : wf_version (ver s).
  Hypothesis Ho : Ordered s.
  Hypothesis Hv : valid_compactionb (ver s) c = true.

  Let E := sort_entries (input_entries (ver s) c).

  Lemma slice_all_inputs : filter (is_input c) (upper_slice (ver s) c) = upper_slice (ver s) c.
  Proof.
    apply filter_forallb_id. unfold valid_compactionb in Hv. rewrite !andb_true_iff in Hv.
    destruct Hv as [[[[[_ Hslice] _] _] _] _]. exact Hslice.
  Qed.

  Lemma inputs_view k : kfilter k (input_entries (ver s) c) = J s c k.
  Proof. rewrite input_view, slice_all_inputs. reflexivity. Qed.

  Lemma J_desc k : desc_ts (J s c k).
  Proof.
    destruct (compaction_shape s c [] k Hw Hv) as (A & B & Hold & _ & _).
    pose proof (Ho k) as Hd. rewrite Hold in Hd.
    apply desc_ts_app in Hd. destruct Hd as (_ & Hd & _). apply desc_ts_app in Hd. tauto.
  Qed.

  Lemma kfilter_E k : kfilter k E = J s c k.
  Proof.
    unfold E. rewrite kfilter_sort_entries; [apply inputs_view|]. rewrite inputs_view. apply J_desc.
  Qed.

  (* 1. the merged inputs are strictly sorted: every (key, timestamp) pair occurs once *)
  Theorem merged_inputs_sorted : GS.sorted (map to_gc E).
  Proof.
    apply sorted_entriesb_sorted, ssorted_strict_sortedb; [apply sort_entries_ssorted|].
    intros k. rewrite kfilter_E. apply J_desc.
  Qed.

  (* 3. what lies outside the inputs is newer, key by key: the view of k is A ++ (versions in the
     inputs) ++ B, at the last level B is empty as soon as the inputs hold a version of k, and
     everything in A is newer than everything in the inputs *)
  Theorem inputs_closed_from_ordered k outs : S (cupper c) = length (ver s) ->
    exists A B, kview s k = A ++ J s c k ++ B /\
                kview (compact s c outs) k = A ++ K k outs ++ B /\
                (J s c k <> [] -> B = []) /\
                GS.inputs_closed_for (map to_gc A) (map to_gc E) k.
  Proof.
    intros Htop.
    destruct (compaction_shape s c outs k Hw Hv) as (A & B & Hold & Hnew & HB).
    exists A, B. split; [exact Hold|]. split; [exact Hnew|]. split; [auto|].
    intros x y Hx Hy Hkx Hky.
    apply in_map_iff in Hx. destruct Hx as (x0 & <- & Hx0).
    apply in_map_iff in Hy. destruct Hy as (y0 & <- & Hy0).
    change (G.ets (to_gc y0)) with (ets y0). change (G.ets (to_gc x0)) with (ets x0).
    change (G.ekey (to_gc y0)) with (ek y0) in Hky.
    assert (HyJ : In y0 (J s c k)).
    { rewrite <- kfilter_E. apply in_kfilter. split; [exact Hy0|exact Hky]. }
    pose proof (Ho k) as Hd. rewrite Hold in Hd. apply desc_ts_app in Hd.
    destruct Hd as (_ & _ & Hd). apply Hd; [exact Hx0|]. apply in_or_app. now left.
  Qed.

  (* 2 + Lsm: install what the collector retains (cut anywhere into non-empty files) with
     apply_compaction: every key reads as before, the views stay strictly descending, nothing
     is invented *)
  Theorem gc_installed_preserves_reads p outs k :
    GS.keeps_newest p = true -> S (cupper c) = length (ver s) ->
    flat_map fents outs = map of_gc (GS.gc_spec p 0 (map to_gc E)) ->
    forallb (fun f => match fents f with [] => false | _ => true end) outs = true ->
    hd_value (kview (compact s c outs) k) = hd_value (kview s k) /\
    desc_ts (kview (compact s c outs) k) /\
    (forall e, In e (kview (compact s c outs) k) -> In e (kview s k)).
  Proof.
    intros Hk Htop Hout Hne. apply gc_preserves_reads; try assumption.
    apply (gc_spec_outputs_ok (ver s) c outs p Hk); [apply sort_entries_ssorted|exact Hout|exact Hne].
  Qed.

  (* the same read, through Gc's own tree-level theorem: its precondition is discharged by 3. *)
  Theorem gc_tree_read_from_ordered p k (outs : list file) : GS.keeps_newest p = true -> S (cupper c) = length (ver s) ->
    exists A, GS.inputs_closed_for (map to_gc A) (map to_gc E) k /\
      GS.read (map to_gc A ++ GS.gc_spec p 0 (map to_gc E)) k = GS.read (map to_gc A ++ map to_gc E) k.
  Proof.
    intros Hk Htop. destruct (inputs_closed_from_ordered k outs Htop) as (A & B & _ & _ & _ & Hcl).
    exists A. split; [exact Hcl|].
    apply Gc.Proofs_Tree.gc_tree_read; [exact Hk|apply merged_inputs_sorted|exact Hcl].
  Qed.

  (* 4. the tree's entries after the GC, together with what the policy let go, are the tree's
     entries before (any level, not only the last: only shape + slice are used) *)
  Theorem gc_conserves_entries_up_to_dropped p outs :
    flat_map fents outs = map of_gc (GS.gc_spec p 0 (map to_gc E)) ->
    Permutation (file_entries (apply_compaction (ver s) c outs) ++ map of_gc (GS.gc_dropped p 0 (map to_gc E)))
                (file_entries (ver s)).
  Proof.
    intros Hout. unfold valid_compactionb in Hv. pose proof Hv as Hv'. rewrite !andb_true_iff in Hv'.
    destruct Hv' as [[[[[Hshape Hslice] _] _] _] _].
    pose proof (file_entries_compaction (ver s) c outs Hshape Hslice) as H. rewrite Hout in H.
    pose proof (Gc.Proofs_Walk.gc_partition p 0 (map to_gc E) merged_inputs_sorted) as Hp.
    apply (Permutation_map of_gc) in Hp. rewrite map_of_to, map_app in Hp.
    set (Sp := map of_gc (GS.gc_spec p 0 (map to_gc E))) in *.
    set (D := map of_gc (GS.gc_dropped p 0 (map to_gc E))) in *.
    set (FA := file_entries (apply_compaction (ver s) c outs)) in *.
    set (FB := file_entries (ver s)) in *.
    assert (P1 : Permutation (FA ++ input_entries (ver s) c) (FA ++ D ++ Sp)).
    { apply Permutation_app_head.
      eapply Permutation_trans; [apply sort_entries_perm|]. fold E.
      eapply Permutation_trans; [exact Hp|]. apply Permutation_app_comm. }
    apply Permutation_app_inv_r with (l := Sp). rewrite <- app_assoc.
    eapply Permutation_trans; [apply Permutation_sym; exact P1|exact H].
  Qed.
End TopLevel.
