(* Gc/Proofs_Index.v — the recursive per-key specification spec_key equals the position-by-position
   reading spec_key_idx. *)
From Coq Require Import NArith PArith Arith List Bool Lia.
From Blue Require Import Gc.Model Gc.Spec Gc.Proofs_Current.
Import ListNotations.
Open Scope N_scope.

(* is the last entry of a (processed) prefix a tombstone *)
Definition under_after (u : bool) (pre : list entry) : bool :=
  match rev pre with e :: _ => negb (is_value e) | [] => u end.

Lemma under_after_snoc u pre e : under_after u (pre ++ [e]) = negb (is_value e).
Proof. unfold under_after. now rewrite rev_app_distr. Qed.

Lemma under_after_cons u e pre : under_after u (e :: pre) = under_after (negb (is_value e)) pre.
Proof.
  unfold under_after. cbn [rev]. destruct (rev pre) as [|x l]; cbn [app]; reflexivity.
Qed.

Lemma total_weight_app pre : forall u suf,
  total_weight u (pre ++ suf) = total_weight u pre + total_weight (under_after u pre) suf.
Proof.
  induction pre as [|e pre IH]; intros u suf; cbn [app total_weight].
  - reflexivity.
  - rewrite under_after_cons. destruct (is_value e) eqn:Ev; rewrite IH; cbn [negb]; lia.
Qed.

Lemma firstn_app_exact {A} (pre suf : list A) j : firstn (length pre + j) (pre ++ suf) = pre ++ firstn j suf.
Proof. rewrite firstn_app_2. reflexivity. Qed.

Lemma nth_error_app_exact {A} (pre suf : list A) j : nth_error (pre ++ suf) (length pre + j) = nth_error suf j.
Proof. rewrite nth_error_app2 by lia. f_equal. lia. Qed.

(* the entries at positions >= |pre| that the position-wise reading keeps *)
Definition idx_from (p : policy) (now : N) (pre suf : list entry) : list entry :=
  map snd (filter (fun ie => keeps p now (pre ++ suf) (fst ie)) (combine (seq (length pre) (length suf)) suf)).

Lemma idx_from_cons p now pre e suf :
  idx_from p now pre (e :: suf) =
  (if keeps p now (pre ++ e :: suf) (length pre) then [e] else []) ++ idx_from p now (pre ++ [e]) suf.
Proof.
  unfold idx_from. cbn [length seq combine filter fst].
  rewrite <- app_assoc. cbn [app]. rewrite app_length. cbn [length].
  replace (length pre + 1)%nat with (S (length pre)) by lia.
  destruct (keeps p now (pre ++ e :: suf) (length pre)); reflexivity.
Qed.

Lemma weight_upto_at pre suf j :
  weight_upto (pre ++ suf) (length pre + j)
  = total_weight false pre + total_weight (under_after false pre) (firstn (S j) suf).
Proof.
  unfold weight_upto. replace (S (length pre + j)) with (length pre + S j)%nat by lia.
  rewrite firstn_app_exact. apply total_weight_app.
Qed.

Lemma idx_eq p now : forall n suf pre, (length suf <= n)%nat ->
  under_after false pre = false \/ (exists e l, suf = e :: l /\ is_value e = false) ->
  spec_key p now (total_weight false pre) suf = idx_from p now pre suf.
Proof.
  induction n as [|n IH]; intros suf pre Hlen HC.
  - destruct suf; [reflexivity|cbn in Hlen; lia].
  - destruct suf as [|e suf']; [reflexivity|]. cbn [length] in Hlen.
    rewrite idx_from_cons.
    pose proof (nth_error_app_exact pre (e :: suf') 0) as Hn0. rewrite Nat.add_0_r in Hn0. cbn [nth_error] in Hn0.
    pose proof (weight_upto_at pre (e :: suf') 0) as Hw0. rewrite Nat.add_0_r in Hw0.
    destruct (is_value e) eqn:Ev.
    + (* a value: the prefix does not end in a tombstone *)
      assert (Hu : under_after false pre = false).
      { destruct HC as [H|(e2 & l & E & H2)]; [exact H|]. inversion E; subst. congruence. }
      rewrite spec_key_val by exact Ev.
      unfold keeps. rewrite Hn0, Ev, Hw0, Hu. cbn [firstn total_weight]. rewrite Ev.
      replace (total_weight false pre + (1 + 0)) with (total_weight false pre + 1) by lia.
      f_equal.
      replace (total_weight false pre + 1) with (total_weight false (pre ++ [e])).
      2:{ rewrite total_weight_app, Hu. cbn [total_weight]. rewrite Ev. lia. }
      apply IH; [lia|]. left. rewrite under_after_snoc, Ev. reflexivity.
    + destruct suf' as [|e' suf''].
      * rewrite spec_key_tomb_end by exact Ev.
        unfold keeps. rewrite Hn0, Ev.
        replace (S (length pre)) with (length pre + 1)%nat by lia.
        rewrite nth_error_app_exact. cbn [nth_error]. reflexivity.
      * cbn [length] in Hlen.
        pose proof (nth_error_app_exact pre (e :: e' :: suf'') 1) as Hn1. cbn [nth_error] in Hn1.
        replace (length pre + 1)%nat with (S (length pre)) in Hn1 by lia.
        pose proof (weight_upto_at pre (e :: e' :: suf'') 1) as Hw1.
        replace (length pre + 1)%nat with (S (length pre)) in Hw1 by lia.
        destruct (is_value e') eqn:Ev'.
        -- (* tombstone directly above a value: a group of weight 2, kept or dropped whole *)
           rewrite spec_key_tomb_val by assumption.
           assert (Hw : weight_upto (pre ++ e :: e' :: suf'') (S (length pre)) = total_weight false pre + 2).
           { rewrite Hw1. cbn [firstn total_weight]. rewrite Ev, Ev'.
             destruct (under_after false pre); lia. }
           unfold keeps at 1. rewrite Hn0, Ev, Hn1, Ev', Hw. cbn [andb].
           rewrite idx_from_cons.
           assert (Hk2 : keeps p now ((pre ++ [e]) ++ e' :: suf'') (length (pre ++ [e]))
                         = sat p now (total_weight false pre + 2) (ets e')).
           { rewrite <- app_assoc. cbn [app]. rewrite app_length. cbn [length].
             replace (length pre + 1)%nat with (S (length pre)) by lia.
             unfold keeps. rewrite Hn1, Ev', Hw. reflexivity. }
           rewrite Hk2.
           replace (total_weight false pre + 2) with (total_weight false ((pre ++ [e]) ++ [e'])).
           2:{ rewrite !total_weight_app, under_after_snoc, Ev. cbn [total_weight negb]. rewrite Ev, Ev'.
               destruct (under_after false pre); lia. }
           rewrite (IH suf'' ((pre ++ [e]) ++ [e'])); [|lia|left; now rewrite under_after_snoc, Ev'].
           destruct (sat p now (total_weight false ((pre ++ [e]) ++ [e'])) (ets e')); reflexivity.
        -- (* tombstone above a tombstone: dropped *)
           rewrite spec_key_tomb_tomb by assumption.
           unfold keeps at 1. rewrite Hn0, Ev, Hn1, Ev'. cbn [andb app].
           replace (total_weight false pre) with (total_weight false (pre ++ [e])).
           2:{ rewrite total_weight_app. cbn [total_weight]. rewrite Ev. lia. }
           apply IH; [cbn [length]; lia|]. right. exists e', suf''. auto.
Qed.

(* the two readings of the per-key specification coincide *)
Theorem spec_key_idx_eq p now vs : spec_key p now 0 vs = spec_key_idx p now vs.
Proof.
  change 0 with (total_weight false []).
  rewrite (idx_eq p now (length vs) vs []); [reflexivity|lia|left; reflexivity].
Qed.
