(* Gc/Proofs_Weak.v — inputs that are only weakly sorted (several entries may share a key and a
   timestamp, e.g. after ingesting foreign SSTs): the collector still equals the specification
   and the lock-step walk still never reports `gc iterator out of sync`. *)
From Coq Require Import NArith PArith List Bool Lia Permutation.
From Blue Require Import Gc.Model Gc.Spec Gc.Proofs_Key Gc.Proofs_Det Gc.Proofs_Collect Gc.Proofs_Walk.
Import ListNotations.
Open Scope N_scope.

Lemma keyref_cmp_le_trans a b c :
  keyref_cmp a b <> Gt -> keyref_cmp b c <> Gt -> keyref_cmp a c <> Gt.
Proof.
  intros H1 H2. destruct (keyref_cmp a b) eqn:E1; [| |congruence].
  - apply keyref_cmp_eq in E1. now subst.
  - destruct (keyref_cmp b c) eqn:E2; [| |congruence].
    + apply keyref_cmp_eq in E2. subst. now rewrite E1.
    + now rewrite (keyref_cmp_lt_trans _ _ _ E1 E2).
Qed.

Lemma wsorted_tail e es : wsorted (e :: es) -> wsorted es.
Proof. cbn [wsorted]. tauto. Qed.

Lemma wsorted_le_all es : forall e, wsorted (e :: es) ->
  forall y, In y es -> keyref_cmp (kr e) (kr y) <> Gt.
Proof.
  induction es as [|e' es IH]; intros e Hs y Hy; [contradiction|].
  destruct Hs as [Hs' Hle]. destruct Hy as [<-|Hy]; [exact Hle|].
  eapply keyref_cmp_le_trans; [exact Hle|]. apply IH; assumption.
Qed.

Lemma sorted_wsorted es : sorted es -> wsorted es.
Proof.
  induction es as [|e es IH]; intros Hs; [exact I|]. destruct Hs as [Hs' Hlt].
  split; [auto|]. destruct es; [exact I|]. now rewrite Hlt.
Qed.

Lemma keyref_le_key_le a b : keyref_cmp a b <> Gt -> lex_cmp (fst a) (fst b) <> Gt.
Proof. unfold keyref_cmp. destruct (lex_cmp (fst a) (fst b)); congruence. Qed.

Lemma wsorted_contiguous es : wsorted es -> contiguous es.
Proof.
  induction es as [|e es IH]; intros Hs; [exact I|]. cbn [contiguous].
  split; [apply IH; eapply wsorted_tail; eauto|].
  destruct es as [|e' es']; [exact I|].
  destruct (key_eq_dec (ekey e') (ekey e)) as [E|Hne]; [left; exact E|right].
  intros Hin. apply in_map_iff in Hin. destruct Hin as (y & Hy1 & Hy2).
  assert (H1 : keyref_cmp (kr e) (kr e') <> Gt) by (destruct Hs as [_ H]; exact H).
  pose proof (keyref_le_key_le _ _ H1) as Hle1. cbn [kr fst] in Hle1.
  assert (Hle2 : lex_cmp (ekey e') (ekey y) <> Gt).
  { destruct Hy2 as [<-|Hy2]; [rewrite lex_cmp_refl; discriminate|].
    apply (keyref_le_key_le (kr e') (kr y)).
    eapply wsorted_le_all; [eapply wsorted_tail; eauto|exact Hy2]. }
  rewrite Hy1 in Hle2. rewrite (lex_cmp_antisym (ekey e) (ekey e')) in Hle2.
  destruct (lex_cmp (ekey e) (ekey e')) eqn:E; cbn in Hle2; try congruence.
  apply lex_cmp_eq in E. congruence.
Qed.

(* the walk is leftmost-greedy, so against any sub-sequence of a weakly sorted input the
   collector's next key is never behind the main cursor *)
Lemma walk_list_no_oos {A} (add : A -> entry -> A) es : forall sub out acc,
  sublist sub es -> wsorted es -> walk_list add es (map kr sub) out acc <> WOutOfSync.
Proof.
  induction es as [|x es IH]; intros sub out acc Hsl Hs; cbn [walk_list]; [discriminate|].
  destruct sub as [|r sub']; cbn [map].
  - apply (IH []); [constructor|eapply wsorted_tail; eauto].
  - assert (Hin : In r (x :: es)) by (eapply sublist_in; [exact Hsl|now left]).
    assert (Hle : keyref_cmp (kr x) (kr r) <> Gt).
    { destruct Hin as [<-|Hin]; [rewrite keyref_cmp_refl; discriminate|].
      eapply wsorted_le_all; eauto. }
    destruct (keyref_cmp (kr r) (kr x)) eqn:C.
    + apply (IH sub'); [|eapply wsorted_tail; eauto].
      inversion Hsl; subst; [assumption|]. eapply sublist_cons_l; eauto.
    + exfalso. apply Hle. now apply keyref_cmp_gt_lt.
    + change (kr r :: map kr sub') with (map kr (r :: sub')).
      apply (IH (r :: sub')); [|eapply wsorted_tail; eauto].
      inversion Hsl; subst; [|assumption].
      rewrite keyref_cmp_refl in C. discriminate.
Qed.

Theorem gc_walk_no_oos_weak {A} (add : A -> entry -> A) acc0 p es : wsorted es ->
  gc_walk add acc0 p es <> WOutOfSync.
Proof.
  intros Hs. pose proof (wsorted_contiguous es Hs) as Hc.
  rewrite gc_walk_walk_list, drain_g_collector_new by exact Hc.
  apply walk_list_no_oos; [|exact Hs].
  apply (gc_spec_sublist p 0 (length es)); auto.
Qed.

Theorem collect_eq_spec_weak p now es : wsorted es ->
  collect p es now = Some (map kr (gc_spec p now es)).
Proof. intros Hs. apply collect_eq_spec, wsorted_contiguous, Hs. Qed.

(* ---- what the walk guarantees when (key, timestamp) pairs repeat ---- *)
Lemma sublist_nil_r {A} (a : list A) : sublist a [] -> a = [].
Proof. inversion 1; reflexivity. Qed.

(* against any sub-sequence of a weakly sorted input the walk writes, for each KeyRef of the
   sub-sequence in turn, the LEFTMOST input entry not yet passed that carries this KeyRef, and hands
   every other entry to the accumulator: the KeyRefs written are the KeyRefs retained, nothing is
   lost or invented — but WHICH of several entries with equal key and timestamp is written is
   decided by position, not by the collector *)
Lemma walk_list_weak {A} (add : A -> entry -> A) es : forall sub out acc,
  sublist sub es -> wsorted es ->
  exists written dropped,
    walk_list add es (map kr sub) out acc = WOk (out ++ written) (fold_left add dropped acc) /\
    map kr written = map kr sub /\ sublist written es /\ Permutation es (written ++ dropped).
Proof.
  induction es as [|x es IH]; intros sub out acc Hsl Hs.
  - apply sublist_nil_r in Hsl. subst. exists [], []. cbn. rewrite app_nil_r.
    repeat split; constructor.
  - destruct sub as [|r sub'].
    + exists [], (x :: es). cbn [map]. rewrite walk_list_nil, app_nil_r.
      repeat split; [constructor|reflexivity].
    + cbn [map walk_list].
      assert (Hin : In r (x :: es)) by (eapply sublist_in; [exact Hsl|now left]).
      assert (Hle : keyref_cmp (kr x) (kr r) <> Gt).
      { destruct Hin as [<-|Hin]; [rewrite keyref_cmp_refl; discriminate|].
        eapply wsorted_le_all; eauto. }
      destruct (keyref_cmp (kr r) (kr x)) eqn:C.
      * assert (Hsl' : sublist sub' es).
        { inversion Hsl; subst; [assumption|]. eapply sublist_cons_l; eauto. }
        destruct (IH sub' (out ++ [x]) acc Hsl' (wsorted_tail _ _ Hs)) as (w & d & Hw & Hk & Hsw & Hp).
        exists (x :: w), d. rewrite Hw, <- app_assoc. cbn [app map].
        repeat split.
        -- f_equal; [symmetry; now apply keyref_cmp_eq|exact Hk].
        -- now constructor.
        -- now constructor.
      * exfalso. apply Hle. now apply keyref_cmp_gt_lt.
      * assert (Hsl' : sublist (r :: sub') es).
        { inversion Hsl; subst; [|assumption]. rewrite keyref_cmp_refl in C. discriminate. }
        destruct (IH (r :: sub') out (add acc x) Hsl' (wsorted_tail _ _ Hs)) as (w & d & Hw & Hk & Hsw & Hp).
        exists w, (x :: d). cbn [map] in Hw. rewrite Hw. cbn [fold_left].
        repeat split; [exact Hk|now constructor|now apply Permutation_cons_app].
Qed.

Theorem gc_walk_weak {A} (add : A -> entry -> A) acc0 p es : wsorted es ->
  exists written dropped,
    gc_walk add acc0 p es = WOk written (fold_left add dropped acc0) /\
    map kr written = map kr (gc_spec p 0 es) /\ sublist written es /\
    Permutation es (written ++ dropped).
Proof.
  intros Hs. pose proof (wsorted_contiguous es Hs) as Hc.
  rewrite gc_walk_walk_list, drain_g_collector_new by exact Hc.
  destruct (walk_list_weak add es (gc_spec p 0 es) [] acc0) as (w & d & Hw & H);
    [apply (gc_spec_sublist p 0 (length es)); auto|exact Hs|].
  exists w, d. split; [exact Hw|exact H].
Qed.

(* a weakly sorted input without two adjacent entries of equal key and timestamp is strictly sorted *)
Definition duplicate_pairs (es : list entry) : Prop :=
  exists l1 a b l2, es = l1 ++ a :: b :: l2 /\ kr a = kr b.

Lemma wsorted_no_dup_sorted es : wsorted es -> ~ duplicate_pairs es -> sorted es.
Proof.
  induction es as [|e es IH]; intros Hs Hnd; [exact I|]. cbn [sorted].
  split.
  - apply IH; [eapply wsorted_tail; eauto|].
    intros (l1 & a & b & l2 & -> & Hk). apply Hnd. exists (e :: l1), a, b, l2. auto.
  - destruct es as [|e' es']; [exact I|]. destruct Hs as [_ Hle].
    destruct (keyref_cmp (kr e) (kr e')) eqn:C; [|reflexivity|congruence].
    exfalso. apply Hnd. exists [], e, e', es'. split; [reflexivity|now apply keyref_cmp_eq].
Qed.
