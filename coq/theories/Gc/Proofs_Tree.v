(* Gc/Proofs_Tree.v — from "first in the sorted input" to "largest timestamp in the tree":
   what a point read finds before and after a garbage collection, with the rest of the tree
   around the compaction's inputs. *)
From Coq Require Import NArith PArith List Bool Lia.
From Blue Require Import Gc.Model Gc.Spec Gc.Proofs_Key Gc.Proofs_Det Gc.Proofs_Collect Gc.Proofs_Walk
  Gc.Proofs_Current.
Import ListNotations.
Open Scope N_scope.

Lemma newest_app_none k a b : newest k a = None -> newest k (a ++ b) = newest k b.
Proof.
  induction a as [|e a IH]; cbn [app newest]; [reflexivity|].
  destruct (key_eqb (ekey e) k); [destruct (newest k a); [destruct (ets e <? ets e0)|]; discriminate|exact IH].
Qed.

Lemma newest_none_iff k l : newest k l = None <-> kfilter k l = [].
Proof.
  induction l as [|e l IH]; cbn [newest kfilter filter]; [tauto|]. fold (kfilter k l).
  destruct (key_eqb (ekey e) k).
  - split; [|discriminate]. destruct (newest k l); [destruct (ets e <? ets e0)|]; discriminate.
  - exact IH.
Qed.

Lemma newest_in k l e : newest k l = Some e -> In e l /\ ekey e = k.
Proof.
  revert e. induction l as [|x l IH]; intros e; cbn [newest]; [discriminate|].
  destruct (key_eqb (ekey x) k) eqn:E.
  - destruct (newest k l) as [e'|] eqn:N.
    + destruct (ets x <? ets e').
      * intros H; inversion H; subst. destruct (IH e eq_refl). split; [now right|assumption].
      * intros H; inversion H; subst. split; [now left|now apply key_eqb_eq].
    + intros H; inversion H; subst. split; [now left|now apply key_eqb_eq].
  - intros H. destruct (IH e H). split; [now right|assumption].
Qed.

(* the timestamp of newest bounds every timestamp of the key *)
Lemma newest_max k l : forall e, newest k l = Some e ->
  forall x, In x l -> key_eqb (ekey x) k = true -> ets x <= ets e.
Proof.
  induction l as [|y l IH]; intros e H x Hx Hk; [contradiction|].
  cbn [newest] in H. destruct (key_eqb (ekey y) k) eqn:E.
  - destruct (newest k l) as [e'|] eqn:N.
    + destruct (ets y <? ets e') eqn:Lt; injection H as <-.
      * apply N.ltb_lt in Lt. destruct Hx as [<-|Hx]; [lia|]. eapply IH; eauto.
      * apply N.ltb_ge in Lt. destruct Hx as [<-|Hx]; [lia|].
        specialize (IH e' eq_refl x Hx Hk). lia.
    + injection H as <-. destruct Hx as [<-|Hx]; [lia|].
      exfalso. apply newest_none_iff in N. unfold kfilter in N.
      assert (Hin : In x (filter (fun e0 => key_eqb (ekey e0) k) l))
        by (apply filter_In; split; [exact Hx|exact Hk]).
      rewrite N in Hin. contradiction.
  - destruct Hx as [<-|Hx]; [congruence|]. eapply IH; eauto.
Qed.

(* entries of key k in [a] all newer than those in [b]: the read is decided inside [a] *)
Lemma newest_app_newer k a b :
  newest k a <> None ->
  (forall x y, In x a -> In y b -> ekey x = k -> ekey y = k -> ets y < ets x) ->
  newest k (a ++ b) = newest k a.
Proof.
  induction a as [|e a IH]; intros Hne Hnew; [contradiction|]. cbn [app newest] in *.
  destruct (key_eqb (ekey e) k) eqn:E.
  - destruct (newest k a) as [e'|] eqn:N.
    + rewrite IH; [reflexivity|discriminate|]. intros x y Hx Hy. apply Hnew; [now right|exact Hy].
    + rewrite newest_app_none by exact N.
      destruct (newest k b) as [y|] eqn:Nb; [|reflexivity].
      destruct (newest_in k b y Nb) as [Hy Hyk].
      assert (ets y < ets e) by (apply Hnew; auto; [now left|now apply key_eqb_eq]).
      assert (Hlt : ets e <? ets y = false) by (apply N.ltb_ge; lia). now rewrite Hlt.
  - apply IH; [exact Hne|]. intros x y Hx Hy. apply Hnew; [now right|exact Hy].
Qed.

(* in a strictly sorted input the first entry of a key is its newest *)
Lemma sorted_filter f es : sorted es -> sorted (filter f es).
Proof.
  induction es as [|e es IH]; intros Hs; [exact I|]. cbn [filter].
  pose proof (sorted_tail _ _ Hs) as Hs'. specialize (IH Hs').
  destruct (f e); [|exact IH]. cbn [sorted]. split; [exact IH|].
  destruct (filter f es) as [|y l] eqn:F; [exact I|].
  apply (sorted_lt_all es e Hs). assert (In y (filter f es)) by (rewrite F; now left).
  now apply filter_In in H.
Qed.

Lemma newest_sorted_hd k vs : sorted vs -> Forall (fun e => ekey e = k) vs ->
  newest k vs = hd_error vs.
Proof.
  induction vs as [|e vs IH]; intros Hs Hall; [reflexivity|].
  pose proof (Forall_inv Hall) as He. pose proof (Forall_inv_tail Hall) as Hall'. cbn beta in He.
  cbn [newest hd_error]. rewrite He, key_eqb_refl.
  rewrite IH by (eauto using sorted_tail).
  destruct vs as [|e' vs']; [reflexivity|]. cbn [hd_error].
  pose proof (Forall_inv Hall') as He'. cbn beta in He'.
  destruct Hs as [_ Hlt]. unfold keyref_cmp, kr in Hlt; cbn [fst snd] in Hlt.
  rewrite He, He', lex_cmp_refl in Hlt.
  destruct (N.compare (ets e) (ets e')) eqn:C; cbn [CompOpp] in Hlt; try discriminate.
  apply N.compare_gt_iff in C.
  assert (L : ets e <? ets e' = false) by (apply N.ltb_ge; lia). now rewrite L.
Qed.

Lemma newest_kfilter k l : newest k l = newest k (kfilter k l).
Proof.
  induction l as [|e l IH]; [reflexivity|]. cbn [newest kfilter filter]. fold (kfilter k l).
  destruct (key_eqb (ekey e) k) eqn:E; [|exact IH]. cbn [newest]. rewrite E, IH. reflexivity.
Qed.

Lemma read_sorted_visible es k : sorted es -> read es k = visible es k.
Proof.
  intros Hs. unfold read, visible. rewrite newest_kfilter.
  rewrite (newest_sorted_hd k (kfilter k es)); [|now apply sorted_filter|apply kfilter_all].
  destruct (kfilter k es); reflexivity.
Qed.

Lemma sublist_sorted sub es : sublist sub es -> sorted es -> sorted sub.
Proof.
  induction 1 as [l|x l1 l2 Hsl IH|x l1 l2 Hsl IH]; intros Hs; [exact I| |].
  - cbn [sorted]. split; [apply IH; eapply sorted_tail; eauto|].
    destruct l1 as [|y l1']; [exact I|]. apply (sorted_lt_all l2 x Hs).
    eapply sublist_in; [exact Hsl|now left].
  - apply IH. eapply sorted_tail; eauto.
Qed.

(* the whole tree: [rest] = the entries of all files outside the compaction, es = the merged
   inputs.  If, key by key, whatever lies outside the inputs is newer than what lies inside
   (the last level has nothing below it and the inputs are closed under overlap — the tree-shape
   invariant of area Lsm), a point read by timestamp returns the same before and after the GC. *)
Theorem gc_tree_read p rest es k : keeps_newest p = true -> sorted es ->
  (forall x y, In x rest -> In y es -> ekey x = k -> ekey y = k -> ets y < ets x) ->
  read (rest ++ gc_spec p 0 es) k = read (rest ++ es) k.
Proof.
  intros Hk Hs Hnew. unfold read.
  assert (Hsub : sublist (gc_spec p 0 es) es)
    by (apply (gc_spec_sublist p 0 (length es)); auto; now apply sorted_contiguous).
  destruct (newest k rest) as [r|] eqn:Nr.
  - rewrite !newest_app_newer; try (rewrite Nr; discriminate); try reflexivity; [exact Hnew|].
    intros x y Hx Hy. apply Hnew; [exact Hx|]. eapply sublist_in; eauto.
  - rewrite !newest_app_none by exact Nr.
    fold (read (gc_spec p 0 es) k). fold (read es k).
    rewrite !read_sorted_visible; [now apply gc_spec_visible|exact Hs|].
    eapply sublist_sorted; eauto.
Qed.
