(* SkipList/ProofsLife.v — an iterator remains valid for as long as it is held (repaired code);
   the code before the fix did not have this property. *)
From Coq Require Import List Bool Arith Lia.
From Blue Require Import SkipList.Model SkipList.ModelLife SkipList.ProofsBase.
Import ListNotations.

(* freed only when nobody holds the body *)
Definition life_inv (s : lifest) : Prop := freed s = true -> holders s = 0.

Lemma filter_app_true : forall l, length (filter (fun b : bool => b) (l ++ [true])) = S (length (filter (fun b : bool => b) l)).
Proof. intros. rewrite filter_app, app_length. cbn. lia. Qed.

Lemma filter_nth_pos : forall l j, nth j l false = true -> 1 <= length (filter (fun b : bool => b) l).
Proof.
  induction l as [|a l IH]; intros [|j] H; cbn in *; try discriminate.
  - subst. cbn. lia.
  - destruct a; cbn; [lia|]. eapply IH; eauto.
Qed.

Lemma release_inv : forall s, (freed s = true -> holders s = 0) -> life_inv (release s).
Proof.
  intros s H. unfold release. destruct (Nat.eqb_spec (holders s) 0) as [E|Ne]; unfold life_inv; cbn; auto.
Qed.

Lemma life_step_inv : forall s o s' out, life_inv s -> life_step s o = (s', out) -> life_inv s' /\ out <> LUaf.
Proof.
  intros s o s' out I H. unfold life_inv in I. destruct o; cbn in H.
  - destruct (list_alive s) eqn:A; inversion H; subst; [|split; auto; discriminate].
    assert (F : freed s = false).
    { destruct (freed s) eqn:F; auto. specialize (I eq_refl). unfold holders in I. rewrite A in I. lia. }
    split; [|unfold touch; rewrite F; discriminate].
    unfold life_inv. cbn. rewrite F. discriminate.
  - destruct (nth j (iters s) false) eqn:A; inversion H; subst; [|split; auto; discriminate].
    assert (F : freed s = false).
    { destruct (freed s) eqn:F; auto. specialize (I eq_refl). unfold holders in I.
      pose proof (filter_nth_pos _ _ A). lia. }
    split; [|unfold touch; rewrite F; discriminate].
    unfold life_inv. cbn. rewrite F. discriminate.
  - destruct (list_alive s) eqn:A; inversion H; subst; [|split; auto; discriminate].
    split; [|discriminate]. apply release_inv. cbn. intro F. specialize (I F).
    unfold holders in *. rewrite A in I. lia.
  - destruct (nth j (iters s) false) eqn:A; inversion H; subst; [|split; auto; discriminate].
    split; [|discriminate]. apply release_inv. cbn. intro F. specialize (I F).
    unfold holders in I. pose proof (filter_nth_pos _ _ A). lia.
  - destruct (list_alive s) eqn:A; inversion H; subst; [|split; auto; discriminate].
    split; auto. unfold touch. destruct (freed s') eqn:F; [|discriminate].
    specialize (I eq_refl). unfold holders in I. rewrite A in I. lia.
  - destruct (nth j (iters s) false) eqn:A; inversion H; subst; [|split; auto; discriminate].
    split; auto. unfold touch. destruct (freed s') eqn:F; [|discriminate].
    specialize (I eq_refl). unfold holders in I. pose proof (filter_nth_pos _ _ A). lia.
Qed.

Theorem life_no_uaf : forall ops s, life_inv s -> ~ In LUaf (life_run life_step s ops).
Proof.
  induction ops as [|o r IH]; intros s I; cbn; auto.
  destruct (life_step s o) as [s' out] eqn:H. destruct (life_step_inv s o s' out I H) as [I' Ho].
  cbn. intros [E|E]; [congruence|]. eapply IH; eauto.
Qed.

Lemma life_init_inv : life_inv life_init.
Proof. unfold life_inv. cbn. discriminate. Qed.

(* F4: before the fix, an iterator held across the drop of its list touched freed nodes *)
Theorem old_life_uaf : In LUaf (life_run old_step life_init [LfIter; LfDropList; LfUse 0]).
Proof. vm_compute. auto. Qed.
