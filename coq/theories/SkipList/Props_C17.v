(* Props_C17.v — the property theorems for C17 and nothing else.
   C17: "The lock-free skiplist loses no insert and always iterates in order" (and the same for
   the prepend-only list; and "an iterator remains valid for as long as it is held").

   Setting (SkipList/Model.v): `maxh` is the const generic MAX_HEIGHT; `progs` gives every thread
   a list of operations (ANY number of threads, any mix of insert, contains, seek, seek_to_first,
   seek_to_last, next, prev; the height of each inserted node is an input);
   `run maxh sched (init maxh progs)` is the state after the schedule `sched` — ANY list of thread
   numbers, i.e. any interleaving at the granularity of the individual get_next / set_next /
   cas_next / allocation steps.  Sequential consistency of these steps is ASSUMED (the Rust uses
   Release stores, Acquire loads, SeqCst compare-exchange).
   Hypotheses of every skiplist theorem: 1 <= maxh; every insert's height is in 1..maxh
   (`progs_ok`, which is what random_height guarantees); the inserted keys are pairwise distinct
   (`NoDup (all_ins_keys progs)`: the property quantifies over distinct keys).
   `keys0 m` is the abstract content: the keys of the nodes published at level 0.
   `outs th` is the record of the operations thread `th` has completed, with their results.
   `reach maxh progs s` := exists sched, s = run maxh sched (init maxh progs). *)
From Coq Require Import NArith ZArith List Bool Arith Lia Permutation Sorted.
From Blue Require Import Gen.Const_SkipList SkipList.Model SkipList.ModelList SkipList.ModelOwn.
From Blue Require Import SkipList.ProofsBase SkipList.ProofsInv SkipList.ProofsStep SkipList.ProofsGlobal.
From Blue Require Import SkipList.ProofsSpec SkipList.ProofsHist SkipList.ProofsMain SkipList.ProofsList.
From Blue Require Import SkipList.ProofsOwn SkipList.ProofsGhost.
Import ListNotations.

(* every insert that has returned (by state s1) is found by every search that completes later *)
Theorem C17_insert_not_lost : forall maxh, 1 <= maxh -> forall progs, progs_ok maxh progs -> NoDup (all_ins_keys progs) -> forall s1 sched t1 th1 k t tha thb rs b, reach maxh progs s1 -> nth_error (sthreads s1) t1 = Some th1 -> In (RIns k) (outs th1) -> nth_error (sthreads s1) t = Some tha -> nth_error (sthreads (run maxh sched s1)) t = Some thb -> outs thb = outs tha ++ rs -> In (RContains k b) rs -> b = true.
Proof. exact insert_not_lost_contains. Qed.

(* a full iteration (seek_to_first, then next, next, ...) completed after s1 yields strictly
   increasing keys, each once, all of them keys of the list; and if it ran to the end, every key
   that was in the list at s1 — in particular every key whose insert had returned by s1 — is
   among them *)
Theorem C17_iteration_sorted_once : forall maxh, 1 <= maxh -> forall progs, progs_ok maxh progs -> NoDup (all_ins_keys progs) -> forall s1 sched t tha thb y0 rs, reach maxh progs s1 -> nth_error (sthreads s1) t = Some tha -> nth_error (sthreads (run maxh sched s1)) t = Some thb -> outs thb = outs tha ++ RFirst y0 :: rs -> Forall is_next rs -> let ys := somes (y0 :: map res_key rs) in StronglySorted N.lt ys /\ NoDup ys /\ (forall y, In y ys -> In y (keys0 (smem (run maxh sched s1)))) /\ (last (y0 :: map res_key rs) None = None -> (forall k, In k (keys0 (smem s1)) -> In k ys) /\ (forall t1 th1 k, nth_error (sthreads s1) t1 = Some th1 -> In (RIns k) (outs th1) -> In k ys)).
Proof. exact iteration_sorted_once_ins. Qed.

(* the invariants, for every schedule: every level chain is strictly sorted and contains every
   node published at that level (chain_ok); level l+1 is a sub-chain of level l; what every
   in-flight operation remembers is valid (thread_inv; its pc_inv is I2/I3 of DESIGN.md 9a);
   inv2 bundles these with key distinctness, node ownership and iterator-position consistency *)
Theorem C17_invariants : forall maxh, 1 <= maxh -> forall progs, progs_ok maxh progs -> NoDup (all_ins_keys progs) -> forall s, reach maxh progs s -> inv2 maxh (all_ins_keys progs) s /\ chain_ok (smem s) /\ (forall n l, linked (smem s) n (S l) -> linked (smem s) n l) /\ (forall t th, nth_error (sthreads s) t = Some th -> thread_inv maxh (smem s) th).
Proof. exact invariants_all. Qed.

(* no assertion of the library fails and no null / dangling pointer is followed *)
Theorem C17_no_panic : forall maxh, 1 <= maxh -> forall progs, progs_ok maxh progs -> NoDup (all_ins_keys progs) -> forall s t th, reach maxh progs s -> nth_error (sthreads s) t = Some th -> tpc th <> PPanic /\ ~ In RPanic (outs th).
Proof. exact no_panic. Qed.

(* linearisability, step by step: whenever a step completes an operation, the recorded result is
   the result of the atomic operation on the abstract key set at that very step (res_ok:
   contains = membership; seek = least key >=; first = least; next = least key > the position;
   prev = greatest key < the position; prev from the end = greatest; insert = the key is in) *)
Theorem C17_step_linearizable : forall maxh, 1 <= maxh -> forall progs, progs_ok maxh progs -> NoDup (all_ins_keys progs) -> forall s t s' e, reach maxh progs s -> step maxh t s = Some (s', e) -> exists th th', nth_error (sthreads s) t = Some th /\ nth_error (sthreads s') t = Some th' /\ (outs th' = outs th \/ exists r, outs th' = outs th ++ [r] /\ res_ok (keys0 (smem s)) (keys0 (smem s')) r).
Proof. exact step_linearizable. Qed.

(* seek, next and prev move to the nearest existing key in their direction: the results rs that a
   thread records after ANY reachable state s1 each satisfy their specification (res_ok) for a
   key set that contains everything that was in the list at s1 and is contained in the present
   one (hist (keys0 s1) rs (keys0 s2): the moments are in the order of the records, the key sets
   only grow — so a stale answer computed from an older, smaller key set does not meet it), and
   every next/prev started from where the previous iterator operation of that thread left the
   iterator (froms_ok).  With s1 the initial state this speaks about everything ever recorded. *)
Theorem C17_seek_next_prev_nearest : forall maxh, 1 <= maxh -> forall progs, progs_ok maxh progs -> NoDup (all_ins_keys progs) -> forall s1 sched t th1, reach maxh progs s1 -> nth_error (sthreads s1) t = Some th1 -> exists th2 rs, nth_error (sthreads (run maxh sched s1)) t = Some th2 /\ outs th2 = outs th1 ++ rs /\ hist (keys0 (smem s1)) rs (keys0 (smem (run maxh sched s1))) /\ froms_ok (last_ipos (outs th1) AtEnd) rs.
Proof. exact results_between. Qed.

(* a full backward iteration (seek_to_last, then prev, prev, ...) completed after s1 yields strictly
   decreasing keys, each once, all of them keys of the list; and if it ran to the front, every key
   that was in the list at s1 — in particular every key whose insert had returned by s1 — is
   among them *)
Theorem C17_backward_iteration_sorted_once : forall maxh, 1 <= maxh -> forall progs, progs_ok maxh progs -> NoDup (all_ins_keys progs) -> forall s1 sched t tha thb f y0 rs, reach maxh progs s1 -> nth_error (sthreads s1) t = Some tha -> nth_error (sthreads (run maxh sched s1)) t = Some thb -> outs thb = outs tha ++ RLast :: RPrev f y0 :: rs -> Forall is_prev rs -> let ys := somes (y0 :: map res_key rs) in StronglySorted N_gt ys /\ NoDup ys /\ (forall y, In y ys -> In y (keys0 (smem (run maxh sched s1)))) /\ (last (y0 :: map res_key rs) None = None -> (forall k, In k (keys0 (smem s1)) -> In k ys) /\ (forall t1 th1 k, nth_error (sthreads s1) t1 = Some th1 -> In (RIns k) (outs th1) -> In k ys)).
Proof. exact backward_iteration_sorted_once. Qed.

(* the key set only grows, and contains only keys that some insert operation inserted *)
Theorem C17_keys_grow_only_inserted : forall maxh, 1 <= maxh -> forall progs, progs_ok maxh progs -> NoDup (all_ins_keys progs) -> forall s sched, reach maxh progs s -> incl (keys0 (smem s)) (keys0 (smem (run maxh sched s))) /\ (forall k, In k (keys0 (smem s)) -> In k (all_ins_keys progs)) /\ (forall t th k, nth_error (sthreads s) t = Some th -> In (RIns k) (outs th) -> In k (keys0 (smem s))).
Proof.
  intros maxh Hm progs Hp Hk s sched R.
  exact (conj (keys_grow maxh Hm progs Hp Hk s sched R)
        (conj (fun k => keys_inserted maxh Hm progs Hp Hk s k R)
              (fun t th k H => insert_in_keys maxh Hm progs Hp Hk s t th k R H))).
Qed.

(* the ghost counter nlnk (used only to state the invariants) is never read: memories that differ
   only in it (same = equal after erasing it) make every thread take the same step with the same
   event and thread state, and stay equal after erasure *)
Theorem C17_ghost_field_never_read : forall maxh m1 m2 th, same m1 m2 -> rel_step (thread_step maxh m1 th) (thread_step maxh m2 th).
Proof. exact thread_step_ghost_free. Qed.

(* ------------------------------------------------------------------ the prepend-only list *)
(* invariants for every schedule of any number of prepending and iterating threads: the chain from
   the head visits exactly the published nodes, newest first, each once (linv) *)
Theorem C17_list_invariants : forall progs sched, linv (lall_data progs) (lrun sched (linit progs)).
Proof. intros. apply lrun_inv. apply linit_inv. Qed.

(* the content only grows at the front; every prepend that has returned is in it; with distinct
   data every element is in it exactly once *)
Theorem C17_list_prepend_not_lost : forall progs sched1 sched2, let s1 := lrun sched1 (linit progs) in let s2 := lrun sched2 s1 in suffix (lcontent s1) (lcontent s2) /\ (forall t th d, nth_error (lthreads s1) t = Some th -> In (LRPrepended d) (louts th) -> In d (lcontent s1) /\ In d (lcontent s2)) /\ (NoDup (lall_data progs) -> NoDup (lcontent s2)).
Proof.
  intros progs sched1 sched2 s1 s2.
  pose proof (C17_list_invariants progs sched1) as I1. fold s1 in I1.
  assert (I2 : linv (lall_data progs) s2) by (apply lrun_inv; exact I1).
  pose proof (lrun_content (lall_data progs) sched2 s1 I1) as S. fold s2 in S.
  split; auto. split.
  - intros t th d H Hd. pose proof (lt_outs _ _ _ (li_threads _ _ I1 t th H) d Hd) as Hin.
    split; auto. eapply suffix_in; eauto.
  - intro ND. apply (lcontent_nodup (lall_data progs)); auto.
Qed.

(* every iteration that starts after s1 yields the content of the list at a moment between s1 and
   its end: a list that extends the content at s1 at the front and is a suffix of the final
   content — so every element prepended by s1 appears in it, newest first, and (distinct data)
   exactly once *)
Theorem C17_list_iteration_newest_first : forall progs sched1 sched2 t th1, let s1 := lrun sched1 (linit progs) in let s2 := lrun sched2 s1 in nth_error (lthreads s1) t = Some th1 -> (forall n a snap, ltpc th1 <> LIterStep n a snap) -> exists th2 rs, nth_error (lthreads s2) t = Some th2 /\ louts th2 = louts th1 ++ rs /\ forall l, In (LRList l) rs -> suffix (lcontent s1) l /\ suffix l (lcontent s2) /\ (NoDup (lall_data progs) -> NoDup l).
Proof.
  intros progs sched1 sched2 t th1 s1 s2 H Hpc.
  pose proof (C17_list_invariants progs sched1) as I1. fold s1 in I1.
  destruct (list_results_between (lall_data progs) sched2 s1 (lcontent s1) t th1 (louts th1) I1
              (suffix_refl _ _) H) as [th2 [rs [A [B C]]]].
  - intros n a snap E. exfalso. exact (Hpc n a snap E).
  - exists []. rewrite app_nil_r. split; auto. intros l [].
  - exists th2, rs. split; auto. split; auto. intros l Hl. destruct (C l Hl) as [C1 C2].
    split; auto. split; auto. intro ND. eapply suffix_nodup; eauto.
    apply (lcontent_nodup (lall_data progs)); auto. apply lrun_inv. exact I1.
Qed.

(* ------------------------------------------------------------------ iterator lifetime *)
(* ModelOwn.v puts the ownership of the repaired code on top of the small-step model: every thread
   holds a handle on the body (its share of the list, its iterator, or a clone of an iterator);
   schedules interleave the atomic steps of the operations with handle drops (between operations)
   and iterator clones; the nodes are freed when the LAST handle goes; a step taken while the nodes
   are freed is OUaf.  For every such schedule: no step of a thread that still holds a handle
   touches freed nodes, nothing panics, all invariants hold, and the nodes are freed only when
   nobody holds a handle.
   What this does NOT establish about the Rust source — that `Body::drop` is the only code that
   frees nodes, that `SkipList::drop` frees nothing, that `#[derive(Clone)]` on the iterator copies
   the Arc — is checked on the real code by the node-lifetime registry of the harness (sk-life:
   every dereference of a freed node is reported), not by a theorem. *)
Theorem C17_iterator_valid_while_held : forall maxh progs acts s os, 1 <= maxh -> progs_ok maxh progs -> NoDup (all_ins_keys progs) -> orun maxh true (oinit maxh progs) acts = (s, os) -> ~ In OUaf os /\ inv maxh (all_ins_keys progs) (obase s) /\ (forall t th, nth_error (sthreads (obase s)) t = Some th -> tpc th <> PPanic /\ ~ In RPanic (outs th)) /\ (ofreed s = true -> forall t, nth t (oholds s) false = false).
Proof. exact own_safe. Qed.

(* F4: the code before the fix (SkipList::drop frees the nodes whatever iterators exist; `false`
   selects that behaviour) did not have this property *)
Theorem C17_iterator_valid_before_fix_refuted : exists maxh progs acts, 1 <= maxh /\ progs_ok maxh progs /\ NoDup (all_ins_keys progs) /\ In OUaf (snd (orun maxh false (oinit maxh progs) acts)).
Proof.
  exists 2, [[OInsert 1%N 1]; [OFirst]], (repeat (ARun 0) 7 ++ [ADrop 0; ARun 1]).
  split; [lia|]. split; [repeat constructor; cbn; lia|]. split; [repeat constructor; cbn; tauto|exact own_old_uaf].
Qed.

(* ------------------------------------------------------------------ the hypotheses are satisfiable *)
(* two threads insert the neighbouring keys 5 and 6 (height 2, MAX_HEIGHT as in the source); the
   schedule makes the second compare-exchange at level 0 fail, so that the re-search runs; a third
   thread searches and iterates *)
Definition ex_maxh : nat := N.to_nat DEFAULT_MAX_HEIGHT.
Definition ex_progs : list (list op) :=
  [[OInsert 5 2; OContains 6]; [OInsert 6 2]; [OFirst; ONext; ONext]].
Definition ex_sched : list nat :=
  repeat 0 14 ++ repeat 1 14 ++ [0; 0; 1; 1; 0; 0] ++ repeat 1 40 ++ repeat 0 40 ++ repeat 2 10.

Example C17_example_wf : 1 <= ex_maxh /\ progs_ok ex_maxh ex_progs /\ NoDup (all_ins_keys ex_progs).
Proof.
  split; [vm_compute; lia|]. split.
  - unfold progs_ok, ex_progs. repeat constructor; vm_compute; lia.
  - vm_compute. repeat constructor; cbn; intuition discriminate.
Qed.

Example C17_example_run :
  let s := run ex_maxh ex_sched (init ex_maxh ex_progs) in
  let '(_, evs, ok) := run_trace ex_maxh (repeat 0 14 ++ repeat 1 14 ++ [0; 0; 1; 1]) (init ex_maxh ex_progs) [] in
  keys0 (smem s) = [5%N; 6%N] /\ ok = true /\
  existsb (fun e => match e with ECas _ _ _ _ false => true | _ => false end) evs = true /\
  map outs (sthreads s) = [[RIns 5; RContains 6 true]; [RIns 6]; [RFirst (Some 5%N); RNext (AtKey 5) (Some 6%N); RNext (AtKey 6) None]].
Proof. vm_compute. auto. Qed.
