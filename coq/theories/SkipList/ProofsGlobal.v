(* SkipList/ProofsGlobal.v — the invariant of the whole system (memory + all threads) holds in
   the initial state and is preserved by every step of every thread, hence by every schedule. *)
From Coq Require Import NArith ZArith List Bool Arith Lia Permutation.
From Blue Require Import SkipList.Model SkipList.ProofsBase SkipList.ProofsInv SkipList.ProofsStep.
Import ListNotations.

(* ------------------------------------------------------------------ list lemmas *)
Lemma flat_map_upd_same : forall A B (f : A -> list B) (l : list A) i a a',
  nth_error l i = Some a -> f a' = f a -> flat_map f (upd l i a') = flat_map f l.
Proof.
  induction l as [|x l IH]; intros [|i] a a' H E; cbn in *; try discriminate.
  - inversion H; subst. rewrite E. reflexivity.
  - f_equal. eapply IH; eauto.
Qed.

Lemma flat_map_upd_cons : forall A B (f : A -> list B) (l : list A) i a a' k,
  nth_error l i = Some a -> f a = k :: f a' ->
  Permutation (flat_map f l) (k :: flat_map f (upd l i a')).
Proof.
  induction l as [|x l IH]; intros [|i] a a' k H E; cbn in *; try discriminate.
  - inversion H; subst. rewrite E. reflexivity.
  - specialize (IH i a a' k H E).
    rewrite IH. apply Permutation_sym. apply Permutation_middle.
Qed.

Lemma flat_map_in_nth : forall A B (f : A -> list B) (l : list A) i a k,
  nth_error l i = Some a -> In k (f a) -> In k (flat_map f l).
Proof.
  intros A B f l i a k H Hk. apply in_flat_map. exists a. split; auto. eapply nth_error_In; eauto.
Qed.

Lemma nodup_app_disj : forall A (a b : list A) k, NoDup (a ++ b) -> In k a -> In k b -> False.
Proof.
  induction a as [|y ys IH]; intros b k ND Ka Kb; cbn in *; [contradiction|].
  inversion ND; subst. destruct Ka as [->|Ka].
  - apply H1. apply in_or_app. right. exact Kb.
  - eapply IH; eauto.
Qed.

Lemma nodup_app_r : forall A (a b : list A), NoDup (a ++ b) -> NoDup b.
Proof. induction a as [|y ys IH]; intros b ND; cbn in *; auto. inversion ND; subst. auto. Qed.

Lemma nodup_flat_map_disj : forall A B (f : A -> list B) (l : list A) i j a b k,
  NoDup (flat_map f l) -> i <> j -> nth_error l i = Some a -> nth_error l j = Some b ->
  In k (f a) -> In k (f b) -> False.
Proof.
  induction l as [|x l IH]; intros i j a b k ND Ne Hi Hj Ka Kb.
  - destruct i; discriminate.
  - cbn in ND. destruct i as [|i]; destruct j as [|j]; cbn in *; try lia.
    + inversion Hi; subst. eapply nodup_app_disj; eauto. eapply flat_map_in_nth; eauto.
    + inversion Hj; subst. eapply nodup_app_disj; eauto. eapply flat_map_in_nth; eauto.
    + apply nodup_app_r in ND. eapply (IH i j); eauto.
Qed.

Lemma mem_keys_in : forall m n, 0 < n < length m -> In (key_of m n) (mem_keys m).
Proof.
  intros [|a t] n H; cbn in H; [lia|]. destruct n as [|i]; [lia|].
  unfold mem_keys, key_of, getn. cbn [List.tl nth]. apply in_map. apply nth_In. lia.
Qed.

Section Global.
Variable maxh : nat.
Hypothesis maxh_pos : 1 <= maxh.
Variable K0 : list N.
Hypothesis K0_nodup : NoDup K0.

Record inv (s : state) : Prop := {
  inv_mem : mem_inv maxh (smem s);
  inv_threads : forall i th, nth_error (sthreads s) i = Some th -> thread_inv maxh (smem s) th;
  inv_keys : Permutation (mem_keys (smem s) ++ flat_map pend_keys (sthreads s)) K0;
  inv_own : forall i j thi thj x a b, i <> j ->
      nth_error (sthreads s) i = Some thi -> nth_error (sthreads s) j = Some thj ->
      owned (tpc thi) = Some (x, a) -> owned (tpc thj) = Some (x, b) -> False }.

Lemma owned_owns : forall m p x a, pc_inv maxh m p -> owned p = Some (x, a) ->
  x < length m /\ lnk_of m x = a.
Proof.
  intros m p x a P O. destruct p; cbn in O; try discriminate; inversion O; subst; cbn in P.
  - destruct P as [_ [[O1 [O2 [O3 [O4 _]]]] _]]. auto.
  - destruct P as [_ [[O1 [O2 [O3 [O4 _]]]] _]]. auto.
  - destruct P as [_ [[O1 [O2 [O3 [O4 _]]]] _]]. auto.
Qed.

Lemma pend_fresh : forall m p k, pc_inv maxh m p -> In k (pend p) -> fresh m k.
Proof.
  intros m p k P H. destruct p; cbn in H; try contradiction; destruct H as [<-|[]]; cbn in P.
  - destruct P as [_ [_ [_ [_ [_ [F _]]]]]]. exact F.
  - destruct P as [_ [_ [F _]]]. exact F.
Qed.

Lemma inv_nodup : forall s, inv s -> NoDup (mem_keys (smem s) ++ flat_map pend_keys (sthreads s)).
Proof.
  intros s I. eapply Permutation_NoDup; [apply Permutation_sym; apply (inv_keys s I)|exact K0_nodup].
Qed.

Lemma inv_fresh : forall s t th k, inv s -> nth_error (sthreads s) t = Some th ->
  In k (pend_keys th) -> fresh (smem s) k.
Proof.
  intros s t th k I Ht Hk n Hn E.
  pose proof (inv_nodup s I) as ND.
  assert (A : In k (mem_keys (smem s))) by (rewrite <- E; apply mem_keys_in; auto).
  assert (B : In k (flat_map pend_keys (sthreads s))) by (eapply flat_map_in_nth; eauto).
  eapply nodup_app_disj; eauto.
Qed.

Theorem step_inv : forall s t s' e, inv s -> step maxh t s = Some (s', e) -> inv s'.
Proof.
  intros s t s' e I H. unfold step in H.
  destruct (nth_error (sthreads s) t) as [th|] eqn:Ht; [|discriminate].
  destruct (thread_step maxh (smem s) th) as [[[m' th'] e']|] eqn:Hs; [|discriminate].
  inversion H; subst s' e'. clear H.
  pose proof (inv_threads s I t th Ht) as T.
  assert (F : forall k, In k (pend_keys th) -> fresh (smem s) k) by (intros; eapply inv_fresh; eauto).
  pose proof (thread_step_ok maxh maxh_pos (smem s) th m' th' e (inv_mem s I) T F Hs) as OK.
  pose proof (nth_error_Some_lt _ _ _ _ Ht) as Lt.
  pose proof (inv_nodup s I) as ND.
  assert (NDf : NoDup (flat_map pend_keys (sthreads s))) by (eapply nodup_app_r; eauto).
  constructor; cbn [smem sthreads].
  - apply (so_mem _ _ _ _ _ OK).
  - intros i thi Hi. destruct (Nat.eq_dec i t) as [->|Ne].
    + rewrite nth_error_upd_same in Hi; auto. inversion Hi; subst. apply (so_th _ _ _ _ _ OK).
    + rewrite nth_error_upd_other in Hi; auto. pose proof (inv_threads s I i thi Hi) as Ti.
      apply (thread_inv_ext maxh (smem s) m' thi); [| | |exact Ti].
      * apply (so_ext _ _ _ _ _ OK).
      * intros x idx Ho. destruct (owned_owns _ _ _ _ (ti_pc _ _ _ Ti) Ho) as [Hx Hl].
        destruct (so_frame _ _ _ _ _ OK x Hx) as [A B].
        -- intros a Ha. eapply (inv_own s I i t); eauto.
        -- rewrite Hl in B. auto.
      * intros k Hk. apply (so_fresh _ _ _ _ _ OK).
        -- eapply pend_fresh; eauto. apply (ti_pc _ _ _ Ti).
        -- intro Hk2. eapply (nodup_flat_map_disj _ _ pend_keys (sthreads s) i t thi th k); eauto;
             unfold pend_keys; apply in_or_app; left; auto.
  - destruct (so_keys _ _ _ _ _ OK) as [[A B]|[k [A B]]].
    + rewrite A. erewrite flat_map_upd_same; eauto. apply (inv_keys s I).
    + rewrite A. eapply Permutation_trans; [|apply (inv_keys s I)].
      rewrite <- app_assoc. apply Permutation_app_head. cbn.
      apply Permutation_sym. eapply flat_map_upd_cons; eauto.
  - intros i j thi thj x a b Ne Hi Hj Oi Oj.
    assert (OLD : forall i0 th0 x0 a0, i0 <> t -> nth_error (sthreads s) i0 = Some th0 ->
              owned (tpc th0) = Some (x0, a0) -> x0 < length (smem s)).
    { intros i0 th0 x0 a0 _ H0 O0. eapply owned_owns; eauto. apply (ti_pc _ _ _ (inv_threads s I i0 th0 H0)). }
    destruct (Nat.eq_dec i t) as [->|Ni]; destruct (Nat.eq_dec j t) as [->|Nj]; try lia.
    + rewrite nth_error_upd_same in Hi; auto. inversion Hi; subst thi.
      rewrite nth_error_upd_other in Hj; auto.
      destruct (so_owned _ _ _ _ _ OK x a Oi) as [[b' Ob]|Ge].
      * eapply (inv_own s I t j); eauto.
      * pose proof (OLD j thj x b Nj Hj Oj). lia.
    + rewrite nth_error_upd_same in Hj; auto. inversion Hj; subst thj.
      rewrite nth_error_upd_other in Hi; auto.
      destruct (so_owned _ _ _ _ _ OK x b Oj) as [[b' Ob]|Ge].
      * eapply (inv_own s I i t); eauto.
      * pose proof (OLD i thi x a Ni Hi Oi). lia.
    + rewrite nth_error_upd_other in Hi, Hj; auto. eapply (inv_own s I i j); eauto.
Qed.

(* what a step does to memory, for clients of the invariant *)
Lemma step_ext : forall s t s' e, inv s -> step maxh t s = Some (s', e) -> mem_ext (smem s) (smem s').
Proof.
  intros s t s' e I H. unfold step in H.
  destruct (nth_error (sthreads s) t) as [th|] eqn:Ht; [|discriminate].
  destruct (thread_step maxh (smem s) th) as [[[m' th'] e']|] eqn:Hs; [|discriminate].
  inversion H; subst s' e'. clear H. cbn.
  pose proof (inv_threads s I t th Ht) as T.
  assert (F : forall k, In k (pend_keys th) -> fresh (smem s) k) by (intros; eapply inv_fresh; eauto).
  apply (so_ext _ _ _ _ _ (thread_step_ok maxh maxh_pos (smem s) th m' th' e (inv_mem s I) T F Hs)).
Qed.

Theorem run_inv : forall sched s, inv s -> inv (run maxh sched s).
Proof.
  induction sched as [|t rest IH]; intros s I; cbn; auto.
  destruct (step maxh t s) as [[s' e]|] eqn:H; auto. apply IH. eapply step_inv; eauto.
Qed.

Theorem run_ext : forall sched s, inv s -> mem_ext (smem s) (smem (run maxh sched s)).
Proof.
  induction sched as [|t rest IH]; intros s I; cbn; [apply mem_ext_refl|].
  destruct (step maxh t s) as [[s' e]|] eqn:H; auto.
  eapply mem_ext_trans; [eapply step_ext; eauto|]. apply IH. eapply step_inv; eauto.
Qed.

End Global.

(* ------------------------------------------------------------------ the initial state *)
Definition progs_ok (maxh : nat) (progs : list (list op)) : Prop :=
  Forall (Forall (op_ok maxh)) progs.
Definition all_ins_keys (progs : list (list op)) : list N := flat_map ins_keys progs.

Theorem init_inv : forall maxh progs, 1 <= maxh -> progs_ok maxh progs ->
  inv maxh (all_ins_keys progs) (init maxh progs).
Proof.
  intros maxh progs Hm OK. unfold init. constructor; cbn [smem sthreads].
  - unfold init_mem. constructor.
    + cbn. lia.
    + unfold height_of, getn. cbn. apply repeat_length.
    + reflexivity.
    + intros [|n]; unfold lnk_of, height_of, getn; cbn.
      * rewrite repeat_length. lia.
      * destruct n; cbn; lia.
    + intros [|n]; unfold height_of, getn; cbn.
      * rewrite repeat_length. lia.
      * destruct n; cbn; lia.
    + intros a b Ha Hb. cbn in Ha. lia.
    + intros n l H. assert (n = 0).
      { destruct n; auto. unfold linked, lnk_of, getn in H. cbn in H. destruct n; cbn in H; lia. }
      subst n. unfold next_of, getn. cbn. rewrite nth_repeat_None.
      intros q Hq. assert (q = 0).
      { destruct q; auto. unfold linked, lnk_of, getn in Hq. cbn in Hq. destruct q; cbn in Hq; lia. }
      subst q. rewrite ek_0. lia.
  - intros i th H. apply nth_error_In in H. apply in_map_iff in H. destruct H as [p [<- Hp]].
    constructor; cbn; auto.
    + intros n Hn. discriminate.
    + unfold progs_ok in OK. rewrite Forall_forall in OK. apply OK. exact Hp.
  - unfold mem_keys, init_mem. cbn. unfold all_ins_keys. rewrite flat_map_concat_map, map_map.
    rewrite <- flat_map_concat_map. apply Permutation_refl.
  - intros i j thi thj x a b _ Hi _ Oi _. apply nth_error_In in Hi. apply in_map_iff in Hi.
    destruct Hi as [p [<- _]]. cbn in Oi. discriminate.
Qed.

Theorem reachable_inv : forall maxh progs sched, 1 <= maxh -> progs_ok maxh progs ->
  NoDup (all_ins_keys progs) ->
  inv maxh (all_ins_keys progs) (run maxh sched (init maxh progs)).
Proof. intros. apply run_inv; auto. apply init_inv; auto. Qed.
