(* SkipList/Model.v — executable small-step model of skipfree/src/lib.rs.
   Definitions only (no proofs), so that the model still extracts and runs when a proof breaks.

   Shared memory is a list of nodes (index = node identity = order of allocation; node 0 is the
   head sentinel of height MAX_HEIGHT).  A pointer is `option nat` (None = null).  Every thread
   runs a list of operations; one `step` of a thread performs exactly ONE access to shared
   memory of the Rust code (one `get_next`, `set_next`, `cas_next`, or the allocation of the new
   node) together with the thread-local computation that follows it, or the thread-local start of
   an operation (`EBegin`).  The global semantics is the interleaving of thread steps in any order
   (`run` over a schedule = list of thread numbers): sequential consistency is ASSUMED here — the
   Rust uses Release stores, Acquire loads and SeqCst compare-exchange; weaker-than-SC behaviours
   of the hardware are outside the model.
   The traced runs of the correspondence check are serialised by the harness (one thread between
   two gates, or a lock around each atomic operation): there the harness ENFORCES this assumption,
   and it takes each hooked operation to be atomic.  Only the untraced stress / hammer stages run
   the code with the real memory ordering of the machine (x86-64, TSO).

   `nlnk` is a GHOST field: the number of levels at which the node has been published by a
   successful `cas_next`.  It is written by `cas_next` and never read by the control flow of any
   operation (see `thread_step`): it only serves to state the invariants (`linked`).

   Heights (`random_height`) are an oracle input: each insert operation carries its height.
   The loads of the (immutable) head pointer cell are not steps.  Keys are u64 in the harness;
   unbounded N here (no arithmetic is performed on keys, only comparisons).
   The value of a key/value pair is not modelled (it is written once at allocation and never
   changes). *)
From Coq Require Import NArith List Bool Arith.
Import ListNotations.

Definition ptr := option nat.

Record node := mkNode { nkey : N; nnext : list ptr; nlnk : nat }.
Definition dnode : node := mkNode 0%N [] 0.
Definition mem := list node.

Fixpoint upd {A} (l : list A) (i : nat) (v : A) : list A :=
  match l, i with
  | [], _ => []
  | _ :: t, O => v :: t
  | h :: t, S i' => h :: upd t i' v
  end.

Definition getn (m : mem) (n : nat) : node := nth n m dnode.
Definition key_of (m : mem) (n : nat) : N := nkey (getn m n).
Definition height_of (m : mem) (n : nat) : nat := length (nnext (getn m n)).
Definition lnk_of (m : mem) (n : nat) : nat := nlnk (getn m n).
Definition next_of (m : mem) (n l : nat) : ptr := nth l (nnext (getn m n)) None.

Definition ptr_eqb (a b : ptr) : bool :=
  match a, b with
  | None, None => true
  | Some x, Some y => Nat.eqb x y
  | _, _ => false
  end.

(* Node::get_next — None = the `assert!(level < self.pointers.len())` fails (or the pointer
   dangles: not a node) *)
Definition get_next (m : mem) (n l : nat) : option ptr :=
  if (n <? length m) && (l <? height_of m n) then Some (next_of m n l) else None.

(* Node::set_next *)
Definition set_next (m : mem) (n l : nat) (v : ptr) : option mem :=
  if (n <? length m) && (l <? height_of m n) then
    let nd := getn m n in
    Some (upd m n (mkNode (nkey nd) (upd (nnext nd) l v) (nlnk nd)))
  else None.

Definition set_lnk (m : mem) (n v : nat) : mem :=
  let nd := getn m n in upd m n (mkNode (nkey nd) (nnext nd) v).

(* Node::cas_next; on success the ghost counter of the published node becomes level+1 *)
Definition cas_next (m : mem) (n l : nat) (old new : ptr) : option (mem * bool) :=
  if (n <? length m) && (l <? height_of m n) then
    if ptr_eqb (next_of m n l) old then
      let nd := getn m n in
      let m1 := upd m n (mkNode (nkey nd) (upd (nnext nd) l new) (nlnk nd)) in
      Some (match new with Some x => set_lnk m1 x (S l) | None => m1 end, true)
    else Some (m, false)
  else None.

(* SkipList::key_is_after_node *)
Definition key_is_after (m : mem) (k : N) (p : ptr) : bool :=
  match p with
  | None => false
  | Some y => N.ltb (key_of m y) k
  end.

Inductive op :=
| OInsert (k : N) (h : nat)   (* SkipList::insert, with the height random_height will return *)
| OContains (k : N)           (* SkipList::contains *)
| OSeek (k : N)               (* SkipListIterator::seek *)
| OFirst                      (* seek_to_first *)
| OLast                       (* seek_to_last *)
| ONext                       (* next *)
| OPrev.                      (* prev *)

(* where an iterator stands: past the end (null), before the first element (the head node; this
   is where prev() from the first element leaves it), or on a key.  is_valid() is false for the
   first two. *)
Inductive ipos := AtEnd | AtHead | AtKey (k : N).

(* the record of a completed operation: the operation, its argument, and what it returned /
   what is observable after it (for iterator operations the position as is_valid() / key() show
   it: None = not valid).  RNext and RPrev also record where the iterator stood before. *)
Inductive res :=
| RIns (k : N)
| RContains (k : N) (b : bool)
| RSeek (k : N) (r : option N)
| RFirst (r : option N)
| RLast
| RNext (from : ipos) (r : option N)
| RPrev (from : ipos) (r : option N)
| RPanic.

Inductive fkind := FContains | FSeek.

Inductive pc :=
| PIdle
| PFindI (k : N) (h : nat) (x lvl : nat) (prev obs : list ptr)
    (* insert: in find_greater_or_equal_and_pointers, about to get_next(x, lvl) *)
| PAlloc (k : N) (h : nat) (prev obs : list ptr)
    (* insert: the assert on `existing`, random_height, new_node *)
| PSet (h x idx : nat) (prev obs : list ptr)    (* about to set_next(x, idx, obs[idx]) *)
| PCas (h x idx : nat) (prev obs : list ptr)    (* about to cas_next(prev[idx], idx, obs[idx], x) *)
| PAdv (h x idx : nat) (prev obs : list ptr)    (* 'advancing: about to get_next(prev[idx], idx) *)
| PFindGE (fk : fkind) (k : N) (x lvl : nat)    (* find_greater_or_equal *)
| PFindLT (k : N) (x lvl : nat)                 (* find_less_than *)
| PFindLast (x lvl : nat)                       (* find_last *)
| PNext (n : nat)                               (* next(): about to get_next(node, 0) *)
| PFirst                                        (* seek_to_first: about to get_next(head, 0) *)
| PPanic.

Inductive event :=
| EBegin (o : op)
| EAlloc (n h : nat)
| EGet (n l : nat) (v : ptr)
| ESet (n l : nat) (v : ptr)
| ECas (n l : nat) (old new : ptr) (ok : bool)
| EPanic.

Record thread := mkThread { prog : list op; tpc : pc; it : ptr; outs : list res }.

Definition finish (th : thread) (i : ptr) (r : res) : thread :=
  mkThread (prog th) PIdle i (outs th ++ [r]).
Definition goto (th : thread) (p : pc) : thread := mkThread (prog th) p (it th) (outs th).
Definition panic (th : thread) : thread := mkThread (prog th) PPanic (it th) (outs th ++ [RPanic]).

(* is_valid() / key() of an iterator positioned at `i` *)
Definition pos_of (m : mem) (i : ptr) : option N :=
  match i with
  | None => None
  | Some n => if Nat.eqb n 0 then None else Some (key_of m n)
  end.

Definition ipos_of (m : mem) (i : ptr) : ipos :=
  match i with
  | None => AtEnd
  | Some n => if Nat.eqb n 0 then AtHead else AtKey (key_of m n)
  end.

Section WithMaxHeight.
Variable maxh : nat.      (* the const generic MAX_HEIGHT *)

Definition begin_op (m : mem) (th : thread) (o : op) (rest : list op) : thread :=
  let th0 := mkThread rest (tpc th) (it th) (outs th) in
  match o with
  | OInsert k h => goto th0 (PFindI k h 0 (maxh - 1) (repeat None maxh) (repeat None maxh))
  | OContains k => goto th0 (PFindGE FContains k 0 (maxh - 1))
  | OSeek k => goto th0 (PFindGE FSeek k 0 (maxh - 1))
  | OFirst => goto th0 PFirst
  | OLast => finish th0 None RLast
  | ONext =>
      match it th with
      | None => finish th0 None (RNext AtEnd None)
      | Some n => goto th0 (PNext n)
      end
  | OPrev =>
      match it th with
      | None => goto th0 (PFindLast 0 (maxh - 1))
      | Some n =>
          if Nat.eqb n 0 then finish th0 (Some 0) (RPrev AtHead None)
          else goto th0 (PFindLT (key_of m n) 0 (maxh - 1))
      end
  end.

Definition thread_step (m : mem) (th : thread) : option (mem * thread * event) :=
  match tpc th with
  | PIdle =>
      match prog th with
      | [] => None
      | o :: rest => Some (m, begin_op m th o rest, EBegin o)
      end
  | PPanic => None

  | PFindI k h x lvl prev obs =>
      match get_next m x lvl with
      | None => Some (m, panic th, EPanic)
      | Some next =>
          if key_is_after m k next then
            match next with
            | Some y => Some (m, goto th (PFindI k h y lvl prev obs), EGet x lvl next)
            | None => Some (m, panic th, EPanic)   (* unreachable: key_is_after None = false *)
            end
          else
            let prev' := upd prev lvl (Some x) in
            let obs' := upd obs lvl next in
            match lvl with
            | O => Some (m, goto th (PAlloc k h prev' obs'), EGet x lvl next)
            | S l' => Some (m, goto th (PFindI k h x l' prev' obs'), EGet x lvl next)
            end
      end

  | PAlloc k h prev obs =>
      (* assert!(existing.is_null() || node_ptr::key(existing) != &key) *)
      let dup := match nth 0 obs None with
                 | None => false
                 | Some e => N.eqb (key_of m e) k
                 end in
      (* new_node: assert!(height > 0); assert!(height <= MAX_HEIGHT) *)
      if dup || Nat.eqb h 0 || (maxh <? h) then Some (m, panic th, EPanic)
      else
        let x := length m in
        Some (m ++ [mkNode k (repeat None h) 0], goto th (PSet h x 0 prev obs), EAlloc x h)

  | PSet h x idx prev obs =>
      let v := nth idx obs None in
      match set_next m x idx v with
      | None => Some (m, panic th, EPanic)
      | Some m' => Some (m', goto th (PCas h x idx prev obs), ESet x idx v)
      end

  | PCas h x idx prev obs =>
      match nth idx prev None with
      | None => Some (m, panic th, EPanic)            (* null dereference *)
      | Some p =>
          let old := nth idx obs None in
          match cas_next m p idx old (Some x) with
          | None => Some (m, panic th, EPanic)
          | Some (m', true) =>
              if S idx <? h then
                Some (m', goto th (PSet h x (S idx) prev obs), ECas p idx old (Some x) true)
              else
                Some (m', finish th (it th) (RIns (key_of m x)), ECas p idx old (Some x) true)
          | Some (m', false) =>
              Some (m', goto th (PAdv h x idx prev obs), ECas p idx old (Some x) false)
          end
      end

  | PAdv h x idx prev obs =>
      match nth idx prev None with
      | None => Some (m, panic th, EPanic)
      | Some p =>
          match get_next m p idx with
          | None => Some (m, panic th, EPanic)
          | Some next =>
              if key_is_after m (key_of m x) next then
                Some (m, goto th (PAdv h x idx (upd prev idx next) obs), EGet p idx next)
              else
                Some (m, goto th (PSet h x idx prev (upd obs idx next)), EGet p idx next)
          end
      end

  | PFindGE fk k x lvl =>
      match get_next m x lvl with
      | None => Some (m, panic th, EPanic)
      | Some next =>
          if key_is_after m k next then
            match next with
            | Some y => Some (m, goto th (PFindGE fk k y lvl), EGet x lvl next)
            | None => Some (m, panic th, EPanic)
            end
          else
            match lvl with
            | O =>
                match fk with
                | FContains =>
                    let b := match next with
                             | None => false
                             | Some y => N.eqb (key_of m y) k
                             end in
                    Some (m, finish th (it th) (RContains k b), EGet x lvl next)
                | FSeek => Some (m, finish th next (RSeek k (pos_of m next)), EGet x lvl next)
                end
            | S l' => Some (m, goto th (PFindGE fk k x l'), EGet x lvl next)
            end
      end

  | PFindLT k x lvl =>
      (* assert!(std::ptr::eq(x, head) || node_ptr::key(x) < key) *)
      if negb (Nat.eqb x 0 || N.ltb (key_of m x) k) then Some (m, panic th, EPanic)
      else
        match get_next m x lvl with
        | None => Some (m, panic th, EPanic)
        | Some next =>
            let stop := match next with
                        | None => true
                        | Some y => N.leb k (key_of m y)
                        end in
            if stop then
              match lvl with
              | O => Some (m, finish th (Some x) (RPrev (AtKey k) (pos_of m (Some x))), EGet x lvl next)
              | S l' => Some (m, goto th (PFindLT k x l'), EGet x lvl next)
              end
            else
              match next with
              | Some y => Some (m, goto th (PFindLT k y lvl), EGet x lvl next)
              | None => Some (m, panic th, EPanic)
              end
        end

  | PFindLast x lvl =>
      match get_next m x lvl with
      | None => Some (m, panic th, EPanic)
      | Some next =>
          match next with
          | None =>
              match lvl with
              | O => Some (m, finish th (Some x) (RPrev AtEnd (pos_of m (Some x))), EGet x lvl next)
              | S l' => Some (m, goto th (PFindLast x l'), EGet x lvl next)
              end
          | Some y => Some (m, goto th (PFindLast y lvl), EGet x lvl next)
          end
      end

  | PNext n =>
      match get_next m n 0 with
      | None => Some (m, panic th, EPanic)
      | Some next =>
          Some (m, finish th next (RNext (ipos_of m (Some n)) (pos_of m next)), EGet n 0 next)
      end

  | PFirst =>
      match get_next m 0 0 with
      | None => Some (m, panic th, EPanic)
      | Some next => Some (m, finish th next (RFirst (pos_of m next)), EGet 0 0 next)
      end
  end.

Record state := mkState { smem : mem; sthreads : list thread }.

(* Default::default(): the head node, all MAX_HEIGHT successors null, published at all levels *)
Definition init_mem : mem := [mkNode 0%N (repeat None maxh) maxh].
Definition init_thread (p : list op) : thread := mkThread p PIdle None [].
Definition init (progs : list (list op)) : state := mkState init_mem (map init_thread progs).

Definition step (t : nat) (s : state) : option (state * event) :=
  match nth_error (sthreads s) t with
  | None => None
  | Some th =>
      match thread_step (smem s) th with
      | None => None
      | Some (m', th', e) => Some (mkState m' (upd (sthreads s) t th'), e)
      end
  end.

(* a schedule entry naming a thread that cannot step is skipped *)
Fixpoint run (sched : list nat) (s : state) : state :=
  match sched with
  | [] => s
  | t :: rest =>
      match step t s with
      | None => run rest s
      | Some (s', _) => run rest s'
      end
  end.

(* the same, collecting the events, stopping at the first schedule entry that cannot step:
   used by the trace acceptor *)
Fixpoint run_trace (sched : list nat) (s : state) (acc : list event) : state * list event * bool :=
  match sched with
  | [] => (s, rev acc, true)
  | t :: rest =>
      match step t s with
      | None => (s, rev acc, false)
      | Some (s', e) => run_trace rest s' (e :: acc)
      end
  end.

End WithMaxHeight.

(* ------------------------------------------------------------------ specification
   The abstract content of the list is the SET of keys published at level 0. *)
Definition keys0 (m : mem) : list N :=
  map nkey (filter (fun nd => 1 <=? nlnk nd) (tl m)).

Open Scope N_scope.
(* r is the least element of K that is >= k (None: there is none) *)
Definition least_ge (K : list N) (k : N) (r : option N) : Prop :=
  match r with
  | None => forall q, In q K -> q < k
  | Some y => In y K /\ k <= y /\ forall q, In q K -> k <= q -> y <= q
  end.
(* r is the least element of K that is > k *)
Definition least_gt (K : list N) (k : N) (r : option N) : Prop :=
  match r with
  | None => forall q, In q K -> q <= k
  | Some y => In y K /\ k < y /\ forall q, In q K -> k < q -> y <= q
  end.
(* r is the greatest element of K that is < k *)
Definition greatest_lt (K : list N) (k : N) (r : option N) : Prop :=
  match r with
  | None => forall q, In q K -> k <= q
  | Some y => In y K /\ y < k /\ forall q, In q K -> q < k -> q <= y
  end.
Definition least_of (K : list N) (r : option N) : Prop :=
  match r with
  | None => K = []
  | Some y => In y K /\ forall q, In q K -> y <= q
  end.
Definition greatest_of (K : list N) (r : option N) : Prop :=
  match r with
  | None => K = []
  | Some y => In y K /\ forall q, In q K -> q <= y
  end.
Close Scope N_scope.
