(* Extraction of the executable skiplist / prepend-list models for the correspondence check.
   Directives in force: those of ExtrOcamlBasic only (bool, option, unit, list, prod, sumbool,
   sumor extracted to OCaml's own; N, positive, nat stay inductive).  No Extract Constant of ours. *)
From Coq Require Import NArith List.
From Blue Require Import SkipList.Model SkipList.ModelList.
Require Import ExtrOcamlBasic.
Extraction Language OCaml.
Extraction "../ocaml/skiplist/gen_skiplist.ml" step init next_of keys0 lstep linit lcontent N.of_nat N.to_nat N.add N.mul N.div_eucl.
