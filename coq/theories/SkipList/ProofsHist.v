(* SkipList/ProofsHist.v — iterator positions are consistent from one operation to the next, and the
   history theorem: the results a thread obtains between two states satisfy their specifications
   with respect to a growing sequence of key sets. *)
From Coq Require Import NArith ZArith List Bool Arith Lia Permutation.
From Blue Require Import SkipList.Model SkipList.ProofsBase SkipList.ProofsInv SkipList.ProofsStep
  SkipList.ProofsGlobal SkipList.ProofsSpec.
Import ListNotations.

(* where a completed iterator operation leaves the iterator, as far as its record tells *)
Definition after_fwd (r : option N) : ipos := match r with Some a => AtKey a | None => AtEnd end.
Definition after_bwd (r : option N) : ipos := match r with Some a => AtKey a | None => AtHead end.
Definition res_ipos (r : res) : option ipos :=
  match r with
  | RSeek _ r | RFirst r | RNext _ r => Some (after_fwd r)
  | RPrev _ r => Some (after_bwd r)
  | RLast => Some AtEnd
  | _ => None
  end.
Definition upd_ipos (acc : ipos) (r : res) : ipos :=
  match res_ipos r with Some p => p | None => acc end.
(* the position after a sequence of completed operations, starting from `acc` *)
Definition last_ipos (outs : list res) (acc : ipos) : ipos := fold_left upd_ipos outs acc.
(* every next/prev in the sequence started from where the previous operations left the iterator *)
Fixpoint froms_ok (acc : ipos) (outs : list res) : Prop :=
  match outs with
  | [] => True
  | r :: rest =>
      match r with RNext f _ | RPrev f _ => f = acc | _ => True end /\ froms_ok (upd_ipos acc r) rest
  end.

Lemma last_ipos_app : forall l r acc, last_ipos (l ++ [r]) acc = upd_ipos (last_ipos l acc) r.
Proof. intros. unfold last_ipos. rewrite fold_left_app. reflexivity. Qed.

Lemma froms_ok_app : forall l r acc, froms_ok acc (l ++ [r]) <->
  froms_ok acc l /\ match r with RNext f _ | RPrev f _ => f = last_ipos l acc | _ => True end.
Proof.
  induction l as [|a l IH]; intros r acc; cbn.
  - tauto.
  - rewrite IH. unfold last_ipos. cbn. tauto.
Qed.

Lemma froms_ok_app2 : forall l l' acc, froms_ok acc (l ++ l') <-> froms_ok acc l /\ froms_ok (last_ipos l acc) l'.
Proof.
  induction l as [|a l IH]; intros l' acc; cbn.
  - tauto.
  - rewrite IH. unfold last_ipos. cbn. tauto.
Qed.

Section Hist.
Variable maxh : nat.
Hypothesis maxh_pos : 1 <= maxh.

Notation mem_inv := (mem_inv maxh).
Notation thread_inv := (thread_inv maxh).

Record from_inv (m : mem) (th : thread) : Prop := {
  fi_pc : match tpc th with
          | PNext n => it th = Some n
          | PFindLT k _ _ => ipos_of m (it th) = AtKey k
          | PFindLast _ _ => it th = None
          | _ => True
          end;
  fi_it : ipos_of m (it th) = last_ipos (outs th) AtEnd;
  fi_outs : froms_ok AtEnd (outs th) }.

Lemma ipos_ext : forall m m' i, mem_ext m m' -> (forall n, i = Some n -> n < length m) ->
  ipos_of m' i = ipos_of m i.
Proof.
  intros m m' [n|] E H; cbn; auto. destruct (n =? 0); auto. rewrite (me_key _ _ E); auto.
Qed.

Lemma from_inv_ext : forall m m' th, mem_ext m m' -> (forall n, it th = Some n -> n < length m) ->
  from_inv m th -> from_inv m' th.
Proof.
  intros m m' th E H [F1 F2 F3]. constructor; auto.
  - destruct (tpc th); auto. rewrite (ipos_ext m m'); auto.
  - rewrite (ipos_ext m m'); auto.
Qed.

Lemma ipos_fwd : forall m x next, mem_inv m -> linked m x 0 -> next = next_of m x 0 ->
  ipos_of m next = after_fwd (pos_of m next).
Proof.
  intros m x next I L ->. destruct (next_of m x 0) as [y|] eqn:Hy; cbn; auto.
  destruct (chain_some maxh m x 0 y I L Hy) as [_ [_ [Nz _]]].
  destruct (Nat.eqb_spec y 0); [contradiction|reflexivity].
Qed.

Lemma ipos_bwd : forall m x, ipos_of m (Some x) = after_bwd (pos_of m (Some x)).
Proof. intros m x. cbn. destruct (x =? 0); reflexivity. Qed.

Ltac fi_goto F1 F2 F3 := constructor; cbn; auto.

Lemma from_inv_finish : forall m th i r, from_inv m th ->
  match r with RNext f _ | RPrev f _ => f = ipos_of m (it th) | _ => True end ->
  ipos_of m i = upd_ipos (ipos_of m (it th)) r ->
  from_inv m (finish th i r).
Proof.
  intros m th i r [F1 F2 F3] Hf Hi. constructor; cbn.
  - exact Logic.I.
  - rewrite last_ipos_app, <- F2. exact Hi.
  - apply froms_ok_app. split; auto. rewrite <- F2. exact Hf.
Qed.

Lemma from_inv_goto : forall m th p, from_inv m th ->
  match p with
  | PNext n => it th = Some n
  | PFindLT k _ _ => ipos_of m (it th) = AtKey k
  | PFindLast _ _ => it th = None
  | _ => True
  end -> from_inv m (goto th p).
Proof. intros m th p [F1 F2 F3] H. constructor; cbn; auto. Qed.

Theorem thread_step_from : forall m th m' th' e, mem_inv m -> thread_inv m th ->
  (forall k, In k (pend_keys th) -> fresh m k) -> from_inv m th ->
  thread_step maxh m th = Some (m', th', e) -> from_inv m' th'.
Proof.
  intros m th m' th' e I T F FI H.
  pose proof (thread_step_ok maxh maxh_pos m th m' th' e I T F H) as OK.
  pose proof (ti_pc maxh m th T) as P.
  assert (NP : ~ In RPanic (outs th')) by apply (ti_nopanic _ _ _ (so_th _ _ _ _ _ OK)).
  assert (PAN : forall thp, th' = panic thp -> from_inv m' th').
  { intros thp ->. exfalso. apply NP. cbn. apply in_or_app. right. left. reflexivity. }
  assert (ITL : forall n, it th = Some n -> n < length m).
  { intros n Hn. eapply linked_lt. apply (ti_it _ _ _ T n Hn). }
  assert (EXT : forall th0, it th0 = it th -> from_inv m th0 -> from_inv m' th0).
  { intros th0 E0 F0. eapply from_inv_ext; eauto. apply (so_ext _ _ _ _ _ OK). rewrite E0. exact ITL. }
  pose proof FI as [F1 F2 F3].
  unfold thread_step in H. destruct (tpc th) eqn:Hpc; cbn [pc_inv] in P.
  - (* begin *)
    destruct (prog th) as [|o rest]; [discriminate|]. inversion H; subst m' th' e.
    set (th0 := mkThread rest (tpc th) (it th) (outs th)).
    assert (FI0 : from_inv m th0) by (constructor; cbn; auto; rewrite Hpc; exact Logic.I).
    destruct o; cbn [begin_op]; fold th0.
    + apply from_inv_goto; auto; try exact Logic.I.
    + apply from_inv_goto; auto; try exact Logic.I.
    + apply from_inv_goto; auto; try exact Logic.I.
    + apply from_inv_goto; auto; try exact Logic.I.
    + apply from_inv_finish; auto; try exact Logic.I.
    + destruct (it th) as [n|] eqn:Hit.
      * apply from_inv_goto; auto.
      * apply from_inv_finish; auto; try (cbn; rewrite ?Hit; reflexivity).
    + destruct (it th) as [n|] eqn:Hit.
      * destruct (Nat.eqb_spec n 0) as [->|Nz].
        -- apply from_inv_finish; auto; try (cbn; rewrite ?Hit; reflexivity).
        -- apply from_inv_goto; auto. cbn. rewrite ?Hit. cbn.
           destruct (Nat.eqb_spec n 0); [contradiction|reflexivity].
      * apply from_inv_goto; auto.
  - (* PFindI *)
    destruct P as [_ [_ [L _]]]. rewrite (get_next_linked maxh m x lvl I L) in H.
    destruct (key_is_after m k (next_of m x lvl)).
    + destruct (next_of m x lvl); inversion H; subst; eauto. apply from_inv_goto; auto; try exact Logic.I.
    + destruct lvl; inversion H; subst; apply from_inv_goto; auto; try exact Logic.I.
  - (* PAlloc *)
    match type of H with (if ?c then _ else _) = _ => destruct c end; inversion H; subst; eauto.
    apply EXT; auto. apply from_inv_goto; auto; try exact Logic.I.
  - (* PSet *)
    destruct (set_next m x idx (nth idx obs None)); inversion H; subst; eauto.
    apply EXT; auto. apply from_inv_goto; auto; try exact Logic.I.
  - (* PCas *)
    destruct (nth idx prev None) as [p|]; [|inversion H; subst; eauto].
    destruct (cas_next m p idx (nth idx obs None) (Some x)) as [[m1 [|]]|]; [| |inversion H; subst; eauto].
    + destruct (S idx <? h); inversion H; subst.
      * apply EXT; auto. apply from_inv_goto; auto; try exact Logic.I.
      * apply EXT; auto. apply from_inv_finish; auto; try exact Logic.I.
    + inversion H; subst. apply from_inv_goto; auto; try exact Logic.I.
  - (* PAdv *)
    destruct (nth idx prev None) as [p|]; [|inversion H; subst; eauto].
    destruct (get_next m p idx); [|inversion H; subst; eauto].
    destruct (key_is_after m (key_of m x) p0); inversion H; subst; apply from_inv_goto; auto; try exact Logic.I.
  - (* PFindGE *)
    destruct P as [_ [L Hx]]. rewrite (get_next_linked maxh m x lvl I L) in H.
    destruct (key_is_after m k (next_of m x lvl)) eqn:A.
    + destruct (next_of m x lvl); inversion H; subst; eauto. apply from_inv_goto; auto; try exact Logic.I.
    + destruct lvl; [|inversion H; subst; apply from_inv_goto; auto; try exact Logic.I].
      destruct fk; inversion H; subst.
      * apply from_inv_finish; auto; try exact Logic.I.
      * apply from_inv_finish; auto; try exact Logic.I. cbn. eapply ipos_fwd; eauto.
  - (* PFindLT *)
    destruct P as [_ [L Hx]].
    match type of H with (if ?c then _ else _) = _ => destruct c end; [inversion H; subst; eauto|].
    rewrite (get_next_linked maxh m x lvl I L) in H.
    destruct (match next_of m x lvl with None => true | Some y => (k <=? key_of m y)%N end) eqn:S.
    + destruct lvl; inversion H; subst.
      * apply from_inv_finish; auto. cbn. apply ipos_bwd.
      * apply from_inv_goto; auto.
    + destruct (next_of m x lvl); inversion H; subst; eauto. apply from_inv_goto; auto.
  - (* PFindLast *)
    destruct P as [_ L]. rewrite (get_next_linked maxh m x lvl I L) in H.
    destruct (next_of m x lvl) eqn:Hy; [inversion H; subst; apply from_inv_goto; auto|].
    destruct lvl; inversion H; subst.
    + apply from_inv_finish; auto.
      * rewrite F1. reflexivity.
      * cbn. apply ipos_bwd.
    + apply from_inv_goto; auto.
  - (* PNext *)
    rewrite (get_next_linked maxh m n 0 I P) in H. inversion H; subst. apply from_inv_finish; auto.
    + rewrite F1. reflexivity.
    + cbn. eapply ipos_fwd; eauto.
  - (* PFirst *)
    assert (L : linked m 0 0) by (apply (head_linked maxh); auto).
    rewrite (get_next_linked maxh m 0 0 I L) in H. inversion H; subst.
    apply from_inv_finish; auto; try exact Logic.I. cbn. eapply ipos_fwd; eauto.
  - discriminate.
Qed.

(* ------------------------------------------------------------------ global *)
Variable K0 : list N.
Hypothesis K0_nodup : NoDup K0.

Definition inv2 (s : state) : Prop :=
  inv maxh K0 s /\ forall i th, nth_error (sthreads s) i = Some th -> from_inv (smem s) th.

(* one step of the system: what it does to the stepping thread and to the others *)
Lemma step_shape : forall s t s' e, inv maxh K0 s -> step maxh t s = Some (s', e) ->
  exists th th', nth_error (sthreads s) t = Some th /\ nth_error (sthreads s') t = Some th' /\
    thread_step maxh (smem s) th = Some (smem s', th', e) /\
    (forall j, j <> t -> nth_error (sthreads s') j = nth_error (sthreads s) j) /\
    length (sthreads s') = length (sthreads s).
Proof.
  intros s t s' e I H. unfold step in H.
  destruct (nth_error (sthreads s) t) as [th|] eqn:Ht; [|discriminate].
  destruct (thread_step maxh (smem s) th) as [[[m' th'] e']|] eqn:Hs; [|discriminate].
  inversion H; subst s' e'. clear H. exists th, th'. cbn [smem sthreads].
  pose proof (nth_error_Some_lt _ _ _ _ Ht) as Lt. repeat split; auto.
  - apply nth_error_upd_same; auto.
  - intros j Hj. apply nth_error_upd_other; auto.
  - apply upd_length.
Qed.

Theorem step_inv2 : forall s t s' e, inv2 s -> step maxh t s = Some (s', e) -> inv2 s'.
Proof.
  intros s t s' e [I FI] H. split; [eapply step_inv; eauto|].
  destruct (step_shape s t s' e I H) as [th [th' [Ht [Ht' [Hs [Hoth _]]]]]].
  pose proof (inv_threads _ _ s I t th Ht) as T.
  assert (F : forall k, In k (pend_keys th) -> fresh (smem s) k) by (intros; eapply inv_fresh; eauto).
  intros i thi Hi. destruct (Nat.eq_dec i t) as [->|Ne].
  - rewrite Ht' in Hi. inversion Hi; subst thi.
    eapply thread_step_from; eauto. apply (inv_mem _ _ s I).
  - rewrite Hoth in Hi; auto. eapply from_inv_ext; eauto.
    + eapply step_ext; eauto.
    + intros n Hn. eapply linked_lt. apply (ti_it _ _ _ (inv_threads _ _ s I i thi Hi) n Hn).
Qed.

Theorem run_inv2 : forall sched s, inv2 s -> inv2 (run maxh sched s).
Proof.
  induction sched as [|t rest IH]; intros s I; cbn; auto.
  destruct (step maxh t s) as [[s' e]|] eqn:H; auto. apply IH. eapply step_inv2; eauto.
Qed.

(* ------------------------------------------------------------------ the history theorem *)
(* `hist K rs K'`: the results rs were each obtained at a moment at which the key set was some
   set between K and K' (inclusion-wise), these moments in order, key sets only growing *)
Inductive hist : list N -> list res -> list N -> Prop :=
| hist_nil : forall K K', incl K K' -> hist K [] K'
| hist_cons : forall K K1 K1' r rs K', incl K K1 -> incl K1 K1' -> res_ok K1 K1' r ->
    hist K1' rs K' -> hist K (r :: rs) K'.

Lemma hist_weaken_l : forall K0' K rs K', incl K0' K -> hist K rs K' -> hist K0' rs K'.
Proof.
  intros K0' K rs K' Hi H. inversion H as [? ? Hk|? Ka Kb r rs' ? Ha Hb Hr Hh]; subst.
  - constructor. eapply incl_tran; eauto.
  - apply (hist_cons K0' Ka Kb); auto. eapply incl_tran; eauto.
Qed.

Lemma hist_incl : forall K rs K', hist K rs K' -> incl K K'.
Proof.
  induction 1; auto. eapply incl_tran; eauto. eapply incl_tran; eauto.
Qed.

Lemma keys0_incl_ext : forall m m', mem_ext m m' -> incl (keys0 m) (keys0 m').
Proof. intros m m' E k Hk. eapply keys0_ext; eauto. Qed.

Theorem history : forall sched s t th, inv maxh K0 s -> nth_error (sthreads s) t = Some th ->
  exists th' rs, nth_error (sthreads (run maxh sched s)) t = Some th' /\
    outs th' = outs th ++ rs /\
    hist (keys0 (smem s)) rs (keys0 (smem (run maxh sched s))).
Proof.
  induction sched as [|u rest IH]; intros s t th I Ht; cbn [run].
  - exists th, []. rewrite app_nil_r. repeat split; auto. constructor. apply incl_refl.
  - destruct (step maxh u s) as [[s1 e]|] eqn:H; [|apply IH; auto].
    pose proof (step_inv maxh maxh_pos K0 K0_nodup s u s1 e I H) as I1.
    pose proof (step_ext maxh maxh_pos K0 K0_nodup s u s1 e I H) as E1.
    destruct (step_shape s u s1 e I H) as [thu [thu' [Hu [Hu' [Hs [Hoth _]]]]]].
    destruct (Nat.eq_dec t u) as [->|Ne].
    + rewrite Hu in Ht. inversion Ht; subst thu.
      pose proof (inv_threads _ _ s I u th Hu) as T.
      assert (F : forall k, In k (pend_keys th) -> fresh (smem s) k) by (intros; eapply inv_fresh; eauto).
      pose proof (thread_step_res maxh maxh_pos (smem s) th (smem s1) thu' e (inv_mem _ _ s I) T F Hs) as R.
      destruct (IH s1 u thu' I1 Hu') as [th' [rs [A [B C]]]].
      destruct R as [R|[r [R1 R2]]].
      * exists th', rs. rewrite <- R. repeat split; auto.
        eapply hist_weaken_l; [|exact C]. apply keys0_incl_ext. exact E1.
      * exists th', (r :: rs). rewrite B, R1, <- app_assoc. repeat split; auto.
        apply (hist_cons _ (keys0 (smem s)) (keys0 (smem s1))); auto.
        -- apply incl_refl.
        -- apply keys0_incl_ext. exact E1.
    + rewrite <- (Hoth t Ne) in Ht.
      destruct (IH s1 t th I1 Ht) as [th' [rs [A [B C]]]].
      exists th', rs. repeat split; auto.
      eapply hist_weaken_l; [|exact C]. apply keys0_incl_ext. exact E1.
Qed.

End Hist.
