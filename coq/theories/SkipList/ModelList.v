(* SkipList/ModelList.v — executable small-step model of listfree/src/lib.rs (the prepend-only list).
   Definitions only.  Same conventions as Model.v: memory = list of nodes in order of allocation,
   a pointer is `option nat`, one step = one shared-memory access (allocation, head load,
   set_next, head compare-exchange, get_next) or the thread-local start of an operation;
   interleaving semantics, sequential consistency assumed.
   `lorder` is a GHOST field: the published nodes, newest first; it is written by the successful
   compare-exchange and never read by the control flow.  The `snap` component of `LIterStep` is
   ghost as well: the content of the list at the moment the iterator loaded the head. *)
From Coq Require Import NArith List Bool Arith.
From Blue Require Import SkipList.Model.
Import ListNotations.

Record lnode := mkLNode { ldata : N; lnext : ptr }.
Definition dlnode : lnode := mkLNode 0%N None.

Inductive lop :=
| LPrepend (d : N)      (* List::prepend *)
| LIter.                (* List::iter() followed by next() until None *)

Inductive lres :=
| LRPrepended (d : N)
| LRList (l : list N)
| LRPanic.

Inductive lpc :=
| LIdle
| LAlloc (d : N)                        (* Box::leak(Box::new(Node::new(data))) *)
| LLoad (n : nat)                       (* loop head: about to load self.head *)
| LSet (n : nat) (h : ptr)              (* about to set_next(node, head) *)
| LCas (n : nat) (h : ptr)              (* about to compare_exchange(head, node) *)
| LIterLoad                             (* iter(): about to load self.head *)
| LIterStep (n : nat) (acc snap : list N)   (* next(): about to get_next(node) *)
| LPanic.

Inductive levent :=
| LEBegin (o : lop)
| LEAlloc (n : nat)
| LEHeadGet (v : ptr)
| LESet (n : nat) (v : ptr)
| LEHeadCas (old new : ptr) (ok : bool)
| LEGet (n : nat) (v : ptr)
| LEPanic.

Record lthread := mkLThread { lprog : list lop; ltpc : lpc; louts : list lres }.

Record lstate := mkLState { lmem : list lnode; lhead : ptr; lorder : list nat; lthreads : list lthread }.

Definition lfinish (th : lthread) (r : lres) : lthread := mkLThread (lprog th) LIdle (louts th ++ [r]).
Definition lgoto (th : lthread) (p : lpc) : lthread := mkLThread (lprog th) p (louts th).
Definition lpanic (th : lthread) : lthread := mkLThread (lprog th) LPanic (louts th ++ [LRPanic]).

Definition lthread_step (m : list lnode) (hd : ptr) (ord : list nat) (th : lthread)
  : option (list lnode * ptr * list nat * lthread * levent) :=
  match ltpc th with
  | LIdle =>
      match lprog th with
      | [] => None
      | o :: rest =>
          let th0 := mkLThread rest (ltpc th) (louts th) in
          match o with
          | LPrepend d => Some (m, hd, ord, lgoto th0 (LAlloc d), LEBegin o)
          | LIter => Some (m, hd, ord, lgoto th0 LIterLoad, LEBegin o)
          end
      end
  | LPanic => None
  | LAlloc d =>
      let n := length m in
      Some (m ++ [mkLNode d None], hd, ord, lgoto th (LLoad n), LEAlloc n)
  | LLoad n => Some (m, hd, ord, lgoto th (LSet n hd), LEHeadGet hd)
  | LSet n h =>
      if n <? length m then
        Some (upd m n (mkLNode (ldata (nth n m dlnode)) h), hd, ord, lgoto th (LCas n h), LESet n h)
      else Some (m, hd, ord, lpanic th, LEPanic)
  | LCas n h =>
      if ptr_eqb hd h then
        Some (m, Some n, n :: ord, lfinish th (LRPrepended (ldata (nth n m dlnode))),
              LEHeadCas h (Some n) true)
      else Some (m, hd, ord, lgoto th (LLoad n), LEHeadCas h (Some n) false)
  | LIterLoad =>
      match hd with
      | None => Some (m, hd, ord, lfinish th (LRList []), LEHeadGet hd)
      | Some n =>
          Some (m, hd, ord,
                lgoto th (LIterStep n [] (map (fun i => ldata (nth i m dlnode)) ord)), LEHeadGet hd)
      end
  | LIterStep n acc snap =>
      if n <? length m then
        let nd := nth n m dlnode in
        let acc' := acc ++ [ldata nd] in
        match lnext nd with
        | None => Some (m, hd, ord, lfinish th (LRList acc'), LEGet n None)
        | Some n' => Some (m, hd, ord, lgoto th (LIterStep n' acc' snap), LEGet n (Some n'))
        end
      else Some (m, hd, ord, lpanic th, LEPanic)
  end.

Definition linit_thread (p : list lop) : lthread := mkLThread p LIdle [].
Definition linit (progs : list (list lop)) : lstate := mkLState [] None [] (map linit_thread progs).

Definition lstep (t : nat) (s : lstate) : option (lstate * levent) :=
  match nth_error (lthreads s) t with
  | None => None
  | Some th =>
      match lthread_step (lmem s) (lhead s) (lorder s) th with
      | None => None
      | Some (m', hd', ord', th', e) => Some (mkLState m' hd' ord' (upd (lthreads s) t th'), e)
      end
  end.

Fixpoint lrun (sched : list nat) (s : lstate) : lstate :=
  match sched with
  | [] => s
  | t :: rest =>
      match lstep t s with
      | None => lrun rest s
      | Some (s', _) => lrun rest s'
      end
  end.

Fixpoint lrun_trace (sched : list nat) (s : lstate) (acc : list levent) : lstate * list levent * bool :=
  match sched with
  | [] => (s, rev acc, true)
  | t :: rest =>
      match lstep t s with
      | None => (s, rev acc, false)
      | Some (s', e) => lrun_trace rest s' (e :: acc)
      end
  end.

(* specification: the content of the list, newest first *)
Definition lcontent (s : lstate) : list N := map (fun n => ldata (nth n (lmem s) dlnode)) (lorder s).
