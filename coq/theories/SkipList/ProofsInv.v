(* SkipList/ProofsInv.v — the invariants of the skiplist model and their preservation by every
   step of every thread (hence by every schedule). *)
From Coq Require Import NArith ZArith List Bool Arith Lia Permutation.
From Blue Require Import SkipList.Model SkipList.ProofsBase.
Import ListNotations.

(* extended key: the head sentinel is below every key *)
Definition ek (m : mem) (n : nat) : Z := if n =? 0 then (-1)%Z else Z.of_N (key_of m n).
(* node n has been published at level l *)
Definition linked (m : mem) (n l : nat) : Prop := l < lnk_of m n.

(* (I0) every published successor pointer leads to a published node with a larger key, and no
   published node of that level lies strictly between the two: the level chain is strictly
   sorted and contains every node published at that level.  (I1), "level l+1 is a sub-chain of
   level l", is `linked m n (S l) -> linked m n l`, immediate from the definition. *)
Definition chain_ok (m : mem) : Prop :=
  forall n l, linked m n l ->
    match next_of m n l with
    | None => forall q, linked m q l -> (ek m q <= ek m n)%Z
    | Some y => linked m y l /\ (ek m n < ek m y)%Z /\
                forall q, linked m q l -> ~ (ek m n < ek m q < ek m y)%Z
    end.

Definition keys_inj (m : mem) : Prop :=
  forall a b, 0 < a < length m -> 0 < b < length m -> key_of m a = key_of m b -> a = b.

Definition fresh (m : mem) (k : N) : Prop := forall n, 0 < n < length m -> key_of m n <> k.

Lemma ek_0 : forall m, ek m 0 = (-1)%Z.
Proof. reflexivity. Qed.

Lemma ek_nz : forall m n, n <> 0 -> ek m n = Z.of_N (key_of m n).
Proof. intros. unfold ek. destruct (Nat.eqb_spec n 0); congruence. Qed.

Lemma ek_ge : forall m n, (-1 <= ek m n)%Z.
Proof. intros. unfold ek. destruct (n =? 0); lia. Qed.

Lemma ek_pos_nz : forall m n, (0 <= ek m n)%Z -> n <> 0.
Proof. intros m n H E. subst. rewrite ek_0 in H. lia. Qed.

Lemma linked_mono : forall m n l l', linked m n l -> l' <= l -> linked m n l'.
Proof. unfold linked. intros. lia. Qed.

Lemma linked_lt : forall m n l, linked m n l -> n < length m.
Proof.
  unfold linked. intros m n l H. destruct (Nat.lt_ge_cases n (length m)); auto.
  rewrite lnk_oob in H; auto. lia.
Qed.

Section Inv.
Variable maxh : nat.


Record mem_inv (m : mem) : Prop := {
  mi_len : 1 <= length m;
  mi_head_h : height_of m 0 = maxh;
  mi_head_l : lnk_of m 0 = maxh;
  mi_lnk_h : forall n, lnk_of m n <= height_of m n;
  mi_h_max : forall n, height_of m n <= maxh;
  mi_inj : keys_inj m;
  mi_chain : chain_ok m }.

Lemma linked_height : forall m n l, mem_inv m -> linked m n l -> l < height_of m n.
Proof. unfold linked. intros m n l I H. pose proof (mi_lnk_h m I n). lia. Qed.

Lemma linked_maxh : forall m n l, mem_inv m -> linked m n l -> l < maxh.
Proof. intros m n l I H. pose proof (linked_height m n l I H). pose proof (mi_h_max m I n). lia. Qed.

Lemma head_linked : forall m l, mem_inv m -> l < maxh -> linked m 0 l.
Proof. unfold linked. intros m l I H. rewrite (mi_head_l m I). exact H. Qed.

Lemma ek_inj : forall m a b, mem_inv m -> a < length m -> b < length m -> ek m a = ek m b -> a = b.
Proof.
  intros m a b I Ha Hb E. destruct (Nat.eq_dec a 0) as [->|Na]; destruct (Nat.eq_dec b 0) as [->|Nb]; auto.
  - rewrite ek_0, ek_nz in E; auto. lia.
  - rewrite ek_0, ek_nz in E; auto. lia.
  - rewrite !ek_nz in E; auto. apply (mi_inj m I); try lia.
Qed.

(* what the steps of other threads may do to memory *)
Record mem_ext (m m' : mem) : Prop := {
  me_len : length m <= length m';
  me_key : forall n, n < length m -> key_of m' n = key_of m n;
  me_height : forall n, n < length m -> height_of m' n = height_of m n;
  me_lnk : forall n, lnk_of m n <= lnk_of m' n }.

Lemma mem_ext_refl : forall m, mem_ext m m.
Proof. intros. constructor; auto. Qed.

Lemma mem_ext_trans : forall a b c, mem_ext a b -> mem_ext b c -> mem_ext a c.
Proof.
  intros a b c [L1 K1 H1 N1] [L2 K2 H2 N2]. constructor.
  - lia.
  - intros n Hn. rewrite K2, K1; auto. lia.
  - intros n Hn. rewrite H2, H1; auto. lia.
  - intros n. specialize (N1 n). specialize (N2 n). lia.
Qed.

Lemma ext_ek : forall m m' n, mem_ext m m' -> n < length m -> ek m' n = ek m n.
Proof. intros m m' n E H. unfold ek. rewrite (me_key m m' E); auto. Qed.

Lemma ext_linked : forall m m' n l, mem_ext m m' -> linked m n l -> linked m' n l.
Proof. unfold linked. intros m m' n l E H. pose proof (me_lnk m m' E n). lia. Qed.

(* ------------------------------------------------------------------ keys0 *)
Lemma keys0_spec : forall m k, In k (keys0 m) <-> exists n, 0 < n < length m /\ linked m n 0 /\ key_of m n = k.
Proof.
  intros m k. unfold keys0. rewrite in_map_iff. split.
  - intros [nd [Hk Hin]]. apply filter_In in Hin. destruct Hin as [Hin Hl].
    destruct m as [|hd tl]; cbn in Hin; [contradiction|].
    apply In_nth with (d := dnode) in Hin. destruct Hin as [i [Hi Hnth]].
    exists (S i). cbn [length]. split; [lia|]. unfold linked, lnk_of, key_of, getn. cbn [nth]. rewrite Hnth.
    apply Nat.leb_le in Hl. split; [lia|auto].
  - intros [n [Hn [Hl Hk]]]. destruct m as [|hd tl]; cbn in Hn; [lia|].
    destruct n as [|i]; [lia|]. exists (nth i tl dnode).
    unfold linked, lnk_of, key_of, getn in *. cbn [nth] in *. split; auto.
    cbn [List.tl]. apply filter_In. split.
    + apply nth_In. lia.
    + apply Nat.leb_le. lia.
Qed.

Lemma keys0_ext : forall m m' k, mem_ext m m' -> In k (keys0 m) -> In k (keys0 m').
Proof.
  intros m m' k E H. apply keys0_spec in H. destruct H as [n [Hn [Hl Hk]]].
  apply keys0_spec. exists n. pose proof (me_len m m' E). split; [lia|]. split.
  - eapply ext_linked; eauto.
  - rewrite (me_key m m' E); auto. lia.
Qed.

(* ------------------------------------------------------------------ per-thread invariants *)
(* (I2) what an insert remembers about level l: its predecessor candidate is published at l and
   below the new key; the observed successor is null or above the new key *)
Definition slot_ok (m : mem) (k : N) (prev obs : list ptr) (l : nat) : Prop :=
  exists p, nth l prev None = Some p /\ linked m p l /\ (ek m p < Z.of_N k)%Z /\
    match nth l obs None with
    | None => True
    | Some o => o < length m /\ (Z.of_N k < ek m o)%Z
    end.

(* (I3) the node being inserted: allocated, published at exactly the levels below idx *)
Definition owns (m : mem) (x h idx : nat) : Prop :=
  x < length m /\ x <> 0 /\ height_of m x = h /\ lnk_of m x = idx /\ idx < h /\ h <= maxh.

Definition lens (prev obs : list ptr) : Prop := length prev = maxh /\ length obs = maxh.

Definition pc_inv (m : mem) (p : pc) : Prop :=
  match p with
  | PIdle => True
  | PPanic => False
  | PFindI k h x lvl prev obs =>
      lens prev obs /\ lvl < maxh /\ linked m x lvl /\ (ek m x < Z.of_N k)%Z /\ 1 <= h <= maxh /\ fresh m k /\
      forall l, lvl < l < maxh -> slot_ok m k prev obs l
  | PAlloc k h prev obs =>
      lens prev obs /\ 1 <= h <= maxh /\ fresh m k /\ forall l, l < maxh -> slot_ok m k prev obs l
  | PSet h x idx prev obs =>
      lens prev obs /\ owns m x h idx /\ forall l, idx <= l < maxh -> slot_ok m (key_of m x) prev obs l
  | PCas h x idx prev obs =>
      lens prev obs /\ owns m x h idx /\ (forall l, idx <= l < maxh -> slot_ok m (key_of m x) prev obs l) /\
      next_of m x idx = nth idx obs None
  | PAdv h x idx prev obs =>
      lens prev obs /\ owns m x h idx /\ forall l, idx <= l < maxh -> slot_ok m (key_of m x) prev obs l
  | PFindGE _ k x lvl => lvl < maxh /\ linked m x lvl /\ (ek m x < Z.of_N k)%Z
  | PFindLT k x lvl => lvl < maxh /\ linked m x lvl /\ (ek m x < Z.of_N k)%Z
  | PFindLast x lvl => lvl < maxh /\ linked m x lvl
  | PNext n => linked m n 0
  | PFirst => True
  end.

Definition owned (p : pc) : option (nat * nat) :=
  match p with
  | PSet _ x idx _ _ | PCas _ x idx _ _ | PAdv _ x idx _ _ => Some (x, idx)
  | _ => None
  end.

Definition pend (p : pc) : list N :=
  match p with
  | PFindI k _ _ _ _ _ | PAlloc k _ _ _ => [k]
  | _ => []
  end.

Fixpoint ins_keys (ops : list op) : list N :=
  match ops with
  | [] => []
  | OInsert k _ :: r => k :: ins_keys r
  | _ :: r => ins_keys r
  end.

Definition pend_keys (th : thread) : list N := pend (tpc th) ++ ins_keys (prog th).

Definition op_ok (o : op) : Prop :=
  match o with
  | OInsert _ h => 1 <= h <= maxh
  | _ => True
  end.

Record thread_inv (m : mem) (th : thread) : Prop := {
  ti_pc : pc_inv m (tpc th);
  ti_it : forall n, it th = Some n -> linked m n 0;
  ti_prog : Forall op_ok (prog th);
  ti_outs : forall k, In (RIns k) (outs th) -> In k (keys0 m);
  ti_nopanic : ~ In RPanic (outs th) }.

(* ------------------------------------------------------------------ stability *)
Lemma slot_ok_ext : forall m m' k prev obs l, mem_ext m m' -> slot_ok m k prev obs l -> slot_ok m' k prev obs l.
Proof.
  intros m m' k prev obs l E [p [Hp [Hl [Hk Ho]]]]. exists p. split; auto. split.
  - eapply ext_linked; eauto.
  - split.
    + rewrite (ext_ek m m'); auto. eapply linked_lt; eauto.
    + destruct (nth l obs None) as [o|]; auto. destruct Ho as [Ho1 Ho2]. split.
      * pose proof (me_len m m' E). lia.
      * rewrite (ext_ek m m'); auto.
Qed.

Lemma pc_inv_ext : forall m m' p, mem_ext m m' ->
  (forall x idx, owned p = Some (x, idx) -> lnk_of m' x = lnk_of m x /\ next_of m' x idx = next_of m x idx) ->
  (forall k, In k (pend p) -> fresh m' k) ->
  pc_inv m p -> pc_inv m' p.
Proof.
  intros m m' p E Hown Hfresh H.
  assert (OW : forall x h idx, owns m x h idx -> lnk_of m' x = lnk_of m x -> owns m' x h idx /\ key_of m' x = key_of m x).
  { intros x h idx [O1 [O2 [O3 [O4 [O5 O6]]]]] HL. split.
    - unfold owns. pose proof (me_len m m' E). rewrite (me_height m m' E); auto. repeat split; auto; lia.
    - apply (me_key m m' E); auto. }
  destruct p; cbn [pc_inv owned pend] in *; auto.
  - destruct H as [H0 [H1 [H2 [H3 [H4 [H5 H6]]]]]]. split; auto. split; auto. split; [eapply ext_linked; eauto|].
    split; [rewrite (ext_ek m m'); auto; eapply linked_lt; eauto|]. split; auto. split.
    + apply Hfresh. left. reflexivity.
    + intros l Hl. eapply slot_ok_ext; eauto.
  - destruct H as [H0 [H1 [H2 H3]]]. split; auto. split; auto. split.
    + apply Hfresh. left. reflexivity.
    + intros l Hl. eapply slot_ok_ext; eauto.
  - destruct H as [H0 [H1 H2]]. destruct (Hown x idx eq_refl) as [HL HN].
    destruct (OW _ _ _ H1 HL) as [O K]. split; auto. split; auto. intros l Hl. rewrite K. eapply slot_ok_ext; eauto.
  - destruct H as [H0 [H1 [H2 H3]]]. destruct (Hown x idx eq_refl) as [HL HN].
    destruct (OW _ _ _ H1 HL) as [O K]. split; auto. split; auto. split.
    + intros l Hl. rewrite K. eapply slot_ok_ext; eauto.
    + congruence.
  - destruct H as [H0 [H1 H2]]. destruct (Hown x idx eq_refl) as [HL HN].
    destruct (OW _ _ _ H1 HL) as [O K]. split; auto. split; auto. intros l Hl. rewrite K. eapply slot_ok_ext; eauto.
  - destruct H as [H1 [H2 H3]]. split; auto. split; [eapply ext_linked; eauto|].
    rewrite (ext_ek m m'); auto. eapply linked_lt; eauto.
  - destruct H as [H1 [H2 H3]]. split; auto. split; [eapply ext_linked; eauto|].
    rewrite (ext_ek m m'); auto. eapply linked_lt; eauto.
  - destruct H as [H1 H2]. split; auto. eapply ext_linked; eauto.
  - eapply ext_linked; eauto.
Qed.

Lemma thread_inv_ext : forall m m' th, mem_ext m m' ->
  (forall x idx, owned (tpc th) = Some (x, idx) -> lnk_of m' x = lnk_of m x /\ next_of m' x idx = next_of m x idx) ->
  (forall k, In k (pend (tpc th)) -> fresh m' k) ->
  thread_inv m th -> thread_inv m' th.
Proof.
  intros m m' th E Ho Hf [T1 T2 T3 T4 T5]. constructor; auto.
  - eapply pc_inv_ext; eauto.
  - intros n Hn. eapply ext_linked; eauto.
  - intros k Hk. eapply keys0_ext; eauto.
Qed.

(* ------------------------------------------------------------------ the three kinds of write *)
(* allocation of a node *)
Lemma alloc_ext : forall m nd, mem_ext m (m ++ [nd]).
Proof.
  intros m nd. constructor.
  - rewrite al_length. lia.
  - intros n Hn. unfold key_of. rewrite al_getn_old; auto.
  - intros n Hn. unfold height_of. rewrite al_getn_old; auto.
  - intros n. destruct (Nat.lt_ge_cases n (length m)).
    + unfold lnk_of. rewrite al_getn_old; auto.
    + rewrite lnk_oob; auto. lia.
Qed.

Lemma alloc_next_old : forall m nd n l, n < length m -> next_of (m ++ [nd]) n l = next_of m n l.
Proof. intros. unfold next_of. rewrite al_getn_old; auto. Qed.

Lemma alloc_lnk_old : forall m nd n, n < length m -> lnk_of (m ++ [nd]) n = lnk_of m n.
Proof. intros. unfold lnk_of. rewrite al_getn_old; auto. Qed.

Lemma alloc_linked : forall m k h q l, linked (m ++ [mkNode k (repeat None h) 0]) q l <-> linked m q l.
Proof.
  intros m k h q l. unfold linked. destruct (Nat.lt_ge_cases q (length m)) as [Hq|Hq].
  - rewrite alloc_lnk_old; auto. tauto.
  - rewrite (lnk_oob m q); auto. destruct (Nat.eq_dec q (length m)) as [->|Ne].
    + unfold lnk_of. rewrite al_getn_new. cbn. tauto.
    + rewrite lnk_oob; [tauto|]. rewrite al_length. lia.
Qed.

Lemma alloc_inv : forall m k h, mem_inv m -> fresh m k -> h <= maxh ->
  mem_inv (m ++ [mkNode k (repeat None h) 0]).
Proof.
  intros m k h I F Hh. set (nd := mkNode k (repeat None h) 0).
  pose proof (alloc_ext m nd) as E. pose proof (mi_len m I) as L.
  constructor.
  - rewrite al_length. lia.
  - rewrite (me_height _ _ E); [apply (mi_head_h m I)|lia].
  - rewrite alloc_lnk_old; [apply (mi_head_l m I)|lia].
  - intros n. destruct (Nat.lt_ge_cases n (length m)) as [Hn|Hn].
    + rewrite alloc_lnk_old, (me_height _ _ E); auto. apply (mi_lnk_h m I).
    + destruct (Nat.eq_dec n (length m)) as [->|Ne].
      * unfold lnk_of, height_of. rewrite al_getn_new. cbn. lia.
      * rewrite lnk_oob; [lia|]. rewrite al_length. lia.
  - intros n. destruct (Nat.lt_ge_cases n (length m)) as [Hn|Hn].
    + rewrite (me_height _ _ E); auto. apply (mi_h_max m I).
    + destruct (Nat.eq_dec n (length m)) as [->|Ne].
      * unfold height_of. rewrite al_getn_new. cbn. rewrite repeat_length. exact Hh.
      * rewrite height_oob; [lia|]. rewrite al_length. lia.
  - intros a b Ha Hb Hk. rewrite al_length in Ha, Hb.
    assert (KN : key_of (m ++ [nd]) (length m) = k). { unfold key_of. rewrite al_getn_new. reflexivity. }
    destruct (Nat.eq_dec a (length m)) as [->|Na]; destruct (Nat.eq_dec b (length m)) as [->|Nb]; auto.
    + rewrite KN, (me_key _ _ E) in Hk; [|lia]. exfalso. apply (F b); [lia|auto].
    + rewrite KN, (me_key _ _ E) in Hk; [|lia]. exfalso. apply (F a); [lia|auto].
    + rewrite !(me_key _ _ E) in Hk; try lia. apply (mi_inj m I); auto; lia.
  - intros n l Hl. apply alloc_linked in Hl. pose proof (linked_lt _ _ _ Hl) as Hn.
    rewrite alloc_next_old; auto. pose proof (mi_chain m I n l Hl) as C.
    destruct (next_of m n l) as [y|].
    + destruct C as [C1 [C2 C3]]. pose proof (linked_lt _ _ _ C1) as Hy. split; [apply alloc_linked; auto|].
      rewrite !(ext_ek m _ _ E); auto. split; auto.
      intros q Hq. apply alloc_linked in Hq. rewrite (ext_ek m _ q E); [|eapply linked_lt; eauto]. auto.
    + intros q Hq. apply alloc_linked in Hq. rewrite !(ext_ek m _ _ E); auto. eapply linked_lt; eauto.
Qed.

(* set_next on a cell that is not published *)
Lemma wr_ext : forall m n l v, n < length m -> l < height_of m n -> mem_ext m (wr m n l v).
Proof.
  intros m n l v Hn Hl. constructor.
  - rewrite wr_length. lia.
  - intros a _. apply wr_key; auto.
  - intros a _. apply wr_height; auto.
  - intros a. rewrite wr_lnk; auto.
Qed.

Lemma wr_inv : forall m x idx v, mem_inv m -> x < length m -> lnk_of m x <= idx -> idx < height_of m x ->
  mem_inv (wr m x idx v).
Proof.
  intros m x idx v I Hx Hl Hh. pose proof (wr_ext m x idx v Hx Hh) as E.
  assert (LK : forall q l, linked (wr m x idx v) q l <-> linked m q l).
  { intros q l. unfold linked. rewrite wr_lnk; auto. tauto. }
  assert (EK : forall q, ek (wr m x idx v) q = ek m q).
  { intros q. unfold ek. rewrite wr_key; auto. }
  constructor.
  - rewrite wr_length. apply (mi_len m I).
  - rewrite wr_height; auto. apply (mi_head_h m I).
  - rewrite wr_lnk; auto. apply (mi_head_l m I).
  - intros n. rewrite wr_lnk, wr_height; auto. apply (mi_lnk_h m I).
  - intros n. rewrite wr_height; auto. apply (mi_h_max m I).
  - intros a b Ha Hb. rewrite wr_length in Ha, Hb. rewrite !wr_key; auto. apply (mi_inj m I); auto.
  - intros n l Hnl. apply LK in Hnl.
    assert (NE : n <> x \/ l <> idx). { unfold linked in Hnl. destruct (Nat.eq_dec n x); [subst; right; lia|auto]. }
    rewrite wr_next_other; auto. pose proof (mi_chain m I n l Hnl) as C.
    destruct (next_of m n l) as [y|].
    + destruct C as [C1 [C2 C3]]. split; [apply LK; auto|]. rewrite !EK. split; auto.
      intros q Hq. apply LK in Hq. rewrite EK. auto.
    + intros q Hq. apply LK in Hq. rewrite !EK. auto.
Qed.

(* a successful cas_next: splice x between p and its observed successor *)
Definition splice (m : mem) (p idx x : nat) : mem := set_lnk (wr m p idx (Some x)) x (S idx).

Section Splice.
Variables (m : mem) (p idx x : nat).
Hypothesis I : mem_inv m.
Hypothesis Hp : linked m p idx.
Hypothesis Hx : x < length m.
Hypothesis Hx0 : x <> 0.
Hypothesis Hxl : lnk_of m x = idx.
Hypothesis Hxh : idx < height_of m x.

Let m' := splice m p idx x.
Let Hpl : p < length m := linked_lt _ _ _ Hp.
Let Hph : idx < height_of m p := linked_height _ _ _ I Hp.

Lemma sp_px : p <> x.
Proof. intro E. subst p. unfold linked in Hp. lia. Qed.

Lemma sp_length : length m' = length m.
Proof. unfold m', splice. rewrite sl_length, wr_length; auto. Qed.

Lemma sp_key : forall a, key_of m' a = key_of m a.
Proof. intros. unfold m', splice. rewrite sl_key, wr_key; auto; try (rewrite wr_length; auto). Qed.

Lemma sp_height : forall a, height_of m' a = height_of m a.
Proof. intros. unfold m', splice. rewrite sl_height, wr_height; auto; try (rewrite wr_length; auto). Qed.

Lemma sp_ek : forall a, ek m' a = ek m a.
Proof. intros. unfold ek. rewrite sp_key. reflexivity. Qed.

Lemma sp_lnk_x : lnk_of m' x = S idx.
Proof. unfold m', splice. apply sl_lnk_same. rewrite wr_length. auto. Qed.

Lemma sp_lnk_other : forall a, a <> x -> lnk_of m' a = lnk_of m a.
Proof. intros. unfold m', splice. rewrite sl_lnk_other, wr_lnk; auto; try (rewrite wr_length; auto). Qed.

Lemma sp_next_p : next_of m' p idx = Some x.
Proof. unfold m', splice. rewrite sl_next; [|rewrite wr_length; auto]. apply wr_next_same; auto. Qed.

Lemma sp_next_other : forall a b, (a <> p \/ b <> idx) -> next_of m' a b = next_of m a b.
Proof. intros. unfold m', splice. rewrite sl_next; [|rewrite wr_length; auto]. apply wr_next_other; auto. Qed.

Lemma sp_linked : forall q l, linked m' q l <-> (linked m q l \/ (q = x /\ l = idx)).
Proof.
  intros q l. unfold linked. destruct (Nat.eq_dec q x) as [->|Ne].
  - rewrite sp_lnk_x, Hxl. lia.
  - rewrite sp_lnk_other; auto. split; auto. intros [H|[H _]]; auto. contradiction.
Qed.

Lemma sp_ext : mem_ext m m'.
Proof.
  constructor.
  - rewrite sp_length. lia.
  - intros. apply sp_key.
  - intros. apply sp_height.
  - intros n. destruct (Nat.eq_dec n x) as [->|Ne].
    + rewrite sp_lnk_x. lia.
    + rewrite sp_lnk_other; auto.
Qed.

Hypothesis Hpx : (ek m p < ek m x)%Z.
Hypothesis Hnx : next_of m x idx = next_of m p idx.
Hypothesis Hxo : match next_of m p idx with None => True | Some o => (ek m x < ek m o)%Z end.

Lemma sp_inv : mem_inv m'.
Proof.
  pose proof sp_px as PX.
  constructor.
  - rewrite sp_length. apply (mi_len m I).
  - rewrite sp_height. apply (mi_head_h m I).
  - rewrite sp_lnk_other; auto. apply (mi_head_l m I).
  - intros n. rewrite sp_height. destruct (Nat.eq_dec n x) as [->|Ne].
    + rewrite sp_lnk_x. lia.
    + rewrite sp_lnk_other; auto. apply (mi_lnk_h m I).
  - intros n. rewrite sp_height. apply (mi_h_max m I).
  - intros a b Ha Hb. rewrite sp_length in Ha, Hb. rewrite !sp_key. apply (mi_inj m I); auto.
  - (* the chains *)
    assert (INJ : forall a b, linked m a idx -> b < length m -> ek m a = ek m b -> a = b).
    { intros a b Ha Hb. apply (ek_inj m a b I); auto. eapply linked_lt; eauto. }
    pose proof (mi_chain m I p idx Hp) as CP.
    intros n l Hnl. apply sp_linked in Hnl.
    destruct (Nat.eq_dec l idx) as [->|Nl].
    + (* the level of the splice *)
      destruct (Nat.eq_dec n p) as [->|Np].
      * rewrite sp_next_p. split; [apply sp_linked; auto|]. rewrite !sp_ek. split; auto.
        intros q Hq. apply sp_linked in Hq. rewrite sp_ek. destruct Hq as [Hq|[-> _]]; [|lia].
        destruct (next_of m p idx) as [o|].
        -- destruct CP as [_ [_ C3]]. specialize (C3 q Hq). lia.
        -- specialize (CP q Hq). lia.
      * rewrite sp_next_other; auto.
        destruct Hnl as [Hnl|[-> _]].
        -- (* an old node of this level *)
           assert (NX : n <> x). { intro E. subst n. unfold linked in Hnl. lia. }
           assert (NPK : ek m n <> ek m p). { intro E. apply Np. apply INJ; auto. }
           pose proof (mi_chain m I n idx Hnl) as CN.
           destruct (next_of m n idx) as [y|].
           ++ destruct CN as [C1 [C2 C3]]. split; [apply sp_linked; auto|]. rewrite !sp_ek. split; auto.
              intros q Hq. apply sp_linked in Hq. rewrite sp_ek. destruct Hq as [Hq|[-> _]]; auto.
              intro B. destruct (Z.lt_ge_cases (ek m p) (ek m n)) as [Lt|Ge].
              ** destruct (next_of m p idx) as [o|].
                 --- destruct CP as [_ [_ CP3]]. specialize (CP3 n Hnl). lia.
                 --- specialize (CP n Hnl). lia.
              ** specialize (C3 p Hp). lia.
           ++ intros q Hq. apply sp_linked in Hq. rewrite !sp_ek. destruct Hq as [Hq|[-> _]]; auto.
              pose proof (CN p Hp) as Lp.
              destruct (next_of m p idx) as [o|].
              ** destruct CP as [CP1 [_ CP3]]. specialize (CP3 n Hnl). specialize (CN o CP1). lia.
              ** specialize (CP n Hnl). lia.
        -- (* the new node *)
           rewrite Hnx.
           destruct (next_of m p idx) as [o|].
           ++ destruct CP as [CP1 [CP2 CP3]]. split; [apply sp_linked; auto|]. rewrite !sp_ek. split; auto.
              intros q Hq. apply sp_linked in Hq. rewrite sp_ek. destruct Hq as [Hq|[-> _]]; [|lia].
              specialize (CP3 q Hq). lia.
           ++ intros q Hq. apply sp_linked in Hq. rewrite !sp_ek. destruct Hq as [Hq|[-> _]]; [|lia].
              specialize (CP q Hq). lia.
    + (* every other level is untouched *)
      assert (Hnl' : linked m n l). { destruct Hnl as [H|[_ H]]; auto. contradiction. }
      rewrite sp_next_other; auto. pose proof (mi_chain m I n l Hnl') as C.
      assert (LK : forall q, linked m' q l <-> linked m q l).
      { intros q. rewrite sp_linked. split; auto. intros [H|[_ H]]; auto. contradiction. }
      destruct (next_of m n l) as [y|].
      * destruct C as [C1 [C2 C3]]. split; [apply LK; auto|]. rewrite !sp_ek. split; auto.
        intros q Hq. apply LK in Hq. rewrite sp_ek. auto.
      * intros q Hq. apply LK in Hq. rewrite !sp_ek. auto.
Qed.
End Splice.

End Inv.
