(* SkipList/ModelOwn.v — node ownership on top of the small-step skiplist model (definitions only).

   skipfree after the fix for F4: the nodes are owned by a `Body` that the `SkipList` and every
   `SkipListIterator` (and every clone of one: `#[derive(Clone)]` copies the `Arc` along with the
   raw node pointer) hold through the same `Arc`; `Body::drop` — the only code that frees nodes —
   runs when the LAST holder goes away.  Here every thread of Model.v holds one handle (its share
   of the list, or its iterator).  Besides the steps of Model.v (`ARun`) a schedule may contain
   `ADrop t` (thread t lets its handle go; only between operations, because every operation
   borrows the handle) and `AClone t p` (thread t clones its iterator: a new thread with a new
   handle, standing where t's iterator stands, that will run the iterator operations p).
   A thread without a handle cannot run (Rust's ownership rules: `OStuck`, not an event).
   When the last handle is dropped the nodes are freed (`ofreed`); a step of Model.v taken while
   the nodes are freed would dereference freed memory: `OUaf`.

   `fixed = false` is the code BEFORE the fix: `SkipList::drop` (thread 0 is the owner of the
   list) freed the nodes whatever other handles existed. *)
From Coq Require Import NArith List Bool Arith.
From Blue Require Import SkipList.Model.
Import ListNotations.

Record ostate := mkO { obase : state; oholds : list bool; ofreed : bool }.

Inductive oact :=
| ARun (t : nat)
| ADrop (t : nat)
| AClone (t : nat) (p : list op).

Inductive oout :=
| OOk (e : event)
| ODrop (frees : bool)
| OCloned
| OStuck
| OUaf.

Definition is_insert (o : op) : bool := match o with OInsert _ _ => true | _ => false end.
Definition idle (th : thread) : bool := match tpc th with PIdle => true | _ => false end.

Section Own.
Variable maxh : nat.
Variable fixed : bool.

Definition ostep (s : ostate) (a : oact) : ostate * oout :=
  match a with
  | ARun t =>
      if nth t (oholds s) false then
        if ofreed s then (s, OUaf)
        else
          match step maxh t (obase s) with
          | Some (b', e) => (mkO b' (oholds s) false, OOk e)
          | None => (s, OStuck)
          end
      else (s, OStuck)
  | ADrop t =>
      match nth_error (sthreads (obase s)) t with
      | Some th =>
          if nth t (oholds s) false && idle th then
            let h' := upd (oholds s) t false in
            let frees := if fixed then negb (existsb (fun b => b) h') else (Nat.eqb t 0 || negb (existsb (fun b => b) h')) in
            (mkO (obase s) h' (ofreed s || frees), ODrop frees)
          else (s, OStuck)
      | None => (s, OStuck)
      end
  | AClone t p =>
      match nth_error (sthreads (obase s)) t with
      | Some th =>
          if nth t (oholds s) false && idle th && negb (existsb is_insert p) then
            if ofreed s then (s, OUaf)
            else
              (mkO (mkState (smem (obase s)) (sthreads (obase s) ++ [mkThread p PIdle (it th) []]))
                   (oholds s ++ [true]) false, OCloned)
          else (s, OStuck)
      | None => (s, OStuck)
      end
  end.

Fixpoint orun (s : ostate) (acts : list oact) : ostate * list oout :=
  match acts with
  | [] => (s, [])
  | a :: r =>
      let '(s1, o) := ostep s a in
      let '(s2, os) := orun s1 r in (s2, o :: os)
  end.

Definition oinit (progs : list (list op)) : ostate :=
  mkO (init maxh progs) (repeat true (length progs)) false.

End Own.
