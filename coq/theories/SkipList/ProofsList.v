(* SkipList/ProofsList.v — invariants of the prepend-only list model (listfree) over all schedules,
   and their consequences: no prepend is lost, every iteration yields the content of the list at
   the moment it loaded the head: newest first, each element once. *)
From Coq Require Import NArith List Bool Arith Lia Permutation.
From Blue Require Import SkipList.Model SkipList.ModelList SkipList.ProofsBase SkipList.ProofsGlobal.
Import ListNotations.

Definition ldat (m : list lnode) (n : nat) : N := ldata (nth n m dlnode).
Definition lnx (m : list lnode) (n : nat) : ptr := lnext (nth n m dlnode).

(* following the successor pointers from p visits exactly the nodes of ord, in order *)
Fixpoint linked_as (m : list lnode) (p : ptr) (ord : list nat) : Prop :=
  match ord with
  | [] => p = None
  | n :: r => p = Some n /\ n < length m /\ linked_as m (lnx m n) r
  end.

Definition suffix {A} (a b : list A) : Prop := exists pre, b = pre ++ a.

Lemma suffix_refl : forall A (a : list A), suffix a a.
Proof. intros. exists []. reflexivity. Qed.

Lemma suffix_trans : forall A (a b c : list A), suffix a b -> suffix b c -> suffix a c.
Proof. intros A a b c [p ->] [q ->]. exists (q ++ p). rewrite app_assoc. reflexivity. Qed.

Lemma suffix_cons : forall A (a b : list A) x, suffix a b -> suffix a (x :: b).
Proof. intros A a b x [p ->]. exists (x :: p). reflexivity. Qed.

Lemma suffix_in : forall A (a b : list A) x, suffix a b -> In x a -> In x b.
Proof. intros A a b x [p ->] H. apply in_or_app. right. exact H. Qed.

Lemma suffix_nodup : forall A (a b : list A), suffix a b -> NoDup b -> NoDup a.
Proof. intros A a b [p ->] H. eapply nodup_app_r; eauto. Qed.

Definition lowned (p : lpc) : option nat :=
  match p with
  | LLoad n | LSet n _ | LCas n _ => Some n
  | _ => None
  end.

Definition lpc_inv (m : list lnode) (ord : list nat) (p : lpc) : Prop :=
  match p with
  | LIdle | LAlloc _ | LIterLoad => True
  | LPanic => False
  | LLoad n | LSet n _ => n < length m /\ ~ In n ord
  | LCas n h => n < length m /\ ~ In n ord /\ lnx m n = h
  | LIterStep n acc snap =>
      (* the iterator walks a suffix of the published order: snap is the data of that suffix,
         acc the data of the part already visited *)
      exists pre0 pre1 post, ord = pre0 ++ pre1 ++ n :: post /\
        acc = map (ldat m) pre1 /\ snap = map (ldat m) (pre1 ++ n :: post)
  end.

Fixpoint pre_data (ops : list lop) : list N :=
  match ops with
  | [] => []
  | LPrepend d :: r => d :: pre_data r
  | _ :: r => pre_data r
  end.
Definition lpend (th : lthread) : list N :=
  match ltpc th with LAlloc d => [d] | _ => [] end ++ pre_data (lprog th).

Record lthread_inv (m : list lnode) (ord : list nat) (th : lthread) : Prop := {
  lt_pc : lpc_inv m ord (ltpc th);
  lt_outs : forall d, In (LRPrepended d) (louts th) -> In d (map (ldat m) ord);
  lt_np : ~ In LRPanic (louts th) }.

Section ListInv.
Variable D0 : list N.

Record linv (s : lstate) : Prop := {
  li_chain : linked_as (lmem s) (lhead s) (lorder s);
  li_nodup : NoDup (lorder s);
  li_threads : forall i th, nth_error (lthreads s) i = Some th -> lthread_inv (lmem s) (lorder s) th;
  li_own : forall i j thi thj n, i <> j ->
      nth_error (lthreads s) i = Some thi -> nth_error (lthreads s) j = Some thj ->
      lowned (ltpc thi) = Some n -> lowned (ltpc thj) = Some n -> False;
  li_data : Permutation (map ldata (lmem s) ++ flat_map lpend (lthreads s)) D0 }.

(* memory changes that leave the published chain alone: the node w (if any) is the only one whose
   successor may change; data never changes; nodes are only added *)
Definition lmem_ok (m m' : list lnode) (w : option nat) : Prop :=
  length m <= length m' /\
  forall n, n < length m -> ldat m' n = ldat m n /\ (Some n <> w -> lnx m' n = lnx m n).

Lemma linked_as_lt : forall m ord p n, linked_as m p ord -> In n ord -> n < length m.
Proof.
  induction ord as [|a r IH]; intros p n H Hin; [contradiction|].
  destruct H as [_ [Ha Hr]]. destruct Hin as [<-|Hin]; auto. eapply IH; eauto.
Qed.

Lemma linked_as_ok : forall m m' w ord p, lmem_ok m m' w ->
  (forall n, w = Some n -> ~ In n ord) -> linked_as m p ord -> linked_as m' p ord.
Proof.
  intros m m' w ord. revert m m' w. induction ord as [|a r IH]; intros m m' w p OK Hw H; cbn in *; auto.
  destruct H as [Hp [Ha Hr]]. destruct OK as [L F]. split; auto. split; [lia|].
  destruct (F a Ha) as [_ Fn]. rewrite Fn.
  - apply (IH m m' w (lnx m a)); [split; auto | intros n Hn Hin; apply (Hw n Hn); right; exact Hin | exact Hr].
  - intro E. apply (Hw a); auto.
Qed.

Lemma map_ldat_ok : forall m m' w ord p, lmem_ok m m' w -> linked_as m p ord ->
  map (ldat m') ord = map (ldat m) ord.
Proof.
  intros m m' w ord p [L F] H. apply map_ext_in. intros n Hn.
  apply F. eapply linked_as_lt; eauto.
Qed.

Lemma lpc_inv_ok : forall m m' w ord hd p, lmem_ok m m' w -> linked_as m hd ord ->
  (forall n, lowned p = Some n -> w <> Some n) ->
  lpc_inv m ord p -> lpc_inv m' ord p.
Proof.
  intros m m' w ord hd p OK LA Hw H. pose proof OK as [L F]. destruct p; cbn in *; auto.
  - destruct H as [H1 H2]. split; auto. lia.
  - destruct H as [H1 H2]. split; auto. lia.
  - destruct H as [H1 [H2 H3]]. split; [lia|]. split; auto.
    destruct (F n H1) as [_ Fn]. rewrite Fn; auto. intro E. apply (Hw n); auto.
  - destruct H as [pre0 [pre1 [post [E1 [E2 E3]]]]]. exists pre0, pre1, post. split; auto.
    assert (EQ : forall l, incl l ord -> map (ldat m') l = map (ldat m) l).
    { intros l Hl. apply map_ext_in. intros a Ha. apply F. eapply linked_as_lt; eauto. }
    split.
    + rewrite E2. symmetry. apply EQ. rewrite E1. intros a Ha. apply in_or_app. right. apply in_or_app. left. exact Ha.
    + rewrite E3. symmetry. apply EQ. rewrite E1. intros a Ha. apply in_or_app. right. exact Ha.
Qed.

Lemma lthread_inv_ok : forall m m' w ord hd th, lmem_ok m m' w -> linked_as m hd ord ->
  (forall n, lowned (ltpc th) = Some n -> w <> Some n) ->
  lthread_inv m ord th -> lthread_inv m' ord th.
Proof.
  intros m m' w ord hd th OK LA Hw [T1 T2 T3]. constructor; auto.
  - eapply lpc_inv_ok; eauto.
  - intros d Hd. rewrite (map_ldat_ok m m' w ord hd); auto.
Qed.

(* publishing node n at the front *)
Lemma lpc_inv_push : forall m ord n p, lpc_inv m ord p -> lowned p <> Some n -> lpc_inv m (n :: ord) p.
Proof.
  intros m ord n p H Hn. destruct p; cbn in *; auto.
  - destruct H as [H1 H2]. split; auto. intros [E|E]; [apply Hn; congruence|auto].
  - destruct H as [H1 H2]. split; auto. intros [E|E]; [apply Hn; congruence|auto].
  - destruct H as [H1 [H2 H3]]. split; auto. split; auto. intros [E|E]; [apply Hn; congruence|auto].
  - destruct H as [pre0 [pre1 [post [E1 E2]]]]. exists (n :: pre0), pre1, post. split; auto. rewrite E1. reflexivity.
Qed.

Lemma map_ldata_upd : forall (m : list lnode) n nd, ldata nd = ldata (nth n m dlnode) ->
  map ldata (upd m n nd) = map ldata m.
Proof.
  induction m as [|a t IH]; intros [|n] nd H; cbn in *; auto.
  - rewrite H. reflexivity.
  - f_equal. apply IH. exact H.
Qed.

Lemma lset_ok : forall m n h, n < length m ->
  lmem_ok m (upd m n (mkLNode (ldata (nth n m dlnode)) h)) (Some n).
Proof.
  intros m n h Hn. split; [rewrite upd_length; lia|]. intros a Ha. unfold ldat, lnx.
  destruct (Nat.eq_dec a n) as [->|Ne].
  - rewrite nth_upd_same; auto. cbn. split; auto. intro E. exfalso. apply E. reflexivity.
  - rewrite nth_upd_other; auto.
Qed.

Lemma lalloc_ok : forall m nd, lmem_ok m (m ++ [nd]) None.
Proof.
  intros m nd. split; [rewrite app_length; cbn; lia|]. intros a Ha. unfold ldat, lnx.
  rewrite app_nth1; auto.
Qed.

Theorem lstep_inv : forall s t s' e, linv s -> lstep t s = Some (s', e) -> linv s'.
Proof.
  intros s t s' e I H. unfold lstep in H.
  destruct (nth_error (lthreads s) t) as [th|] eqn:Ht; [|discriminate].
  destruct (lthread_step (lmem s) (lhead s) (lorder s) th) as [[[[[m' hd'] ord'] th'] e']|] eqn:Hs; [|discriminate].
  inversion H; subst s' e'. clear H.
  pose proof (li_threads s I t th Ht) as T. pose proof T as [T1 T2 T3].
  pose proof (nth_error_Some_lt _ _ _ _ Ht) as Lt.
  pose proof (li_chain s I) as LA.
  (* the other threads: same order, memory changed within lmem_ok *)
  assert (OTH : forall w, lmem_ok (lmem s) m' w -> ord' = lorder s ->
            (forall n, w = Some n -> lowned (ltpc th) = Some n) ->
            forall i thi, i <> t -> nth_error (lthreads s) i = Some thi -> lthread_inv m' ord' thi).
  { intros w OK -> Hw i thi Ne Hi. eapply lthread_inv_ok; eauto.
    - intros n Hn E. subst w. eapply (li_own s I i t); eauto.
    - apply (li_threads s I i thi Hi). }
  assert (OWN : forall th1, (forall n, lowned (ltpc th1) = Some n -> lowned (ltpc th) = Some n \/ length (lmem s) <= n) ->
            forall i j thi thj n, i <> j ->
            nth_error (upd (lthreads s) t th1) i = Some thi -> nth_error (upd (lthreads s) t th1) j = Some thj ->
            lowned (ltpc thi) = Some n -> lowned (ltpc thj) = Some n -> False).
  { intros th1 H1 i j thi thj n Ne Hi Hj Oi Oj.
    assert (OLD : forall i0 th0 n0, nth_error (lthreads s) i0 = Some th0 -> lowned (ltpc th0) = Some n0 -> n0 < length (lmem s)).
    { intros i0 th0 n0 H0 O0. pose proof (lt_pc _ _ _ (li_threads s I i0 th0 H0)) as P0.
      destruct (ltpc th0); cbn in O0; try discriminate; inversion O0; subst; cbn in P0; tauto. }
    destruct (Nat.eq_dec i t) as [->|Ni]; destruct (Nat.eq_dec j t) as [->|Nj]; try lia.
    - rewrite nth_error_upd_same in Hi; auto. inversion Hi; subst thi.
      rewrite nth_error_upd_other in Hj; auto. destruct (H1 n Oi) as [O|Ge].
      + eapply (li_own s I t j); eauto.
      + pose proof (OLD j thj n Hj Oj). lia.
    - rewrite nth_error_upd_same in Hj; auto. inversion Hj; subst thj.
      rewrite nth_error_upd_other in Hi; auto. destruct (H1 n Oj) as [O|Ge].
      + eapply (li_own s I i t); eauto.
      + pose proof (OLD i thi n Hi Oi). lia.
    - rewrite nth_error_upd_other in Hi, Hj; auto. eapply (li_own s I i j); eauto. }
  assert (THS : forall th1, lthread_inv m' ord' th1 ->
            (forall i thi, i <> t -> nth_error (lthreads s) i = Some thi -> lthread_inv m' ord' thi) ->
            forall i thi, nth_error (upd (lthreads s) t th1) i = Some thi -> lthread_inv m' ord' thi).
  { intros th1 H1 H2 i thi Hi. destruct (Nat.eq_dec i t) as [->|Ne].
    - rewrite nth_error_upd_same in Hi; auto. inversion Hi; subst. exact H1.
    - rewrite nth_error_upd_other in Hi; auto. eapply H2; eauto. }
  assert (SAME : forall th1, lpend th1 = lpend th ->
            Permutation (map ldata (lmem s) ++ flat_map lpend (upd (lthreads s) t th1)) D0).
  { intros th1 E. erewrite flat_map_upd_same; eauto. apply (li_data s I). }
  assert (OKN : lmem_ok (lmem s) (lmem s) None).
  { split; auto. }
  unfold lthread_step in Hs. destruct (ltpc th) eqn:Hpc; cbn [lpc_inv] in T1.
  - (* begin *)
    destruct (lprog th) as [|o rest] eqn:Hprog; [discriminate|].
    destruct o; inversion Hs; subst m' hd' ord' th' e; clear Hs; constructor; cbn [lmem lhead lorder lthreads].
    + exact LA.
    + apply (li_nodup s I).
    + apply THS; [constructor; cbn; auto|]. apply (OTH None); auto; discriminate.
    + apply OWN. cbn. discriminate.
    + apply SAME. unfold lpend. cbn. rewrite Hpc, Hprog. reflexivity.
    + exact LA.
    + apply (li_nodup s I).
    + apply THS; [constructor; cbn; auto|]. apply (OTH None); auto; discriminate.
    + apply OWN. cbn. discriminate.
    + apply SAME. unfold lpend. cbn. rewrite Hpc, Hprog. reflexivity.
  - (* alloc *)
    inversion Hs; subst m' hd' ord' th' e; clear Hs.
    pose proof (lalloc_ok (lmem s) (mkLNode d None)) as OK.
    constructor; cbn [lmem lhead lorder lthreads].
    + eapply linked_as_ok; eauto. discriminate.
    + apply (li_nodup s I).
    + apply THS.
      * constructor; cbn; auto.
        -- rewrite app_length. cbn. split; [lia|]. intro Hin.
           pose proof (linked_as_lt _ _ _ _ LA Hin). lia.
        -- intros d0 Hd. rewrite (map_ldat_ok _ _ None _ _ OK LA). auto.
      * apply (OTH None); auto; discriminate.
    + apply OWN. cbn. intros n Hn. inversion Hn. right. lia.
    + rewrite map_app. cbn [map ldata]. rewrite <- app_assoc.
      eapply Permutation_trans; [|apply (li_data s I)]. apply Permutation_app_head. cbn.
      apply Permutation_sym. eapply flat_map_upd_cons; eauto.
      unfold lpend. cbn. rewrite Hpc. reflexivity.
  - (* load the head *)
    inversion Hs; subst m' hd' ord' th' e; clear Hs. constructor; cbn [lmem lhead lorder lthreads].
    + exact LA.
    + apply (li_nodup s I).
    + apply THS; [constructor; cbn; auto|]. apply (OTH None); auto; discriminate.
    + apply OWN. cbn. intros n0 Hn. left. exact Hn.
    + apply SAME. unfold lpend. cbn. rewrite Hpc. reflexivity.
  - (* set_next *)
    destruct T1 as [T1a T1b]. assert (Hlt : (n <? length (lmem s)) = true) by (apply Nat.ltb_lt; auto).
    rewrite Hlt in Hs. inversion Hs; subst m' hd' ord' th' e; clear Hs.
    pose proof (lset_ok (lmem s) n h T1a) as OK.
    constructor; cbn [lmem lhead lorder lthreads].
    + eapply linked_as_ok; eauto. intros n0 E. inversion E; subst. exact T1b.
    + apply (li_nodup s I).
    + apply THS.
      * constructor; cbn; auto.
        -- rewrite upd_length. split; auto. split; auto. unfold lnx. rewrite nth_upd_same; auto.
        -- intros d0 Hd. rewrite (map_ldat_ok _ _ (Some n) _ _ OK LA). auto.
      * apply (OTH (Some n)); auto; intros n0 E; inversion E; subst; reflexivity.
    + apply OWN. cbn. intros n0 Hn. left. exact Hn.
    + rewrite map_ldata_upd; auto. apply SAME. unfold lpend. cbn. rewrite Hpc. reflexivity.
  - (* compare-exchange on the head *)
    destruct T1 as [T1a [T1b T1c]].
    destruct (ptr_eqb (lhead s) h) eqn:Eq; inversion Hs; subst m' hd' ord' th' e; clear Hs.
    + apply ptr_eqb_eq in Eq.
      constructor; cbn [lmem lhead lorder lthreads].
      * cbn. split; auto. split; auto. rewrite T1c, <- Eq. exact LA.
      * constructor; auto. apply (li_nodup s I).
      * apply THS.
        -- constructor; cbn; auto.
           ++ intros d Hd. apply in_app_or in Hd. destruct Hd as [Hd|[Hd|[]]].
              ** right. apply T2. exact Hd.
              ** inversion Hd. left. reflexivity.
           ++ intro Hd. apply in_app_or in Hd. destruct Hd as [Hd|[Hd|[]]]; auto. discriminate.
        -- intros i thi Ne Hi. pose proof (li_threads s I i thi Hi) as [U1 U2 U3]. constructor; auto.
           ++ apply lpc_inv_push; auto. intro E. eapply (li_own s I i t); eauto. rewrite Hpc. reflexivity.
           ++ intros d Hd. right. apply U2. exact Hd.
      * apply OWN. cbn. discriminate.
      * apply SAME. unfold lpend. cbn. rewrite Hpc. reflexivity.
    + constructor; cbn [lmem lhead lorder lthreads].
      * exact LA.
      * apply (li_nodup s I).
      * apply THS; [constructor; cbn; auto|]. apply (OTH None); auto; discriminate.
      * apply OWN. cbn. intros n0 Hn. left. exact Hn.
      * apply SAME. unfold lpend. cbn. rewrite Hpc. reflexivity.
  - (* iter: load the head *)
    destruct (lhead s) as [n|] eqn:Hh; inversion Hs; subst m' hd' ord' th' e; clear Hs;
      constructor; cbn [lmem lhead lorder lthreads].
    + first [exact LA | rewrite Hh; exact LA | rewrite <- Hh; exact LA].
    + apply (li_nodup s I).
    + apply THS; [|apply (OTH None); auto; discriminate]. constructor; cbn; auto.
      destruct (lorder s) as [|a r] eqn:Ho; cbn in LA; [try rewrite Hh in LA; discriminate|].
      try rewrite Hh in LA. destruct LA as [E _]. inversion E; subst a. exists [], [], r. split; auto.
    + apply OWN. cbn. discriminate.
    + apply SAME. unfold lpend. cbn. rewrite Hpc. reflexivity.
    + first [exact LA | rewrite Hh; exact LA | rewrite <- Hh; exact LA].
    + apply (li_nodup s I).
    + apply THS; [|apply (OTH None); auto; discriminate]. constructor; cbn; auto.
      * intros d Hd. apply in_app_or in Hd. destruct Hd as [Hd|[Hd|[]]]; auto. discriminate.
      * intro Hd. apply in_app_or in Hd. destruct Hd as [Hd|[Hd|[]]]; auto. discriminate.
    + apply OWN. cbn. discriminate.
    + apply SAME. unfold lpend. cbn. rewrite Hpc. reflexivity.
  - (* iter: one element *)
    destruct T1 as [pre0 [pre1 [post [E1 [E2 E3]]]]]. rewrite app_assoc in E1. set (pre := pre0 ++ pre1) in *.
    assert (Hn : n < length (lmem s)).
    { eapply linked_as_lt; eauto. rewrite E1. apply in_or_app. right. left. reflexivity. }
    assert (Hlt : (n <? length (lmem s)) = true) by (apply Nat.ltb_lt; auto). rewrite Hlt in Hs.
    assert (NX : lnx (lmem s) n = match post with [] => None | n' :: _ => Some n' end).
    { clear -LA E1. revert LA. rewrite E1. generalize (lhead s). clear E1.
      induction pre as [|a pre IH]; intros p LA; cbn in LA.
      - destruct LA as [_ [_ LA]]. destruct post; cbn in LA; tauto.
      - destruct LA as [_ [_ LA]]. eapply IH; eauto. }
    fold (lnx (lmem s) n) in Hs. rewrite NX in Hs.
    destruct post as [|n' post']; inversion Hs; subst m' hd' ord' th' e; clear Hs;
      constructor; cbn [lmem lhead lorder lthreads].
    + exact LA.
    + apply (li_nodup s I).
    + apply THS; [|apply (OTH None); auto; discriminate]. constructor; cbn; auto.
      * intros d Hd. apply in_app_or in Hd. destruct Hd as [Hd|[Hd|[]]]; auto. discriminate.
      * intro Hd. apply in_app_or in Hd. destruct Hd as [Hd|[Hd|[]]]; auto. discriminate.
    + apply OWN. cbn. discriminate.
    + apply SAME. unfold lpend. cbn. rewrite Hpc. reflexivity.
    + exact LA.
    + apply (li_nodup s I).
    + apply THS; [|apply (OTH None); auto; discriminate]. constructor; cbn; auto.
      exists pre0, (pre1 ++ [n]), post'. split; [|split].
      * rewrite E1. unfold pre. rewrite <- !app_assoc. reflexivity.
      * rewrite E2, map_app. reflexivity.
      * rewrite E3, <- app_assoc. reflexivity.
    + apply OWN. cbn. discriminate.
    + apply SAME. unfold lpend. cbn. rewrite Hpc. reflexivity.
  - discriminate.
Qed.

Theorem lrun_inv : forall sched s, linv s -> linv (lrun sched s).
Proof.
  induction sched as [|t rest IH]; intros s I; cbn; auto.
  destruct (lstep t s) as [[s' e]|] eqn:H; auto. apply IH. eapply lstep_inv; eauto.
Qed.

End ListInv.

(* ------------------------------------------------------------------ content and iteration *)
Section ListProps.
Variable D0 : list N.

Lemma lcontent_eq : forall s, lcontent s = map (ldat (lmem s)) (lorder s).
Proof. reflexivity. Qed.

Lemma lstep_shape : forall s t s' e, lstep t s = Some (s', e) ->
  exists th th', nth_error (lthreads s) t = Some th /\ nth_error (lthreads s') t = Some th' /\
    lthread_step (lmem s) (lhead s) (lorder s) th = Some (lmem s', lhead s', lorder s', th', e) /\
    (forall j, j <> t -> nth_error (lthreads s') j = nth_error (lthreads s) j).
Proof.
  intros s t s' e H. unfold lstep in H.
  destruct (nth_error (lthreads s) t) as [th|] eqn:Ht; [|discriminate].
  destruct (lthread_step (lmem s) (lhead s) (lorder s) th) as [[[[[m' hd'] ord'] th'] e']|] eqn:Hs; [|discriminate].
  inversion H; subst s' e'. clear H. exists th, th'. cbn [lmem lhead lorder lthreads].
  pose proof (nth_error_Some_lt _ _ _ _ Ht) as Lt. repeat split; auto.
  - apply nth_error_upd_same; auto.
  - intros j Hj. apply nth_error_upd_other; auto.
Qed.

(* what one step of a thread does to the content, to its results and to its snapshot *)
Lemma lthread_step_facts : forall m hd ord th m' hd' ord' th' e,
  linked_as m hd ord -> lthread_inv m ord th ->
  lthread_step m hd ord th = Some (m', hd', ord', th', e) ->
  let C := map (ldat m) ord in let C' := map (ldat m') ord' in
  (C' = C \/ exists d, C' = d :: C) /\
  (forall n a snap, ltpc th' = LIterStep n a snap -> (exists n0 a0, ltpc th = LIterStep n0 a0 snap) \/ snap = C) /\
  (louts th' = louts th \/ exists r, louts th' = louts th ++ [r] /\
     forall l, r = LRList l -> suffix l C /\ ((exists n0 a0, ltpc th = LIterStep n0 a0 l) \/ l = C)).
Proof.
  intros m hd ord th m' hd' ord' th' e LA [T1 T2 T3] H C C'. unfold C, C'.
  unfold lthread_step in H. destruct (ltpc th) eqn:Hpc; cbn [lpc_inv] in T1.
  - destruct (lprog th) as [|o rest]; [discriminate|].
    destruct o; inversion H; subst m' hd' ord' th' e; cbn; repeat split; auto; intros; discriminate.
  - inversion H; subst m' hd' ord' th' e. cbn. split; [|split; auto; intros; discriminate].
    left. eapply map_ldat_ok; eauto. apply lalloc_ok.
  - inversion H; subst m' hd' ord' th' e. cbn. repeat split; auto; intros; discriminate.
  - destruct T1 as [T1a T1b]. assert (Hlt : (n <? length m) = true) by (apply Nat.ltb_lt; auto).
    rewrite Hlt in H. inversion H; subst m' hd' ord' th' e. cbn. split; [|split; auto; intros; discriminate].
    left. eapply map_ldat_ok; eauto. apply lset_ok. auto.
  - destruct (ptr_eqb hd h); inversion H; subst m' hd' ord' th' e; cbn.
    + split; [right; eexists; reflexivity|]. split; [intros; discriminate|].
      right. eexists. split; [reflexivity|]. intros l E. discriminate.
    + repeat split; auto; intros; discriminate.
  - destruct hd as [n|]; inversion H; subst m' hd' ord' th' e; cbn.
    + split; auto. split; auto. intros n0 a snap E. inversion E. right. reflexivity.
    + split; auto. split; [intros; discriminate|]. right. eexists. split; [reflexivity|].
      intros l E. inversion E; subst l. destruct ord; cbn in LA; [|destruct LA; discriminate].
      cbn. split; [apply suffix_refl|right; reflexivity].
  - destruct T1 as [pre0 [pre1 [post [E1 [E2 E3]]]]].
    assert (Hn : n < length m).
    { eapply linked_as_lt; eauto. rewrite E1. apply in_or_app. right. apply in_or_app. right. left. reflexivity. }
    assert (Hlt : (n <? length m) = true) by (apply Nat.ltb_lt; auto). rewrite Hlt in H.
    assert (NX : lnx m n = match post with [] => None | n' :: _ => Some n' end).
    { clear -LA E1. rewrite app_assoc in E1. revert LA. rewrite E1. generalize hd. clear E1.
      induction (pre0 ++ pre1) as [|a pre IH]; intros p LA; cbn in LA.
      - destruct LA as [_ [_ LA]]. destruct post; cbn in LA; tauto.
      - destruct LA as [_ [_ LA]]. eapply IH; eauto. }
    fold (lnx m n) in H. rewrite NX in H.
    destruct post as [|n' post']; inversion H; subst m' hd' ord' th' e; cbn.
    + split; auto. split; [intros; discriminate|]. right. eexists. split; [reflexivity|].
      intros l E. inversion E; subst l. fold (ldat m n).
      assert (SN : acc ++ [ldat m n] = snap) by (rewrite E2, E3, map_app; reflexivity).
      rewrite SN. split.
      * exists (map (ldat m) pre0). rewrite E1, map_app, E3. reflexivity.
      * left. eauto.
    + split; auto. split; auto. intros n0 a snap0 E. inversion E; subst. left. eauto.
  - discriminate.
Qed.

Lemma linked_as_nil : forall m ord, linked_as m None ord -> ord = [].
Proof. intros m [|a r] H; auto. cbn in H. destruct H. discriminate. Qed.

Theorem lstep_content : forall s t s' e, linv D0 s -> lstep t s = Some (s', e) ->
  lcontent s' = lcontent s \/ exists d, lcontent s' = d :: lcontent s.
Proof.
  intros s t s' e I H. destruct (lstep_shape s t s' e H) as [th [th' [Ht [Ht' [Hs _]]]]].
  apply (lthread_step_facts _ _ _ _ _ _ _ _ _ (li_chain D0 s I) (li_threads D0 s I t th Ht) Hs).
Qed.

Theorem lrun_content : forall sched s, linv D0 s -> suffix (lcontent s) (lcontent (lrun sched s)).
Proof.
  induction sched as [|t rest IH]; intros s I; cbn; [apply suffix_refl|].
  destruct (lstep t s) as [[s' e]|] eqn:H; auto.
  eapply suffix_trans; [|apply IH; eapply lstep_inv; eauto].
  destruct (lstep_content s t s' e I H) as [->|[d ->]]; [apply suffix_refl|apply suffix_cons, suffix_refl].
Qed.

(* the results thread t obtains between s and a later state *)
Theorem list_results_between : forall sched s C1 t th o1,
  linv D0 s -> suffix C1 (lcontent s) -> nth_error (lthreads s) t = Some th ->
  (forall n a snap, ltpc th = LIterStep n a snap -> suffix C1 snap) ->
  (exists rs, louts th = o1 ++ rs /\ forall l, In (LRList l) rs -> suffix C1 l /\ suffix l (lcontent s)) ->
  exists th2 rs, nth_error (lthreads (lrun sched s)) t = Some th2 /\ louts th2 = o1 ++ rs /\
    forall l, In (LRList l) rs -> suffix C1 l /\ suffix l (lcontent (lrun sched s)).
Proof.
  induction sched as [|u rest IH]; intros s C1 t th o1 I SC Ht Hsnap [rs [Ho Hr]]; cbn [lrun].
  - exists th, rs. auto.
  - destruct (lstep u s) as [[s1 e]|] eqn:H; [|eapply IH; eauto].
    pose proof (lstep_inv D0 s u s1 e I H) as I1.
    assert (G : suffix (lcontent s) (lcontent s1)).
    { destruct (lstep_content s u s1 e I H) as [->|[d ->]]; [apply suffix_refl|apply suffix_cons, suffix_refl]. }
    assert (SC1 : suffix C1 (lcontent s1)) by (eapply suffix_trans; eauto).
    destruct (lstep_shape s u s1 e H) as [thu [thu' [Hu [Hu' [Hs Hoth]]]]].
    destruct (Nat.eq_dec t u) as [->|Ne].
    + rewrite Hu in Ht. inversion Ht; subst thu.
      destruct (lthread_step_facts _ _ _ _ _ _ _ _ _ (li_chain D0 s I) (li_threads D0 s I u th Hu) Hs) as [_ [F2 F3]].
      fold (lcontent s) in F2, F3.
      apply (IH s1 C1 u thu' o1 I1 SC1 Hu').
      * intros n a snap E. destruct (F2 n a snap E) as [[n0 [a0 E0]]| ->]; eauto.
      * destruct F3 as [F3|[r [F3 F4]]].
        -- exists rs. rewrite F3. split; auto. intros l Hl. destruct (Hr l Hl). split; auto. eapply suffix_trans; eauto.
        -- exists (rs ++ [r]). rewrite F3, Ho, app_assoc. split; auto. intros l Hl.
           apply in_app_or in Hl. destruct Hl as [Hl|[Hl|[]]].
           ++ destruct (Hr l Hl). split; auto. eapply suffix_trans; eauto.
           ++ destruct (F4 l Hl) as [S1 S2]. split; [|eapply suffix_trans; eauto].
              destruct S2 as [[n0 [a0 E0]]| ->]; eauto.
    + rewrite <- (Hoth t Ne) in Ht. apply (IH s1 C1 t th o1 I1 SC1 Ht Hsnap).
      exists rs. split; auto. intros l Hl. destruct (Hr l Hl). split; auto. eapply suffix_trans; eauto.
Qed.

(* distinct data: every element of the content occurs once *)
Lemma nodup_map_nth : forall (m : list lnode) ord, NoDup (map ldata m) -> NoDup ord ->
  (forall n, In n ord -> n < length m) -> NoDup (map (ldat m) ord).
Proof.
  intros m ord ND. induction ord as [|a r IH]; intros NO Hlt; cbn; constructor.
  - inversion NO; subst. intro Hin. apply in_map_iff in Hin. destruct Hin as [b [Hb Hin]].
    assert (a = b).
    { assert (La : a < length (map ldata m)) by (rewrite map_length; apply Hlt; left; reflexivity).
      assert (Lb : b < length (map ldata m)) by (rewrite map_length; apply Hlt; right; exact Hin).
      apply (proj1 (NoDup_nth (map ldata m) 0%N) ND a b La Lb).
      change 0%N with (ldata dlnode). rewrite !map_nth. unfold ldat in Hb. congruence. }
    subst b. contradiction.
  - inversion NO; subst. apply IH; auto. intros n Hn. apply Hlt. right. exact Hn.
Qed.

Theorem lcontent_nodup : forall s, NoDup D0 -> linv D0 s -> NoDup (lcontent s).
Proof.
  intros s ND I. unfold lcontent. fold (ldat (lmem s)). apply nodup_map_nth.
  - pose proof (li_data D0 s I) as P. apply Permutation_sym in P.
    pose proof (Permutation_NoDup P ND) as ND2.
    clear -ND2. induction (map ldata (lmem s)) as [|a l IH]; cbn in *; [constructor|].
    inversion ND2; subst. constructor; auto. intro Hin. apply H1. apply in_or_app. left. exact Hin.
  - apply (li_nodup D0 s I).
  - intros n Hn. eapply linked_as_lt; [apply (li_chain D0 s I)|exact Hn].
Qed.

End ListProps.

Definition lall_data (progs : list (list lop)) : list N := flat_map pre_data progs.

Theorem linit_inv : forall progs, linv (lall_data progs) (linit progs).
Proof.
  intros progs. unfold linit. constructor; cbn [lmem lhead lorder lthreads].
  - reflexivity.
  - constructor.
  - intros i th H. apply nth_error_In in H. apply in_map_iff in H. destruct H as [p [<- _]].
    constructor; cbn; auto.
  - intros i j thi thj n _ Hi _ Oi _. apply nth_error_In in Hi. apply in_map_iff in Hi.
    destruct Hi as [p [<- _]]. cbn in Oi. discriminate.
  - cbn. unfold lall_data. rewrite flat_map_concat_map, map_map, <- flat_map_concat_map. apply Permutation_refl.
Qed.
