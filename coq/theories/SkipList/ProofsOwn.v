(* SkipList/ProofsOwn.v — with the nodes owned by the body that list, iterators and iterator clones
   share, no step of any thread that still holds a handle touches freed nodes, for every
   interleaving of operation steps, drops and clones; and all invariants of the skiplist keep
   holding.  The code before the fix did not have this property. *)
From Coq Require Import NArith List Bool Arith Lia Permutation.
From Blue Require Import SkipList.Model SkipList.ModelOwn SkipList.ProofsBase SkipList.ProofsInv
  SkipList.ProofsStep SkipList.ProofsGlobal SkipList.ProofsHist.
Import ListNotations.

Lemma no_insert_keys : forall p, existsb is_insert p = false -> ins_keys p = [].
Proof.
  induction p as [|o p IH]; intros H; auto. cbn in H. apply orb_false_iff in H. destruct H as [H1 H2].
  destruct o; cbn in *; try discriminate; auto.
Qed.

Lemma no_insert_ok : forall maxh p, existsb is_insert p = false -> Forall (op_ok maxh) p.
Proof.
  induction p as [|o p IH]; intros H; constructor.
  - cbn in H. apply orb_false_iff in H. destruct H as [H1 _]. destruct o; cbn in *; auto. discriminate.
  - apply IH. cbn in H. apply orb_false_iff in H. tauto.
Qed.

Lemma nth_error_snoc : forall A (l : list A) x i y, nth_error (l ++ [x]) i = Some y ->
  nth_error l i = Some y \/ (i = length l /\ y = x).
Proof.
  intros A l x i y H. destruct (Nat.lt_ge_cases i (length l)) as [Lt|Ge].
  - rewrite nth_error_app1 in H; auto.
  - rewrite nth_error_app2 in H; auto. destruct (i - length l) as [|k] eqn:E.
    + cbn in H. inversion H. right. split; auto. lia.
    + cbn in H. destruct k; discriminate.
Qed.

Lemma existsb_id_false : forall l t, existsb (fun b : bool => b) l = false -> nth t l false = false.
Proof.
  induction l as [|a l IH]; intros [|t] H; cbn in *; auto; apply orb_false_iff in H; destruct H; auto.
Qed.

Section Own.
Variable maxh : nat.
Hypothesis maxh_pos : 1 <= maxh.
Variable K0 : list N.
Hypothesis K0_nodup : NoDup K0.

Lemma inv_clone : forall s t th p, inv maxh K0 s -> nth_error (sthreads s) t = Some th ->
  existsb is_insert p = false ->
  inv maxh K0 (mkState (smem s) (sthreads s ++ [mkThread p PIdle (it th) []])).
Proof.
  intros s t th p I Ht Hp. constructor; cbn [smem sthreads].
  - apply (inv_mem _ _ s I).
  - intros i thi Hi. apply nth_error_snoc in Hi. destruct Hi as [Hi|[_ ->]].
    + apply (inv_threads _ _ s I i thi Hi).
    + pose proof (inv_threads _ _ s I t th Ht) as T.
      constructor; cbn; [exact Logic.I | apply (ti_it _ _ _ T) | apply no_insert_ok; exact Hp | intros k [] | intros []].
  - rewrite flat_map_app. cbn [flat_map]. unfold pend_keys at 2. cbn [tpc prog pend app]. rewrite (no_insert_keys p Hp), !app_nil_r.
    apply (inv_keys _ _ s I).
  - intros i j thi thj x a b Ne Hi Hj Oi Oj.
    apply nth_error_snoc in Hi. apply nth_error_snoc in Hj.
    destruct Hi as [Hi|[_ ->]]; [|cbn in Oi; discriminate].
    destruct Hj as [Hj|[_ ->]]; [|cbn in Oj; discriminate].
    eapply (inv_own _ _ s I i j); eauto.
Qed.

Record oinv (s : ostate) : Prop := {
  oi_inv : inv maxh K0 (obase s);
  oi_len : length (oholds s) = length (sthreads (obase s));
  oi_freed : ofreed s = true -> forall t, nth t (oholds s) false = false }.

Theorem ostep_inv : forall s a s' o, oinv s -> ostep maxh true s a = (s', o) -> oinv s' /\ o <> OUaf.
Proof.
  intros s a s' o [I L F] H. destruct a as [t|t|t p]; cbn [ostep] in H.
  - destruct (nth t (oholds s) false) eqn:Ht; [|inversion H; subst; split; [constructor; auto|discriminate]].
    destruct (ofreed s) eqn:Fr; [rewrite (F eq_refl t) in Ht; discriminate|].
    destruct (step maxh t (obase s)) as [[b' e]|] eqn:Hs; inversion H; subst; clear H.
    + split; [|discriminate]. constructor; cbn.
      * eapply step_inv; eauto.
      * destruct (step_shape maxh K0 (obase s) t b' e I Hs) as [_ [_ [_ [_ [_ [_ Ln]]]]]]. lia.
      * discriminate.
    + split; [constructor; auto; rewrite Fr; discriminate|discriminate].
  - destruct (nth_error (sthreads (obase s)) t) as [th|] eqn:Ht; [|inversion H; subst; split; [constructor; auto|discriminate]].
    destruct (nth t (oholds s) false && idle th) eqn:C; inversion H; subst; clear H;
      [|split; [constructor; auto|discriminate]].
    split; [|discriminate]. constructor; cbn; auto.
    + rewrite upd_length. exact L.
    + intros Hf t0. apply orb_true_iff in Hf. destruct Hf as [Hf|Hf].
      * destruct (Nat.eq_dec t0 t) as [->|Ne].
        -- destruct (Nat.lt_ge_cases t (length (oholds s))).
           ++ apply nth_upd_same; auto.
           ++ rewrite upd_oob; auto.
        -- rewrite nth_upd_other; auto.
      * apply existsb_id_false. apply negb_true_iff. exact Hf.
  - destruct (nth_error (sthreads (obase s)) t) as [th|] eqn:Ht; [|inversion H; subst; split; [constructor; auto|discriminate]].
    destruct (nth t (oholds s) false && idle th && negb (existsb is_insert p)) eqn:C;
      [|inversion H; subst; split; [constructor; auto|discriminate]].
    apply andb_true_iff in C. destruct C as [C Cp]. apply andb_true_iff in C. destruct C as [Ch Ci].
    apply negb_true_iff in Cp.
    destruct (ofreed s) eqn:Fr; [rewrite (F eq_refl t) in Ch; discriminate|].
    inversion H; subst; clear H. split; [|discriminate]. constructor; cbn.
    + eapply inv_clone; eauto.
    + rewrite !app_length. cbn. lia.
    + discriminate.
Qed.

Theorem orun_inv : forall acts s s' os, oinv s -> orun maxh true s acts = (s', os) ->
  oinv s' /\ ~ In OUaf os.
Proof.
  induction acts as [|a r IH]; intros s s' os I H; cbn in H.
  - inversion H; subst. split; auto.
  - destruct (ostep maxh true s a) as [s1 o] eqn:H1. destruct (orun maxh true s1 r) as [s2 os2] eqn:H2.
    inversion H; subst. destruct (ostep_inv s a s1 o I H1) as [I1 No].
    destruct (IH s1 s' os2 I1 H2) as [I2 Nos]. split; auto. intros [E|E]; auto.
Qed.

End Own.

Lemma oinit_inv : forall maxh progs, 1 <= maxh -> progs_ok maxh progs ->
  oinv maxh (all_ins_keys progs) (oinit maxh progs).
Proof.
  intros maxh progs Hm Hp. constructor; cbn.
  - apply init_inv; auto.
  - rewrite repeat_length, map_length. reflexivity.
  - discriminate.
Qed.

(* every interleaving of operation steps, handle drops and iterator clones: no step of a thread
   that holds a handle touches freed nodes, nothing panics, and the invariants hold throughout *)
Theorem own_safe : forall maxh progs acts s os, 1 <= maxh -> progs_ok maxh progs ->
  NoDup (all_ins_keys progs) ->
  orun maxh true (oinit maxh progs) acts = (s, os) ->
  ~ In OUaf os /\ inv maxh (all_ins_keys progs) (obase s) /\
  (forall t th, nth_error (sthreads (obase s)) t = Some th -> tpc th <> PPanic /\ ~ In RPanic (outs th)) /\
  (ofreed s = true -> forall t, nth t (oholds s) false = false).
Proof.
  intros maxh progs acts s os Hm Hp Hk H.
  destruct (orun_inv maxh Hm (all_ins_keys progs) Hk acts _ s os (oinit_inv maxh progs Hm Hp) H) as [[I L F] No].
  split; auto. split; auto. split; auto.
  intros t th Ht. pose proof (inv_threads _ _ _ I t th Ht) as T. split.
  - intro E. pose proof (ti_pc _ _ _ T) as P. rewrite E in P. exact P.
  - apply (ti_nopanic _ _ _ T).
Qed.

(* F4: before the fix, an iterator held across the drop of its list touched freed nodes: thread 0
   (the list) inserts and lets go, thread 1 (an iterator) then moves *)
Theorem own_old_uaf :
  In OUaf (snd (orun 2 false (oinit 2 [[OInsert 1%N 1]; [OFirst]])
                 (repeat (ARun 0) 7 ++ [ADrop 0; ARun 1]))).
Proof. vm_compute. auto 20. Qed.
