(* SkipList/ProofsStep.v — every step of every thread preserves the invariants. *)
From Coq Require Import NArith ZArith List Bool Arith Lia Permutation.
From Blue Require Import SkipList.Model SkipList.ProofsBase SkipList.ProofsInv.
Import ListNotations.

Definition mem_keys (m : mem) : list N := map nkey (tl m).

Section Step.
Variable maxh : nat.
Hypothesis maxh_pos : 1 <= maxh.

Notation mem_inv := (mem_inv maxh).
Notation thread_inv := (thread_inv maxh).
Notation pc_inv := (pc_inv maxh).
Notation owns := (owns maxh).

Record step_ok (m : mem) (th : thread) (m' : mem) (th' : thread) : Prop := {
  so_mem : mem_inv m';
  so_th : thread_inv m' th';
  so_ext : mem_ext m m';
  so_frame : forall x2, x2 < length m -> (forall a, owned (tpc th) <> Some (x2, a)) ->
      lnk_of m' x2 = lnk_of m x2 /\ next_of m' x2 (lnk_of m x2) = next_of m x2 (lnk_of m x2);
  so_fresh : forall k, fresh m k -> ~ In k (pend (tpc th)) -> fresh m' k;
  so_keys : (mem_keys m' = mem_keys m /\ pend_keys th' = pend_keys th) \/
            (exists k, mem_keys m' = mem_keys m ++ [k] /\ pend_keys th = k :: pend_keys th');
  so_owned : forall x a, owned (tpc th') = Some (x, a) ->
      (exists b, owned (tpc th) = Some (x, b)) \/ length m <= x }.

(* a step that does not write memory *)
Lemma step_ok_same : forall m th th', mem_inv m -> thread_inv m th' ->
  pend_keys th' = pend_keys th ->
  (forall x a, owned (tpc th') = Some (x, a) -> exists b, owned (tpc th) = Some (x, b)) ->
  step_ok m th m th'.
Proof.
  intros m th th' I T K O. constructor; auto.
  - apply mem_ext_refl.
  - intros x a H. left. eauto.
Qed.

Lemma inv_goto : forall m th p, thread_inv m th -> pc_inv m p -> thread_inv m (goto th p).
Proof. intros m th p [T1 T2 T3 T4 T5] P. constructor; cbn; auto. Qed.

Lemma inv_finish : forall m th i r, thread_inv m th ->
  (forall n, i = Some n -> linked m n 0) ->
  (forall k, r = RIns k -> In k (keys0 m)) -> r <> RPanic ->
  thread_inv m (finish th i r).
Proof.
  intros m th i r [T1 T2 T3 T4 T5] Hi Hr Hp. constructor; cbn; auto.
  - intros k Hk. apply in_app_or in Hk. destruct Hk as [Hk|[Hk|[]]]; auto.
  - intro Hk. apply in_app_or in Hk. destruct Hk as [Hk|[Hk|[]]]; auto.
Qed.

Lemma pend_keys_goto : forall th p, pend_keys (goto th p) = pend p ++ ins_keys (prog th).
Proof. reflexivity. Qed.

Lemma pend_keys_finish : forall th i r, pend_keys (finish th i r) = ins_keys (prog th).
Proof. reflexivity. Qed.

(* facts about a published successor pointer *)
Lemma chain_some : forall m x l y, mem_inv m -> linked m x l -> next_of m x l = Some y ->
  linked m y l /\ (ek m x < ek m y)%Z /\ y <> 0 /\ y < length m /\ ek m y = Z.of_N (key_of m y) /\
  forall q, linked m q l -> ~ (ek m x < ek m q < ek m y)%Z.
Proof.
  clear maxh_pos. intros m x l y I Hx Hn. pose proof (mi_chain maxh m I x l Hx) as C. rewrite Hn in C.
  destruct C as [C1 [C2 C3]]. pose proof (ek_ge m x).
  assert (y <> 0) by (apply (ek_pos_nz m); lia).
  repeat split; auto.
  - eapply linked_lt; eauto.
  - apply ek_nz; auto.
Qed.

Lemma chain_none : forall m x l, mem_inv m -> linked m x l -> next_of m x l = None ->
  forall q, linked m q l -> (ek m q <= ek m x)%Z.
Proof.
  intros m x l I Hx Hn. pose proof (mi_chain maxh m I x l Hx) as C. rewrite Hn in C. exact C.
Qed.

Lemma get_next_linked : forall m x l, mem_inv m -> linked m x l -> get_next m x l = Some (next_of m x l).
Proof.
  intros m x l I H. apply get_next_ok.
  - eapply linked_lt; eauto.
  - eapply linked_height; eauto.
Qed.

Lemma after_true : forall m k p, key_is_after m k p = true -> exists y, p = Some y /\ (key_of m y < k)%N.
Proof.
  intros m k [y|] H; cbn in H; try discriminate. exists y. split; auto. apply N.ltb_lt. exact H.
Qed.

Lemma after_false : forall m k y, key_is_after m k (Some y) = false -> (k <= key_of m y)%N.
Proof. intros m k y H. cbn in H. apply N.ltb_ge. exact H. Qed.

Lemma slot_upd_other : forall m k prev obs l j v w, l <> j ->
  slot_ok m k prev obs l -> slot_ok m k (upd prev j v) (upd obs j w) l.
Proof.
  intros m k prev obs l j v w Ne [p [H1 H2]]. exists p. rewrite !nth_upd_other; auto.
Qed.

Lemma slot_upd_prev_other : forall m k prev obs l j v, l <> j ->
  slot_ok m k prev obs l -> slot_ok m k (upd prev j v) obs l.
Proof.
  intros m k prev obs l j v Ne [p [H1 H2]]. exists p. rewrite !nth_upd_other; auto.
Qed.

Lemma slot_upd_obs_other : forall m k prev obs l j v, l <> j ->
  slot_ok m k prev obs l -> slot_ok m k prev (upd obs j v) l.
Proof.
  intros m k prev obs l j v Ne [p [H1 H2]]. exists p. rewrite !nth_upd_other; auto.
Qed.

Lemma lens_upd : forall prev obs j v w, lens maxh prev obs -> lens maxh (upd prev j v) (upd obs j w).
Proof. intros prev obs j v w [A B]. split; rewrite upd_length; auto. Qed.

Lemma lens_upd_prev : forall prev obs j v, lens maxh prev obs -> lens maxh (upd prev j v) obs.
Proof. intros prev obs j v [A B]. split; auto. rewrite upd_length; auto. Qed.

Lemma lens_upd_obs : forall prev obs j v, lens maxh prev obs -> lens maxh prev (upd obs j v).
Proof. intros prev obs j v [A B]. split; auto. rewrite upd_length; auto. Qed.

Lemma mem_keys_app : forall m nd, 1 <= length m -> mem_keys (m ++ [nd]) = mem_keys m ++ [nkey nd].
Proof.
  intros m nd H. unfold mem_keys. destruct m as [|a t]; cbn in H; [lia|]. cbn [List.tl app].
  rewrite map_app. reflexivity.
Qed.

(* ------------------------------------------------------------------ begin of an operation *)
Lemma begin_ok : forall m th o rest, mem_inv m -> thread_inv m th ->
  (forall k, In k (pend_keys th) -> fresh m k) ->
  tpc th = PIdle -> prog th = o :: rest ->
  step_ok m th m (begin_op maxh m th o rest).
Proof.
  intros m th o rest I T F Hpc Hprog.
  destruct T as [T1 T2 T3 T4 T5]. rewrite Hprog in T3. inversion T3 as [|? ? Ho Hrest]; subst.
  assert (T0 : thread_inv m (mkThread rest (tpc th) (it th) (outs th))).
  { constructor; cbn; auto. }
  assert (L0 : forall l, l < maxh -> linked m 0 l) by (intros; apply (head_linked maxh); auto).
  assert (PK : pend_keys th = ins_keys (o :: rest)).
  { unfold pend_keys. rewrite Hpc, Hprog. reflexivity. }
  apply step_ok_same; auto.
  - destruct o; cbn [begin_op].
    + apply inv_goto; [exact T0|]. cbn. split; [split; apply repeat_length|]. split; [lia|].
      split; [apply L0; lia|]. split; [lia|]. split; [exact Ho|]. split.
      * apply F. rewrite PK. left. reflexivity.
      * intros l Hl. lia.
    + apply inv_goto; [exact T0|]. cbn. split; [lia|]. split; [apply L0; lia|]. lia.
    + apply inv_goto; [exact T0|]. cbn. split; [lia|]. split; [apply L0; lia|]. lia.
    + apply inv_goto; [exact T0|]. cbn. trivial.
    + apply inv_finish; [exact T0| | |]; try discriminate.
    + destruct (it th) as [n|] eqn:Hit.
      * apply inv_goto; [exact T0|]. cbn. auto.
      * apply inv_finish; [exact T0| | |]; try discriminate.
    + destruct (it th) as [n|] eqn:Hit.
      * destruct (Nat.eqb_spec n 0) as [->|Nz].
        -- apply inv_finish; [exact T0| | |]; try discriminate. intros n Hn. inversion Hn. apply L0. lia.
        -- apply inv_goto; [exact T0|]. cbn. split; [lia|]. split; [apply L0; lia|]. lia.
      * apply inv_goto; [exact T0|]. cbn. split; [lia|]. apply L0. lia.
  - rewrite PK. destruct o; cbn [begin_op]; try reflexivity.
    + destruct (it th); reflexivity.
    + destruct (it th) as [n|]; [destruct (n =? 0)|]; reflexivity.
  - intros x a H. exfalso. destruct o; cbn [begin_op] in H; cbn in H; try discriminate.
    + destruct (it th); cbn in H; discriminate.
    + destruct (it th) as [n|]; [destruct (n =? 0)|]; cbn in H; discriminate.
Qed.

(* ------------------------------------------------------------------ the searches *)
Lemma findI_ok : forall m th k h x lvl prev obs m' th' e, mem_inv m -> thread_inv m th ->
  tpc th = PFindI k h x lvl prev obs ->
  thread_step maxh m th = Some (m', th', e) -> step_ok m th m' th'.
Proof.
  intros m th k h x lvl prev obs m' th' e I T Hpc H.
  pose proof (ti_pc maxh m th T) as P. rewrite Hpc in P. cbn in P.
  destruct P as [LN [P1 [P2 [P3 [P4 [P5 P6]]]]]].
  unfold thread_step in H. rewrite Hpc in H. rewrite (get_next_linked m x lvl I P2) in H.
  assert (PKG : forall p, pend p = [k] -> pend_keys (goto th p) = pend_keys th).
  { intros p Hp. unfold pend_keys. cbn. rewrite Hp, Hpc. reflexivity. }
  destruct (key_is_after m k (next_of m x lvl)) eqn:A.
  - destruct (after_true _ _ _ A) as [y [Hy Hk]]. rewrite Hy in H. inversion H; subst m' th' e.
    destruct (chain_some m x lvl y I P2 Hy) as [C1 [C2 [C3 [C4 [C5 C6]]]]].
    apply step_ok_same; auto.
    + apply inv_goto; auto. cbn. split; [exact LN|]. repeat split; auto; try lia.
    + intros x0 a H0. cbn in H0. discriminate.
  - assert (SL : slot_ok m k (upd prev lvl (Some x)) (upd obs lvl (next_of m x lvl)) lvl).
    { destruct LN as [L1 L2]. exists x. rewrite !nth_upd_same; try lia. repeat split; auto.
      destruct (next_of m x lvl) as [y|] eqn:Hy; auto.
      destruct (chain_some m x lvl y I P2 Hy) as [C1 [C2 [C3 [C4 [C5 C6]]]]]. split; auto.
      pose proof (after_false _ _ _ A) as Hk. rewrite C5.
      assert (key_of m y <> k) by (apply P5; lia). lia. }
    destruct lvl as [|l'].
    + inversion H; subst m' th' e. apply step_ok_same; auto.
      * apply inv_goto; auto. cbn. split; [apply lens_upd; auto|]. split; auto. split; auto.
        intros l Hl. destruct (Nat.eq_dec l 0) as [->|Ne]; auto.
        apply slot_upd_other; auto. apply P6. lia.
      * intros x0 a H0. cbn in H0. discriminate.
    + inversion H; subst m' th' e. apply step_ok_same; auto.
      * apply inv_goto; auto. cbn. split; [apply lens_upd; auto|]. split; [lia|].
        split; [eapply linked_mono; eauto|]. split; auto. split; auto. split; auto.
        intros l Hl. destruct (Nat.eq_dec l (S l')) as [->|Ne]; auto.
        apply slot_upd_other; auto. apply P6. lia.
      * intros x0 a H0. cbn in H0. discriminate.
Qed.

Lemma findGE_ok : forall m th fk k x lvl m' th' e, mem_inv m -> thread_inv m th ->
  tpc th = PFindGE fk k x lvl ->
  thread_step maxh m th = Some (m', th', e) -> step_ok m th m' th'.
Proof.
  intros m th fk k x lvl m' th' e I T Hpc H.
  pose proof (ti_pc maxh m th T) as P. rewrite Hpc in P. cbn in P. destruct P as [P1 [P2 P3]].
  unfold thread_step in H. rewrite Hpc in H. rewrite (get_next_linked m x lvl I P2) in H.
  assert (PK0 : pend_keys th = ins_keys (prog th)) by (unfold pend_keys; rewrite Hpc; reflexivity).
  destruct (key_is_after m k (next_of m x lvl)) eqn:A.
  - destruct (after_true _ _ _ A) as [y [Hy Hk]]. rewrite Hy in H. inversion H; subst m' th' e.
    destruct (chain_some m x lvl y I P2 Hy) as [C1 [C2 [C3 [C4 [C5 C6]]]]].
    apply step_ok_same; auto.
    + apply inv_goto; auto. cbn. repeat split; auto; lia.
    + intros x0 a H0. cbn in H0. discriminate.
  - assert (NL : forall n, next_of m x lvl = Some n -> linked m n lvl).
    { intros n Hn. destruct (chain_some m x lvl n I P2 Hn) as [C1 _]. exact C1. }
    destruct lvl as [|l'].
    + destruct fk; inversion H; subst m' th' e.
      * apply step_ok_same; auto.
        -- apply inv_finish; auto; try discriminate. apply (ti_it maxh m th T).
        -- intros x0 a H0. cbn in H0. discriminate.
      * apply step_ok_same; auto.
        -- apply inv_finish; auto; try discriminate.
        -- intros x0 a H0. cbn in H0. discriminate.
    + inversion H; subst m' th' e. apply step_ok_same; auto.
      * apply inv_goto; auto. cbn. split; [lia|]. split; auto. eapply linked_mono; eauto.
      * intros x0 a H0. cbn in H0. discriminate.
Qed.

Lemma findLT_ok : forall m th k x lvl m' th' e, mem_inv m -> thread_inv m th ->
  tpc th = PFindLT k x lvl ->
  thread_step maxh m th = Some (m', th', e) -> step_ok m th m' th'.
Proof.
  intros m th k x lvl m' th' e I T Hpc H.
  pose proof (ti_pc maxh m th T) as P. rewrite Hpc in P. cbn in P. destruct P as [P1 [P2 P3]].
  unfold thread_step in H. rewrite Hpc in H.
  assert (AS : negb ((x =? 0) || (key_of m x <? k)%N) = false).
  { destruct (Nat.eqb_spec x 0) as [->|Nz]; auto. cbn. rewrite ek_nz in P3; auto.
    assert ((key_of m x <? k)%N = true) by (apply N.ltb_lt; lia). rewrite H0. reflexivity. }
  rewrite AS in H. rewrite (get_next_linked m x lvl I P2) in H.
  assert (PK0 : pend_keys th = ins_keys (prog th)) by (unfold pend_keys; rewrite Hpc; reflexivity).
  destruct (next_of m x lvl) as [y|] eqn:Hy.
  - destruct (chain_some m x lvl y I P2 Hy) as [C1 [C2 [C3 [C4 [C5 C6]]]]].
    destruct (k <=? key_of m y)%N eqn:Le.
    + destruct lvl as [|l']; inversion H; subst m' th' e.
      * apply step_ok_same; auto.
        -- apply inv_finish; auto; try discriminate. intros n Hn. inversion Hn. subst. auto.
        -- intros x0 a H0. cbn in H0. discriminate.
      * apply step_ok_same; auto.
        -- apply inv_goto; auto. cbn. split; [lia|]. split; auto. eapply linked_mono; eauto.
        -- intros x0 a H0. cbn in H0. discriminate.
    + inversion H; subst m' th' e. apply N.leb_gt in Le. apply step_ok_same; auto.
      * apply inv_goto; auto. cbn. split; auto. split; auto. lia.
      * intros x0 a H0. cbn in H0. discriminate.
  - destruct lvl as [|l']; inversion H; subst m' th' e.
    + apply step_ok_same; auto.
      * apply inv_finish; auto; try discriminate. intros n Hn. inversion Hn. subst. auto.
      * intros x0 a H0. cbn in H0. discriminate.
    + apply step_ok_same; auto.
      * apply inv_goto; auto. cbn. split; [lia|]. split; auto. eapply linked_mono; eauto.
      * intros x0 a H0. cbn in H0. discriminate.
Qed.

Lemma findLast_ok : forall m th x lvl m' th' e, mem_inv m -> thread_inv m th ->
  tpc th = PFindLast x lvl ->
  thread_step maxh m th = Some (m', th', e) -> step_ok m th m' th'.
Proof.
  intros m th x lvl m' th' e I T Hpc H.
  pose proof (ti_pc maxh m th T) as P. rewrite Hpc in P. cbn in P. destruct P as [P1 P2].
  unfold thread_step in H. rewrite Hpc in H. rewrite (get_next_linked m x lvl I P2) in H.
  assert (PK0 : pend_keys th = ins_keys (prog th)) by (unfold pend_keys; rewrite Hpc; reflexivity).
  destruct (next_of m x lvl) as [y|] eqn:Hy.
  - destruct (chain_some m x lvl y I P2 Hy) as [C1 _].
    inversion H; subst m' th' e. apply step_ok_same; auto.
    + apply inv_goto; auto. cbn. split; auto.
    + intros x0 a H0. cbn in H0. discriminate.
  - destruct lvl as [|l']; inversion H; subst m' th' e.
    + apply step_ok_same; auto.
      * apply inv_finish; auto; try discriminate. intros n Hn. inversion Hn. subst. auto.
      * intros x0 a H0. cbn in H0. discriminate.
    + apply step_ok_same; auto.
      * apply inv_goto; auto. cbn. split; [lia|]. eapply linked_mono; eauto.
      * intros x0 a H0. cbn in H0. discriminate.
Qed.

Lemma next_ok : forall m th n m' th' e, mem_inv m -> thread_inv m th ->
  tpc th = PNext n ->
  thread_step maxh m th = Some (m', th', e) -> step_ok m th m' th'.
Proof.
  intros m th n m' th' e I T Hpc H.
  pose proof (ti_pc maxh m th T) as P. rewrite Hpc in P. cbn in P.
  unfold thread_step in H. rewrite Hpc in H. rewrite (get_next_linked m n 0 I P) in H.
  assert (PK0 : pend_keys th = ins_keys (prog th)) by (unfold pend_keys; rewrite Hpc; reflexivity).
  inversion H; subst m' th' e. apply step_ok_same; auto.
  - apply inv_finish; auto; try discriminate. intros y Hy.
    destruct (chain_some m n 0 y I P Hy) as [C1 _]. exact C1.
  - intros x0 a H0. cbn in H0. discriminate.
Qed.

Lemma first_ok : forall m th m' th' e, mem_inv m -> thread_inv m th ->
  tpc th = PFirst ->
  thread_step maxh m th = Some (m', th', e) -> step_ok m th m' th'.
Proof.
  intros m th m' th' e I T Hpc H.
  assert (P : linked m 0 0) by (apply (head_linked maxh); auto).
  unfold thread_step in H. rewrite Hpc in H. rewrite (get_next_linked m 0 0 I P) in H.
  assert (PK0 : pend_keys th = ins_keys (prog th)) by (unfold pend_keys; rewrite Hpc; reflexivity).
  inversion H; subst m' th' e. apply step_ok_same; auto.
  - apply inv_finish; auto; try discriminate. intros y Hy.
    destruct (chain_some m 0 0 y I P Hy) as [C1 _]. exact C1.
  - intros x0 a H0. cbn in H0. discriminate.
Qed.

(* ------------------------------------------------------------------ the insert proper *)
Lemma alloc_ok : forall m th k h prev obs m' th' e, mem_inv m -> thread_inv m th ->
  tpc th = PAlloc k h prev obs ->
  thread_step maxh m th = Some (m', th', e) -> step_ok m th m' th'.
Proof.
  intros m th k h prev obs m' th' e I T Hpc H.
  pose proof (ti_pc maxh m th T) as P. rewrite Hpc in P. cbn in P. destruct P as [LN [P1 [P2 P3]]].
  unfold thread_step in H. rewrite Hpc in H.
  assert (D : match nth 0 obs None with None => false | Some e0 => (key_of m e0 =? k)%N end = false).
  { destruct (P3 0 ltac:(lia)) as [p [_ [_ [_ Ho]]]]. destruct (nth 0 obs None) as [o|]; auto.
    destruct Ho as [Ho1 Ho2]. apply N.eqb_neq. intro E.
    assert (o <> 0) by (apply (ek_pos_nz m); lia). rewrite ek_nz in Ho2; auto. lia. }
  rewrite D in H.
  assert (D2 : (h =? 0) = false) by (apply Nat.eqb_neq; lia).
  assert (D3 : (maxh <? h) = false) by (apply Nat.ltb_ge; lia).
  rewrite D2, D3 in H. cbn [orb] in H. inversion H; subst m' th' e. clear H.
  set (nd := mkNode k (repeat None h) 0).
  pose proof (alloc_ext m nd) as E. pose proof (mi_len maxh m I) as L.
  assert (I' : mem_inv (m ++ [nd])) by (apply alloc_inv; auto; lia).
  assert (KX : key_of (m ++ [nd]) (length m) = k) by (unfold key_of; rewrite al_getn_new; reflexivity).
  constructor; auto.
  - (* the thread *)
    destruct T as [T1 T2 T3 T4 T5]. constructor; cbn; auto.
    + split; auto. split.
      * unfold owns. rewrite al_length. unfold height_of, lnk_of. rewrite al_getn_new. cbn.
        rewrite repeat_length. repeat split; lia.
      * intros l Hl. rewrite KX. eapply slot_ok_ext; eauto. apply P3. lia.
    + intros n Hn. eapply ext_linked; eauto.
    + intros k0 Hk. eapply keys0_ext; eauto.
  - intros x2 Hx2 _. split; [apply alloc_lnk_old; auto|apply alloc_next_old; auto].
  - intros k0 F0 Nk n Hn. rewrite al_length in Hn.
    destruct (Nat.eq_dec n (length m)) as [->|Ne].
    + rewrite KX. intro E0. apply Nk. rewrite Hpc. left. auto.
    + rewrite (me_key _ _ E); [|lia]. apply F0. lia.
  - right. exists k. split.
    + rewrite mem_keys_app; auto.
    + unfold pend_keys. rewrite Hpc. reflexivity.
  - intros x a H0. cbn in H0. inversion H0. right. lia.
Qed.

Lemma map_key_upd : forall (m : mem) n nd', nkey nd' = nkey (nth n m dnode) ->
  map nkey (upd m n nd') = map nkey m.
Proof.
  induction m as [|a t IH]; intros [|n] nd' H; cbn in *; auto.
  - rewrite H. reflexivity.
  - f_equal. apply IH. exact H.
Qed.

Lemma mem_keys_tl : forall m, mem_keys m = List.tl (map nkey m).
Proof. intros [|a t]; reflexivity. Qed.

Lemma mem_keys_wr : forall m n l v, mem_keys (wr m n l v) = mem_keys m.
Proof. intros. rewrite !mem_keys_tl. unfold wr. rewrite map_key_upd; auto. Qed.

Lemma mem_keys_set_lnk : forall m x c, mem_keys (set_lnk m x c) = mem_keys m.
Proof. intros. rewrite !mem_keys_tl. unfold set_lnk. rewrite map_key_upd; auto. Qed.

Lemma owns_wr : forall m x h idx l v, x < length m -> l < height_of m x ->
  owns m x h idx -> owns (wr m x l v) x h idx.
Proof.
  intros m x h idx l v Hx Hl [O1 [O2 [O3 [O4 [O5 O6]]]]]. unfold owns.
  rewrite wr_length, wr_height, wr_lnk; auto. repeat split; auto.
Qed.

Lemma set_ok : forall m th h x idx prev obs m' th' e, mem_inv m -> thread_inv m th ->
  tpc th = PSet h x idx prev obs ->
  thread_step maxh m th = Some (m', th', e) -> step_ok m th m' th'.
Proof.
  intros m th h x idx prev obs m' th' e I T Hpc H.
  pose proof (ti_pc maxh m th T) as P. rewrite Hpc in P. cbn in P. destruct P as [LN [P1 P2]].
  pose proof P1 as [O1 [O2 [O3 [O4 [O5 O6]]]]].
  unfold thread_step in H. rewrite Hpc in H.
  rewrite set_next_ok in H; auto; [|lia]. inversion H; subst m' th' e. clear H.
  set (v := nth idx obs None).
  assert (Hh : idx < height_of m x) by lia.
  pose proof (wr_ext m x idx v O1 Hh) as E.
  assert (I' : mem_inv (wr m x idx v)) by (apply wr_inv; auto; lia).
  constructor; auto.
  - destruct T as [T1 T2 T3 T4 T5]. constructor; cbn; auto.
    + split; auto. split; [apply owns_wr; auto|]. split.
      * intros l Hl. rewrite wr_key; auto. eapply slot_ok_ext; eauto.
      * apply wr_next_same; auto.
    + intros n Hn. eapply ext_linked; eauto.
    + intros k0 Hk. eapply keys0_ext; eauto.
  - intros x2 Hx2 Ne. rewrite Hpc in Ne. cbn in Ne.
    assert (x2 <> x) by (intro E0; apply (Ne idx); rewrite E0; reflexivity).
    split; [apply wr_lnk; auto|apply wr_next_other; auto].
  - intros k0 F0 _ n Hn. rewrite wr_length in Hn. rewrite wr_key; auto.
  - left. split.
    + apply mem_keys_wr.
    + unfold pend_keys. rewrite Hpc. reflexivity.
  - intros x0 a H0. cbn in H0. inversion H0. subst. left. rewrite Hpc. cbn. eauto.
Qed.

Lemma cas_ok : forall m th h x idx prev obs m' th' e, mem_inv m -> thread_inv m th ->
  tpc th = PCas h x idx prev obs ->
  thread_step maxh m th = Some (m', th', e) -> step_ok m th m' th'.
Proof.
  intros m th h x idx prev obs m' th' e I T Hpc H.
  pose proof (ti_pc maxh m th T) as P. rewrite Hpc in P. cbn in P. destruct P as [LN [P1 [P2 P3]]].
  pose proof P1 as [O1 [O2 [O3 [O4 [O5 O6]]]]].
  unfold thread_step in H. rewrite Hpc in H.
  destruct (P2 idx ltac:(lia)) as [p [Hp [Lp [Kp Ho]]]]. rewrite Hp in H.
  pose proof (linked_lt _ _ _ Lp) as Hpl. pose proof (linked_height maxh _ _ _ I Lp) as Hph.
  destruct (cas_next_ok m p idx (nth idx obs None) (Some x) Hpl Hph) as [[m1 b] C].
  rewrite C in H. apply cas_next_Some in C. destruct C as [_ [_ C]].
  assert (PK0 : pend_keys th = ins_keys (prog th)) by (unfold pend_keys; rewrite Hpc; reflexivity).
  assert (EX : ek m x = Z.of_N (key_of m x)) by (apply ek_nz; auto).
  destruct C as [[-> [Hold ->]]|[-> [Hold ->]]].
  - (* success *)
    assert (Hh : idx < height_of m x) by lia.
    assert (Hpx : (ek m p < ek m x)%Z) by lia.
    assert (Hnx : next_of m x idx = next_of m p idx) by congruence.
    assert (Hxo : match next_of m p idx with None => True | Some o => (ek m x < ek m o)%Z end).
    { rewrite Hold. destruct (nth idx obs None) as [o|]; auto. destruct Ho. lia. }
    pose proof (sp_inv maxh m p idx x I Lp O1 O2 O4 Hh Hpx Hnx Hxo) as I'.
    pose proof (sp_ext maxh m p idx x I Lp O1 O2 O4 Hh) as E.
    fold (splice m p idx x) in *. set (ms := splice m p idx x) in *.
    assert (LX : lnk_of ms x = S idx) by (apply sp_lnk_x; auto).
    assert (KX : key_of ms x = key_of m x) by (apply sp_key; auto).
    assert (FR : forall x2, x2 < length m -> x2 <> x ->
              lnk_of ms x2 = lnk_of m x2 /\ next_of ms x2 (lnk_of m x2) = next_of m x2 (lnk_of m x2)).
    { intros x2 Hx2 Ne. split; [apply sp_lnk_other; auto|].
      apply sp_next_other; auto. destruct (Nat.eq_dec x2 p) as [->|]; auto.
      right. unfold linked in Lp. lia. }
    assert (TH : True) by auto.
    destruct T as [T1 T2 T3 T4 T5].
    destruct (S idx <? h) eqn:More; inversion H; subst m' th' e; clear H.
    + apply Nat.ltb_lt in More. constructor; auto.
      * constructor; cbn; auto.
        -- split; auto. split.
           ++ unfold owns. unfold ms. rewrite sp_length, sp_height; auto. fold ms.
              repeat split; auto.
           ++ intros l Hl. rewrite KX. eapply slot_ok_ext; eauto. apply P2. lia.
        -- intros n Hn. eapply ext_linked; eauto.
        -- intros k0 Hk. eapply keys0_ext; eauto.
      * intros x2 Hx2 Ne. apply FR; auto. rewrite Hpc in Ne. cbn in Ne. intro E0. apply (Ne idx). rewrite E0. reflexivity.
      * intros k0 F0 _ n Hn. unfold ms in *. rewrite sp_length in Hn; auto. rewrite sp_key; auto.
      * left. split; [|unfold pend_keys; rewrite Hpc; reflexivity].
        unfold ms, splice. rewrite mem_keys_set_lnk, mem_keys_wr. reflexivity.
      * intros x0 a H0. cbn in H0. inversion H0. subst. left. rewrite Hpc. cbn. eauto.
    + constructor; auto.
      * constructor; cbn; auto.
        -- intros n Hn. eapply ext_linked; eauto.
        -- intros k0 Hk. apply in_app_or in Hk. destruct Hk as [Hk|[Hk|[]]].
           ++ eapply keys0_ext; eauto.
           ++ inversion Hk. subst k0. apply keys0_spec. exists x. unfold ms. rewrite sp_length; auto.
              fold ms. split; [lia|]. split; auto. unfold linked. lia.
        -- intro Hk. apply in_app_or in Hk. destruct Hk as [Hk|[Hk|[]]]; auto. discriminate.
      * intros x2 Hx2 Ne. apply FR; auto. rewrite Hpc in Ne. cbn in Ne. intro E0. apply (Ne idx). rewrite E0. reflexivity.
      * intros k0 F0 _ n Hn. unfold ms in *. rewrite sp_length in Hn; auto. rewrite sp_key; auto.
      * left. split; [|unfold pend_keys; rewrite Hpc; reflexivity].
        unfold ms, splice. rewrite mem_keys_set_lnk, mem_keys_wr. reflexivity.
      * intros x0 a H0. cbn in H0. discriminate.
  - (* failure *)
    inversion H; subst m' th' e. apply step_ok_same; auto.
    + apply inv_goto; auto. cbn. auto.
    + intros x0 a H0. cbn in H0. inversion H0. subst. rewrite Hpc. cbn. eauto.
Qed.

Lemma adv_ok : forall m th h x idx prev obs m' th' e, mem_inv m -> thread_inv m th ->
  tpc th = PAdv h x idx prev obs ->
  thread_step maxh m th = Some (m', th', e) -> step_ok m th m' th'.
Proof.
  intros m th h x idx prev obs m' th' e I T Hpc H.
  pose proof (ti_pc maxh m th T) as P. rewrite Hpc in P. cbn in P. destruct P as [LN [P1 P2]].
  pose proof P1 as [O1 [O2 [O3 [O4 [O5 O6]]]]]. pose proof LN as [LN1 LN2].
  unfold thread_step in H. rewrite Hpc in H.
  destruct (P2 idx ltac:(lia)) as [p [Hp [Lp [Kp Ho]]]]. rewrite Hp in H.
  rewrite (get_next_linked m p idx I Lp) in H.
  assert (PK0 : pend_keys th = ins_keys (prog th)) by (unfold pend_keys; rewrite Hpc; reflexivity).
  assert (OWN : forall x0 a p0 o0, owned (PAdv h x idx p0 o0) = Some (x0, a) \/ owned (PSet h x idx p0 o0) = Some (x0, a) ->
                exists b, owned (tpc th) = Some (x0, b)).
  { intros x0 a p0 o0 [H0|H0]; cbn in H0; inversion H0; subst; rewrite Hpc; cbn; eauto. }
  destruct (key_is_after m (key_of m x) (next_of m p idx)) eqn:A.
  - destruct (after_true _ _ _ A) as [y [Hy Hk]]. inversion H; subst m' th' e. clear H.
    destruct (chain_some m p idx y I Lp Hy) as [C1 [C2 [C3 [C4 [C5 C6]]]]].
    apply step_ok_same; auto.
    + apply inv_goto; auto. cbn. split; [apply lens_upd_prev; auto|]. split; auto.
      intros l Hl. destruct (Nat.eq_dec l idx) as [->|Ne].
      * exists y. rewrite Hy. rewrite nth_upd_same; [|lia]. repeat split; auto. lia.
      * apply slot_upd_prev_other; auto.
    + intros x0 a H0. cbn in H0. inversion H0. rewrite Hpc. cbn. eauto.
  - inversion H; subst m' th' e. clear H. apply step_ok_same; auto.
    + apply inv_goto; auto. cbn. split; [apply lens_upd_obs; auto|]. split; auto.
      intros l Hl. destruct (Nat.eq_dec l idx) as [->|Ne].
      * exists p. rewrite nth_upd_same; [|lia]. repeat split; auto.
        destruct (next_of m p idx) as [y|] eqn:Hy; auto.
        destruct (chain_some m p idx y I Lp Hy) as [C1 [C2 [C3 [C4 [C5 C6]]]]]. split; auto.
        pose proof (after_false _ _ _ A) as Hk. rewrite C5.
        assert (y <> x). { intro; subst y. unfold linked in C1. lia. }
        assert (key_of m y <> key_of m x).
        { intro E. apply H. apply (mi_inj maxh m I); auto; lia. }
        lia.
      * apply slot_upd_obs_other; auto.
    + intros x0 a H0. cbn in H0. inversion H0. rewrite Hpc. cbn. eauto.
Qed.

(* ------------------------------------------------------------------ every thread step *)
Theorem thread_step_ok : forall m th m' th' e, mem_inv m -> thread_inv m th ->
  (forall k, In k (pend_keys th) -> fresh m k) ->
  thread_step maxh m th = Some (m', th', e) -> step_ok m th m' th'.
Proof.
  intros m th m' th' e I T F H. destruct (tpc th) eqn:Hpc.
  - unfold thread_step in H. rewrite Hpc in H. destruct (prog th) as [|o rest] eqn:Hprog; [discriminate|].
    inversion H; subst m' th' e. apply begin_ok; auto.
  - eapply findI_ok; eauto.
  - eapply alloc_ok; eauto.
  - eapply set_ok; eauto.
  - eapply cas_ok; eauto.
  - eapply adv_ok; eauto.
  - eapply findGE_ok; eauto.
  - eapply findLT_ok; eauto.
  - eapply findLast_ok; eauto.
  - eapply next_ok; eauto.
  - eapply first_ok; eauto.
  - unfold thread_step in H. rewrite Hpc in H. discriminate.
Qed.

End Step.
