(* SkipList/ModelLife.v — who owns the nodes of a skiplist (definitions only).
   After the fix for F4 the nodes belong to a `Body` that the list and every iterator hold through
   the same `Arc`; the nodes are freed by `Body::drop`, i.e. when the LAST holder goes away.
   Before the fix the nodes were freed by `SkipList::drop` whatever iterators existed
   (`old_step`).  A handle that has been dropped cannot be used (Rust's ownership rules): using a
   dead handle is not an event of the model (`LStuck`).  What the model decides is whether a use
   of a LIVE iterator can touch freed nodes. *)
From Coq Require Import List Bool Arith.
From Blue Require Import SkipList.Model.
Import ListNotations.

Inductive lifeop :=
| LfIter              (* list.iter(): a new iterator handle (appended) *)
| LfClone (j : nat)   (* iterator j .clone() *)
| LfDropList          (* the SkipList goes out of scope *)
| LfDropIter (j : nat)
| LfInsert            (* any use of the list handle *)
| LfUse (j : nat).    (* any operation of iterator j: dereferences nodes *)

Record lifest := mkLife { list_alive : bool; iters : list bool; freed : bool }.
Inductive lifeout := LOk | LUaf | LStuck.

Definition holders (s : lifest) : nat :=
  (if list_alive s then 1 else 0) + length (filter (fun b => b) (iters s)).

(* the repaired code: Body::drop runs when the holder count reaches zero *)
Definition release (s : lifest) : lifest :=
  if Nat.eqb (holders s) 0 then mkLife (list_alive s) (iters s) true else s.

Definition touch (s : lifest) : lifeout := if freed s then LUaf else LOk.

Definition life_step (s : lifest) (o : lifeop) : lifest * lifeout :=
  match o with
  | LfIter => if list_alive s then (mkLife true (iters s ++ [true]) (freed s), touch s) else (s, LStuck)
  | LfClone j => if nth j (iters s) false then (mkLife (list_alive s) (iters s ++ [true]) (freed s), touch s) else (s, LStuck)
  | LfDropList => if list_alive s then (release (mkLife false (iters s) (freed s)), LOk) else (s, LStuck)
  | LfDropIter j => if nth j (iters s) false then (release (mkLife (list_alive s) (upd (iters s) j false) (freed s)), LOk) else (s, LStuck)
  | LfInsert => if list_alive s then (s, touch s) else (s, LStuck)
  | LfUse j => if nth j (iters s) false then (s, touch s) else (s, LStuck)
  end.

(* the code before the fix: SkipList::drop frees every node *)
Definition old_step (s : lifest) (o : lifeop) : lifest * lifeout :=
  match o with
  | LfDropList => if list_alive s then (mkLife false (iters s) true, LOk) else (s, LStuck)
  | LfDropIter j => if nth j (iters s) false then (mkLife (list_alive s) (upd (iters s) j false) (freed s), LOk) else (s, LStuck)
  | _ => life_step s o
  end.

Fixpoint life_run (step : lifest -> lifeop -> lifest * lifeout) (s : lifest) (ops : list lifeop) : list lifeout :=
  match ops with
  | [] => []
  | o :: r => let '(s', out) := step s o in out :: life_run step s' r
  end.

Definition life_init : lifest := mkLife true [] false.
