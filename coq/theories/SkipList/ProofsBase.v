(* SkipList/ProofsBase.v — list and memory-accessor lemmas for the skiplist model. *)
From Coq Require Import NArith ZArith List Bool Arith Lia Permutation.
From Blue Require Import SkipList.Model.
Import ListNotations.

(* ------------------------------------------------------------------ upd / nth *)
Lemma upd_length : forall A (l : list A) i v, length (upd l i v) = length l.
Proof. induction l as [|a l IH]; intros [|i] v; cbn; auto. Qed.

Lemma nth_upd_same : forall A (l : list A) i v d, i < length l -> nth i (upd l i v) d = v.
Proof.
  induction l as [|a l IH]; intros [|i] v d H; cbn in *; try lia; auto.
  apply IH. lia.
Qed.

Lemma nth_upd_other : forall A (l : list A) i j v d, i <> j -> nth i (upd l j v) d = nth i l d.
Proof.
  induction l as [|a l IH]; intros [|i] [|j] v d H; cbn; auto; try lia.
Qed.

Lemma upd_oob : forall A (l : list A) i v, length l <= i -> upd l i v = l.
Proof.
  induction l as [|a l IH]; intros [|i] v H; cbn in *; auto; try lia.
  f_equal. apply IH. lia.
Qed.

Lemma nth_error_upd_same : forall A (l : list A) i v, i < length l -> nth_error (upd l i v) i = Some v.
Proof.
  induction l as [|a l IH]; intros [|i] v H; cbn in *; try lia; auto.
  apply IH. lia.
Qed.

Lemma nth_error_upd_other : forall A (l : list A) i j v, i <> j -> nth_error (upd l j v) i = nth_error l i.
Proof.
  induction l as [|a l IH]; intros [|i] [|j] v H; cbn; auto; try lia.
Qed.

Lemma nth_repeat_None : forall n i, nth i (repeat (@None nat) n) None = None.
Proof. induction n; intros [|i]; cbn; auto. Qed.

Lemma nth_error_Some_lt : forall A (l : list A) i x, nth_error l i = Some x -> i < length l.
Proof. intros. apply nth_error_Some. congruence. Qed.

Lemma nth_error_nth' : forall A (l : list A) i x d, nth_error l i = Some x -> nth i l d = x.
Proof. intros. eapply nth_error_nth; eauto. Qed.

(* ------------------------------------------------------------------ accessors *)
Lemma getn_oob : forall m n, length m <= n -> getn m n = dnode.
Proof. intros. unfold getn. apply nth_overflow. lia. Qed.

Lemma lnk_oob : forall m n, length m <= n -> lnk_of m n = 0.
Proof. intros. unfold lnk_of. rewrite getn_oob; auto. Qed.

Lemma height_oob : forall m n, length m <= n -> height_of m n = 0.
Proof. intros. unfold height_of. rewrite getn_oob; auto. Qed.

Lemma next_oob : forall m n l, length m <= n -> next_of m n l = None.
Proof. intros. unfold next_of. rewrite getn_oob; auto. cbn. destruct l; auto. Qed.

Lemma next_of_high : forall m n l, height_of m n <= l -> next_of m n l = None.
Proof. intros. unfold next_of, height_of in *. apply nth_overflow. lia. Qed.

Lemma ptr_eqb_eq : forall a b, ptr_eqb a b = true <-> a = b.
Proof.
  intros [a|] [b|]; cbn; split; intro H; try congruence; auto.
  - apply Nat.eqb_eq in H. congruence.
  - inversion H. apply Nat.eqb_refl.
Qed.

Lemma ptr_eqb_neq : forall a b, ptr_eqb a b = false <-> a <> b.
Proof.
  intros a b. split; intro H.
  - intro E. apply ptr_eqb_eq in E. congruence.
  - destruct (ptr_eqb a b) eqn:E; auto. apply ptr_eqb_eq in E. contradiction.
Qed.

(* the effect of writing one successor cell *)
Definition wr (m : mem) (n l : nat) (v : ptr) : mem :=
  let nd := getn m n in upd m n (mkNode (nkey nd) (upd (nnext nd) l v) (nlnk nd)).

Section Wr.
Variables (m : mem) (n l : nat) (v : ptr).
Hypothesis Hn : n < length m.
Hypothesis Hl : l < height_of m n.

Lemma wr_length : length (wr m n l v) = length m.
Proof. unfold wr. apply upd_length. Qed.

Lemma wr_getn_other : forall a, a <> n -> getn (wr m n l v) a = getn m a.
Proof. intros. unfold wr, getn. apply nth_upd_other; auto. Qed.

Lemma wr_getn_same : getn (wr m n l v) n = mkNode (nkey (getn m n)) (upd (nnext (getn m n)) l v) (nlnk (getn m n)).
Proof. unfold wr, getn. apply nth_upd_same; auto. Qed.

Lemma wr_key : forall a, key_of (wr m n l v) a = key_of m a.
Proof.
  intros a. unfold key_of. destruct (Nat.eq_dec a n) as [->|Ne].
  - rewrite wr_getn_same. reflexivity.
  - rewrite wr_getn_other; auto.
Qed.

Lemma wr_lnk : forall a, lnk_of (wr m n l v) a = lnk_of m a.
Proof.
  intros a. unfold lnk_of. destruct (Nat.eq_dec a n) as [->|Ne].
  - rewrite wr_getn_same. reflexivity.
  - rewrite wr_getn_other; auto.
Qed.

Lemma wr_height : forall a, height_of (wr m n l v) a = height_of m a.
Proof.
  intros a. unfold height_of. destruct (Nat.eq_dec a n) as [->|Ne].
  - rewrite wr_getn_same. cbn. apply upd_length.
  - rewrite wr_getn_other; auto.
Qed.

Lemma wr_next_same : next_of (wr m n l v) n l = v.
Proof. unfold next_of. rewrite wr_getn_same. cbn. apply nth_upd_same. exact Hl. Qed.

Lemma wr_next_other : forall a b, (a <> n \/ b <> l) -> next_of (wr m n l v) a b = next_of m a b.
Proof.
  intros a b H. unfold next_of. destruct (Nat.eq_dec a n) as [->|Ne].
  - rewrite wr_getn_same. cbn. apply nth_upd_other. destruct H; congruence.
  - rewrite wr_getn_other; auto.
Qed.
End Wr.

(* the effect of the ghost update *)
Section SetLnk.
Variables (m : mem) (x c : nat).
Hypothesis Hx : x < length m.

Lemma sl_length : length (set_lnk m x c) = length m.
Proof. unfold set_lnk. apply upd_length. Qed.

Lemma sl_getn_other : forall a, a <> x -> getn (set_lnk m x c) a = getn m a.
Proof. intros. unfold set_lnk, getn. apply nth_upd_other; auto. Qed.

Lemma sl_getn_same : getn (set_lnk m x c) x = mkNode (nkey (getn m x)) (nnext (getn m x)) c.
Proof. unfold set_lnk, getn. apply nth_upd_same; auto. Qed.

Lemma sl_key : forall a, key_of (set_lnk m x c) a = key_of m a.
Proof.
  intros a. unfold key_of. destruct (Nat.eq_dec a x) as [->|Ne].
  - rewrite sl_getn_same. reflexivity.
  - rewrite sl_getn_other; auto.
Qed.

Lemma sl_height : forall a, height_of (set_lnk m x c) a = height_of m a.
Proof.
  intros a. unfold height_of. destruct (Nat.eq_dec a x) as [->|Ne].
  - rewrite sl_getn_same. reflexivity.
  - rewrite sl_getn_other; auto.
Qed.

Lemma sl_next : forall a b, next_of (set_lnk m x c) a b = next_of m a b.
Proof.
  intros a b. unfold next_of. destruct (Nat.eq_dec a x) as [->|Ne].
  - rewrite sl_getn_same. reflexivity.
  - rewrite sl_getn_other; auto.
Qed.

Lemma sl_lnk_same : lnk_of (set_lnk m x c) x = c.
Proof. unfold lnk_of. rewrite sl_getn_same. reflexivity. Qed.

Lemma sl_lnk_other : forall a, a <> x -> lnk_of (set_lnk m x c) a = lnk_of m a.
Proof. intros. unfold lnk_of. rewrite sl_getn_other; auto. Qed.
End SetLnk.

(* allocation *)
Section Alloc.
Variables (m : mem) (nd : node).

Lemma al_getn_old : forall a, a < length m -> getn (m ++ [nd]) a = getn m a.
Proof. intros. unfold getn. apply app_nth1; auto. Qed.

Lemma al_getn_new : getn (m ++ [nd]) (length m) = nd.
Proof. unfold getn. rewrite app_nth2; auto. rewrite Nat.sub_diag. reflexivity. Qed.

Lemma al_length : length (m ++ [nd]) = S (length m).
Proof. rewrite app_length. cbn. lia. Qed.
End Alloc.

(* get_next / set_next / cas_next in terms of the above *)
Lemma get_next_Some : forall m n l v, get_next m n l = Some v ->
  n < length m /\ l < height_of m n /\ v = next_of m n l.
Proof.
  unfold get_next. intros m n l v H.
  destruct (n <? length m) eqn:E1; cbn [andb] in H; try discriminate.
  destruct (l <? height_of m n) eqn:E2; cbn [andb] in H; try discriminate.
  apply Nat.ltb_lt in E1. apply Nat.ltb_lt in E2. inversion H; subst. repeat split; auto.
Qed.

Lemma get_next_ok : forall m n l, n < length m -> l < height_of m n -> get_next m n l = Some (next_of m n l).
Proof.
  unfold get_next. intros m n l H1 H2.
  apply Nat.ltb_lt in H1. apply Nat.ltb_lt in H2. rewrite H1, H2. reflexivity.
Qed.

Lemma set_next_Some : forall m n l v m', set_next m n l v = Some m' ->
  n < length m /\ l < height_of m n /\ m' = wr m n l v.
Proof.
  unfold set_next. intros m n l v m' H.
  destruct (n <? length m) eqn:E1; cbn [andb] in H; try discriminate.
  destruct (l <? height_of m n) eqn:E2; cbn [andb] in H; try discriminate.
  apply Nat.ltb_lt in E1. apply Nat.ltb_lt in E2. inversion H; subst. repeat split; auto.
Qed.

Lemma set_next_ok : forall m n l v, n < length m -> l < height_of m n -> set_next m n l v = Some (wr m n l v).
Proof.
  unfold set_next. intros m n l v H1 H2.
  apply Nat.ltb_lt in H1. apply Nat.ltb_lt in H2. rewrite H1, H2. reflexivity.
Qed.

Lemma cas_next_Some : forall m n l old x m' b, cas_next m n l old (Some x) = Some (m', b) ->
  n < length m /\ l < height_of m n /\
  ((b = true /\ next_of m n l = old /\ m' = set_lnk (wr m n l (Some x)) x (S l)) \/
   (b = false /\ next_of m n l <> old /\ m' = m)).
Proof.
  unfold cas_next. intros m n l old x m' b H.
  destruct (n <? length m) eqn:E1; cbn [andb] in H; try discriminate.
  destruct (l <? height_of m n) eqn:E2; cbn [andb] in H; try discriminate.
  apply Nat.ltb_lt in E1. apply Nat.ltb_lt in E2.
  destruct (ptr_eqb (next_of m n l) old) eqn:E3.
  - apply ptr_eqb_eq in E3. inversion H. subst. split; auto.
  - apply ptr_eqb_neq in E3. inversion H. subst. split; auto.
Qed.

Lemma cas_next_ok : forall m n l old new, n < length m -> l < height_of m n ->
  exists r, cas_next m n l old new = Some r.
Proof.
  unfold cas_next. intros m n l old new H1 H2.
  apply Nat.ltb_lt in H1. apply Nat.ltb_lt in H2. rewrite H1, H2. cbn.
  destruct (ptr_eqb (next_of m n l) old); eauto.
Qed.
