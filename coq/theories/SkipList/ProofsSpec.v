(* SkipList/ProofsSpec.v — every operation returns what the atomic operation on the abstract key
   set returns at the moment of the operation's last step (its linearisation point). *)
From Coq Require Import NArith ZArith List Bool Arith Lia Permutation.
From Blue Require Import SkipList.Model SkipList.ProofsBase SkipList.ProofsInv SkipList.ProofsStep
  SkipList.ProofsGlobal.
Import ListNotations.

(* the relation between the record of a completed operation and the abstract key set K at the
   moment of its last step (K' = the key set just after that step) *)
Definition res_ok (K K' : list N) (r : res) : Prop :=
  match r with
  | RIns k => In k K'
  | RContains k b => b = true <-> In k K
  | RSeek k r => least_ge K k r
  | RFirst r => least_of K r
  | RLast => True
  | RNext AtEnd r => r = None
  | RNext AtHead r => least_of K r
  | RNext (AtKey a) r => least_gt K a r
  | RPrev AtEnd r => greatest_of K r
  | RPrev AtHead r => r = None
  | RPrev (AtKey a) r => greatest_lt K a r
  | RPanic => False
  end.

Section Spec.
Variable maxh : nat.
Hypothesis maxh_pos : 1 <= maxh.

Notation mem_inv := (mem_inv maxh).
Notation thread_inv := (thread_inv maxh).

Lemma keys0_node : forall m n, n <> 0 -> linked m n 0 -> In (key_of m n) (keys0 m).
Proof.
  intros m n Nz L. apply keys0_spec. exists n. pose proof (linked_lt _ _ _ L). repeat split; auto; lia.
Qed.

Lemma keys0_inv : forall m k, In k (keys0 m) -> exists n, linked m n 0 /\ n <> 0 /\ ek m n = Z.of_N k.
Proof.
  intros m k H. apply keys0_spec in H. destruct H as [n [Hn [L E]]]. exists n.
  repeat split; auto; try lia. rewrite ek_nz; [|lia]. rewrite E. reflexivity.
Qed.

Lemma no_keys_nil : forall (K : list N), (forall q, ~ In q K) -> K = [].
Proof. intros [|a K] H; auto. exfalso. apply (H a). left. reflexivity. Qed.

(* find_greater_or_equal's last read *)
Lemma spec_ge : forall m x k, mem_inv m -> linked m x 0 -> (ek m x < Z.of_N k)%Z ->
  key_is_after m k (next_of m x 0) = false ->
  least_ge (keys0 m) k (pos_of m (next_of m x 0)) /\
  (match next_of m x 0 with None => false | Some y => (key_of m y =? k)%N end = true <-> In k (keys0 m)).
Proof.
  intros m x k I L Hx A. destruct (next_of m x 0) as [y|] eqn:Hy.
  - destruct (chain_some maxh m x 0 y I L Hy) as [C1 [C2 [C3 [C4 [C5 C6]]]]].
    pose proof (after_false _ _ _ A) as Hk.
    assert (PY : pos_of m (Some y) = Some (key_of m y)).
    { cbn. destruct (Nat.eqb_spec y 0); [contradiction|reflexivity]. }
    rewrite PY. split.
    + cbn. split; [apply keys0_node; auto|]. split; auto.
      intros q Hq Hkq. destruct (keys0_inv m q Hq) as [n [Ln [Nz En]]].
      specialize (C6 n Ln). lia.
    + split.
      * intro E. apply N.eqb_eq in E. rewrite <- E. apply keys0_node; auto.
      * intro Hin. apply N.eqb_eq. destruct (keys0_inv m k Hin) as [n [Ln [Nz En]]].
        specialize (C6 n Ln). lia.
  - pose proof (chain_none maxh m x 0 I L Hy) as C. split.
    + cbn. intros q Hq. destruct (keys0_inv m q Hq) as [n [Ln [Nz En]]]. specialize (C n Ln). lia.
    + split; [discriminate|]. intro Hin. destruct (keys0_inv m k Hin) as [n [Ln [Nz En]]].
      specialize (C n Ln). lia.
Qed.

(* next() / seek_to_first: one read of a level-0 successor *)
Lemma spec_gt : forall m n, mem_inv m -> linked m n 0 ->
  match ipos_of m (Some n) with
  | AtEnd => False
  | AtHead => least_of (keys0 m) (pos_of m (next_of m n 0))
  | AtKey a => least_gt (keys0 m) a (pos_of m (next_of m n 0))
  end.
Proof.
  intros m n I L. cbn [ipos_of]. destruct (next_of m n 0) as [y|] eqn:Hy.
  - destruct (chain_some maxh m n 0 y I L Hy) as [C1 [C2 [C3 [C4 [C5 C6]]]]].
    assert (PY : pos_of m (Some y) = Some (key_of m y)).
    { cbn. destruct (Nat.eqb_spec y 0); [contradiction|reflexivity]. }
    rewrite PY. destruct (Nat.eqb_spec n 0) as [->|Nz].
    + cbn. split; [apply keys0_node; auto|]. intros q Hq.
      destruct (keys0_inv m q Hq) as [n' [Ln [Nz En]]]. specialize (C6 n' Ln). rewrite ek_0 in C6. lia.
    + cbn. rewrite (ek_nz m n) in C2; auto. split; [apply keys0_node; auto|]. split; [lia|].
      intros q Hq Hlt. destruct (keys0_inv m q Hq) as [n' [Ln [Nz' En]]]. specialize (C6 n' Ln).
      rewrite (ek_nz m n) in C6; auto. lia.
  - pose proof (chain_none maxh m n 0 I L Hy) as C. destruct (Nat.eqb_spec n 0) as [->|Nz].
    + cbn. apply no_keys_nil. intros q Hq. destruct (keys0_inv m q Hq) as [n' [Ln [Nz En]]].
      specialize (C n' Ln). rewrite ek_0 in C. lia.
    + cbn. intros q Hq. destruct (keys0_inv m q Hq) as [n' [Ln [Nz' En]]]. specialize (C n' Ln).
      rewrite (ek_nz m n) in C; auto. lia.
Qed.

(* find_less_than's last read *)
Lemma spec_lt : forall m x k, mem_inv m -> linked m x 0 -> (ek m x < Z.of_N k)%Z ->
  match next_of m x 0 with None => true | Some y => (k <=? key_of m y)%N end = true ->
  greatest_lt (keys0 m) k (pos_of m (Some x)).
Proof.
  intros m x k I L Hx S.
  assert (UP : forall n, linked m n 0 -> (ek m n < Z.of_N k)%Z -> (ek m n <= ek m x)%Z).
  { intros n Ln Hn. destruct (next_of m x 0) as [y|] eqn:Hy.
    - destruct (chain_some maxh m x 0 y I L Hy) as [C1 [C2 [C3 [C4 [C5 C6]]]]].
      apply N.leb_le in S. specialize (C6 n Ln). lia.
    - apply (chain_none maxh m x 0 I L Hy n Ln). }
  cbn [pos_of]. destruct (Nat.eqb_spec x 0) as [->|Nz].
  - cbn. intros q Hq. destruct (keys0_inv m q Hq) as [n [Ln [Nz En]]].
    destruct (Z.lt_ge_cases (ek m n) (Z.of_N k)) as [Lt|Ge]; [|lia].
    specialize (UP n Ln Lt). rewrite ek_0 in UP. pose proof (ek_ge m n). lia.
  - cbn. rewrite (ek_nz m x) in Hx; auto. split; [apply keys0_node; auto|]. split; [lia|].
    intros q Hq Hlt. destruct (keys0_inv m q Hq) as [n [Ln [Nz' En]]].
    assert (Lt : (ek m n < Z.of_N k)%Z) by lia. specialize (UP n Ln Lt). rewrite (ek_nz m x) in UP; auto. lia.
Qed.

(* find_last's last read *)
Lemma spec_last : forall m x, mem_inv m -> linked m x 0 -> next_of m x 0 = None ->
  greatest_of (keys0 m) (pos_of m (Some x)).
Proof.
  intros m x I L Hy. pose proof (chain_none maxh m x 0 I L Hy) as C.
  cbn [pos_of]. destruct (Nat.eqb_spec x 0) as [->|Nz].
  - cbn. apply no_keys_nil. intros q Hq. destruct (keys0_inv m q Hq) as [n [Ln [Nz En]]].
    specialize (C n Ln). rewrite ek_0 in C. lia.
  - cbn. split; [apply keys0_node; auto|]. intros q Hq.
    destruct (keys0_inv m q Hq) as [n [Ln [Nz' En]]]. specialize (C n Ln). rewrite (ek_nz m x) in C; auto. lia.
Qed.

(* ------------------------------------------------------------------ one step of one thread *)
Definition step_res (K K' : list N) (th th' : thread) : Prop :=
  outs th' = outs th \/ exists r, outs th' = outs th ++ [r] /\ res_ok K K' r.

Lemma sr_goto : forall K K' th p, step_res K K' th (goto th p).
Proof. intros. left. reflexivity. Qed.

Lemma sr_finish : forall K K' th i r, res_ok K K' r -> step_res K K' th (finish th i r).
Proof. intros. right. exists r. split; auto. Qed.

Ltac sr_g := left; reflexivity.
Ltac sr_f := right; eexists; split; [reflexivity|cbn [res_ok]].

Theorem thread_step_res : forall m th m' th' e, mem_inv m -> thread_inv m th ->
  (forall k, In k (pend_keys th) -> fresh m k) ->
  thread_step maxh m th = Some (m', th', e) ->
  step_res (keys0 m) (keys0 m') th th'.
Proof.
  intros m th m' th' e I T F H.
  pose proof (thread_step_ok maxh maxh_pos m th m' th' e I T F H) as OK.
  pose proof (ti_pc maxh m th T) as P.
  (* a panic is excluded by the invariant of the successor state *)
  assert (NP : ~ In RPanic (outs th')) by apply (ti_nopanic _ _ _ (so_th _ _ _ _ _ OK)).
  assert (PAN : th' = panic th -> step_res (keys0 m) (keys0 m') th th').
  { intros ->. exfalso. apply NP. cbn. apply in_or_app. right. left. reflexivity. }
  unfold thread_step in H. destruct (tpc th) eqn:Hpc; cbn [pc_inv] in P.
  - (* begin *)
    destruct (prog th) as [|o rest]; [discriminate|]. inversion H; subst m' th' e.
    destruct o; cbn [begin_op]; try sr_g.
    + sr_f. exact Logic.I.
    + destruct (it th); [sr_g|sr_f; reflexivity].
    + destruct (it th) as [n|]; [|sr_g].
      destruct (n =? 0); [sr_f; reflexivity|sr_g].
  - (* PFindI *)
    destruct P as [_ [_ [L _]]]. rewrite (get_next_linked maxh m x lvl I L) in H.
    destruct (key_is_after m k (next_of m x lvl)).
    + destruct (next_of m x lvl); inversion H; subst; auto. sr_g.
    + destruct lvl; inversion H; subst; sr_g.
  - (* PAlloc *)
    match type of H with (if ?c then _ else _) = _ => destruct c end; inversion H; subst; auto. sr_g.
  - (* PSet *)
    destruct (set_next m x idx (nth idx obs None)); inversion H; subst; auto. sr_g.
  - (* PCas *)
    destruct (nth idx prev None) as [p|]; [|inversion H; subst; auto].
    destruct (cas_next m p idx (nth idx obs None) (Some x)) as [[m1 [|]]|]; [| |inversion H; subst; auto].
    + destruct (S idx <? h); inversion H; subst; [sr_g|]. sr_f.
      apply (ti_outs _ _ _ (so_th _ _ _ _ _ OK)). cbn. apply in_or_app. right. left. reflexivity.
    + inversion H; subst. sr_g.
  - (* PAdv *)
    destruct (nth idx prev None) as [p|]; [|inversion H; subst; auto].
    destruct (get_next m p idx); [|inversion H; subst; auto].
    destruct (key_is_after m (key_of m x) p0); inversion H; subst; sr_g.
  - (* PFindGE *)
    destruct P as [_ [L Hx]]. rewrite (get_next_linked maxh m x lvl I L) in H.
    destruct (key_is_after m k (next_of m x lvl)) eqn:A.
    + destruct (next_of m x lvl); inversion H; subst; auto. sr_g.
    + destruct lvl; [|inversion H; subst; sr_g].
      destruct (spec_ge m x k I L Hx A) as [S1 S2].
      destruct fk; inversion H; subst; sr_f.
      * exact S2.
      * exact S1.
  - (* PFindLT *)
    destruct P as [_ [L Hx]].
    match type of H with (if ?c then _ else _) = _ => destruct c end; [inversion H; subst; auto|].
    rewrite (get_next_linked maxh m x lvl I L) in H.
    destruct (match next_of m x lvl with None => true | Some y => (k <=? key_of m y)%N end) eqn:S.
    + destruct lvl; inversion H; subst; [|sr_g]. sr_f.
      apply spec_lt; auto.
    + destruct (next_of m x lvl); inversion H; subst; auto. sr_g.
  - (* PFindLast *)
    destruct P as [_ L]. rewrite (get_next_linked maxh m x lvl I L) in H.
    destruct (next_of m x lvl) eqn:Hy; [inversion H; subst; sr_g|].
    destruct lvl; inversion H; subst; [|sr_g]. sr_f.
    apply spec_last; auto.
  - (* PNext *)
    rewrite (get_next_linked maxh m n 0 I P) in H. inversion H; subst. sr_f.
    pose proof (spec_gt m' n I P) as S. cbn [ipos_of] in *. destruct (n =? 0); exact S.
  - (* PFirst *)
    assert (L : linked m 0 0) by (apply (head_linked maxh); auto).
    rewrite (get_next_linked maxh m 0 0 I L) in H. inversion H; subst. sr_f.
    pose proof (spec_gt m' 0 I L) as S. cbn [res_ok]. exact S.
  - discriminate.
Qed.

End Spec.
