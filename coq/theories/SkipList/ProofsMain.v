(* SkipList/ProofsMain.v — the property-level consequences of the invariants and of the history
   theorem: no panic, no lost insert, linearisable searches, sorted and complete iteration. *)
From Coq Require Import NArith ZArith List Bool Arith Lia Permutation Sorted.
From Blue Require Import SkipList.Model SkipList.ProofsBase SkipList.ProofsInv SkipList.ProofsStep
  SkipList.ProofsGlobal SkipList.ProofsSpec SkipList.ProofsHist.
Import ListNotations.

(* ------------------------------------------------------------------ pure lemmas about histories *)
Lemma hist_in : forall K rs K' r, hist K rs K' -> In r rs ->
  exists K1 K1', incl K K1 /\ incl K1 K1' /\ incl K1' K' /\ res_ok K1 K1' r.
Proof.
  induction 1 as [|K K1 K1' r0 rs K' Ha Hb Hr Hh IH]; intros Hin; [contradiction|].
  destruct Hin as [<-|Hin].
  - exists K1, K1'. repeat split; auto. eapply hist_incl; eauto.
  - destruct (IH Hin) as [Ka [Kb [A [B [C D]]]]]. exists Ka, Kb. repeat split; auto.
    eapply incl_tran; [|exact A]. eapply incl_tran; eauto.
Qed.

(* the keys an iteration yields *)
Definition res_key (r : res) : option N :=
  match r with
  | RFirst y | RNext _ y | RSeek _ y | RPrev _ y => y
  | _ => None
  end.
Fixpoint somes (l : list (option N)) : list N :=
  match l with
  | [] => []
  | Some a :: t => a :: somes t
  | None :: t => somes t
  end.
Definition is_next (r : res) : Prop := match r with RNext _ _ => True | _ => False end.

Lemma in_somes : forall l a, In a (somes l) <-> In (Some a) l.
Proof.
  induction l as [|[b|] l IH]; intros a; cbn; [tauto| |].
  - rewrite IH. split; intros [H|H]; auto; [left; congruence|inversion H; auto].
  - rewrite IH. split; auto. intros [H|H]; auto. discriminate.
Qed.

Lemma last_cons_indep : forall A (l : list A) x d d', last (x :: l) d = last (x :: l) d'.
Proof. induction l as [|y l IH]; intros x d d'; auto. change (last (y :: l) d = last (y :: l) d'). apply IH. Qed.

Lemma last_cons_shift : forall A (l : list A) x d, last (x :: l) d = last l x.
Proof.
  intros A l x d. destruct l as [|y l]; auto. change (last (y :: l) d = last (y :: l) x). apply last_cons_indep.
Qed.

(* after the end has been reached every further next() stays there *)
Lemma nexts_at_end : forall rs K K', hist K rs K' -> Forall is_next rs -> froms_ok AtEnd rs ->
  somes (map res_key rs) = [].
Proof.
  induction rs as [|r rs IH]; intros K K' H Fn Fo; auto.
  inversion Fn as [|? ? Hn Fn']; subst. destruct r; cbn in Hn; try contradiction.
  cbn in Fo. destruct Fo as [-> Fo].
  inversion H as [|? K1 K1' ? ? ? Ha Hb Hr Hh]; subst. cbn in Hr. subst r. cbn.
  eapply IH; eauto.
Qed.

Lemma nexts_from_key : forall rs K K' a, hist K rs K' -> Forall is_next rs -> froms_ok (AtKey a) rs ->
  Forall (fun y => (a < y)%N /\ In y K') (somes (map res_key rs)) /\
  StronglySorted N.lt (somes (map res_key rs)) /\
  (last (map res_key rs) (Some a) = None -> forall k, In k K -> (a < k)%N -> In k (somes (map res_key rs))).
Proof.
  induction rs as [|r rs IH]; intros K K' a H Fn Fo.
  - cbn. repeat split; try constructor. discriminate.
  - inversion Fn as [|? ? Hn Fn']; subst. destruct r; cbn in Hn; try contradiction.
    cbn in Fo. destruct Fo as [-> Fo].
    inversion H as [|? K1 K1' ? ? ? Ha Hb Hr Hh]; subst. cbn in Hr.
    pose proof (hist_incl _ _ _ Hh) as Hinc.
    destruct r as [b|].
    + destruct Hr as [Hb1 [Hb2 Hb3]].
      destruct (IH K1' K' b Hh Fn' Fo) as [A [B C]]. cbn [map res_key somes]. split; [|split].
      * constructor; [split; auto|]. eapply Forall_impl; [|exact A]. intros y [Y1 Y2]. split; auto. lia.
      * constructor; auto. eapply Forall_impl; [|exact A]. intros y [Y1 Y2]. exact Y1.
      * intros Hl k Hk Hak. assert (Hk1 : In k K1) by (apply Ha; auto).
        pose proof (Hb3 k Hk1 Hak) as Hle. destruct (N.eq_dec k b) as [->|Ne]; [left; reflexivity|].
        right. apply C; auto; try lia.
        cbn [map res_key] in Hl. rewrite last_cons_shift in Hl. exact Hl.
    + cbn in Fo. cbn [map res_key somes]. rewrite (nexts_at_end rs K1' K' Hh Fn' Fo).
      split; [constructor|]. split; [constructor|]. intros _ k Hk Hak.
      assert (Hk1 : In k K1) by (apply Ha; auto). specialize (Hr k Hk1). lia.
Qed.

(* seek_to_first followed by any number of next: strictly increasing, and complete once the end
   has been reached *)
Theorem iteration_hist : forall K K' y0 rs, hist K (RFirst y0 :: rs) K' -> Forall is_next rs ->
  froms_ok (after_fwd y0) rs ->
  let ys := y0 :: map res_key rs in
  StronglySorted N.lt (somes ys) /\
  (forall y, In y (somes ys) -> In y K') /\
  (last ys None = None -> forall k, In k K -> In k (somes ys)).
Proof.
  intros K K' y0 rs H Fn Fo ys. unfold ys.
  inversion H as [|? K1 K1' ? ? ? Ha Hb Hr Hh]; subst. cbn in Hr.
  pose proof (hist_incl _ _ _ Hh) as Hinc.
  destruct y0 as [a|].
  - destruct Hr as [Ha1 Ha2]. cbn in Fo.
    destruct (nexts_from_key rs K1' K' a Hh Fn Fo) as [A [B C]]. cbn [somes]. split; [|split].
    + constructor; auto. eapply Forall_impl; [|exact A]. intros y [Y1 Y2]. exact Y1.
    + intros y [<-|Hy]; auto. rewrite Forall_forall in A. apply A. exact Hy.
    + intros Hl k Hk. assert (Hk1 : In k K1) by (apply Ha; auto).
      pose proof (Ha2 k Hk1) as Hle. destruct (N.eq_dec k a) as [->|Ne]; [left; reflexivity|].
      right. apply C; auto; try lia.
      rewrite last_cons_shift in Hl. exact Hl.
  - cbn in Fo. cbn [somes]. rewrite (nexts_at_end rs K1' K' Hh Fn Fo). split; [constructor|].
    split; [intros y []|]. intros _ k Hk. assert (Hk1 : In k K1) by (apply Ha; auto).
    cbn in Hr. rewrite Hr in Hk1. contradiction.
Qed.

Lemma ssorted_nodup : forall l, StronglySorted N.lt l -> NoDup l.
Proof.
  induction 1 as [|a l S IH F]; constructor; auto.
  intro Hin. rewrite Forall_forall in F. specialize (F a Hin). lia.
Qed.

(* ---- the same, backwards: seek_to_last followed by any number of prev *)
Definition is_prev (r : res) : Prop := match r with RPrev _ _ => True | _ => False end.
Definition N_gt (x y : N) : Prop := (y < x)%N.

Lemma prevs_at_head : forall rs K K', hist K rs K' -> Forall is_prev rs -> froms_ok AtHead rs ->
  somes (map res_key rs) = [].
Proof.
  induction rs as [|r rs IH]; intros K K' H Fn Fo; auto.
  inversion Fn as [|? ? Hn Fn']; subst. destruct r; cbn in Hn; try contradiction.
  cbn in Fo. destruct Fo as [-> Fo].
  inversion H as [|? K1 K1' ? ? ? Ha Hb Hr Hh]; subst. cbn in Hr. subst r. cbn.
  eapply IH; eauto.
Qed.

Lemma prevs_from_key : forall rs K K' a, hist K rs K' -> Forall is_prev rs -> froms_ok (AtKey a) rs ->
  Forall (fun y => (y < a)%N /\ In y K') (somes (map res_key rs)) /\
  StronglySorted N_gt (somes (map res_key rs)) /\
  (last (map res_key rs) (Some a) = None -> forall k, In k K -> (k < a)%N -> In k (somes (map res_key rs))).
Proof.
  induction rs as [|r rs IH]; intros K K' a H Fn Fo.
  - cbn. repeat split; try constructor. discriminate.
  - inversion Fn as [|? ? Hn Fn']; subst. destruct r; cbn in Hn; try contradiction.
    cbn in Fo. destruct Fo as [-> Fo].
    inversion H as [|? K1 K1' ? ? ? Ha Hb Hr Hh]; subst. cbn in Hr.
    pose proof (hist_incl _ _ _ Hh) as Hinc.
    destruct r as [b|].
    + destruct Hr as [Hb1 [Hb2 Hb3]].
      destruct (IH K1' K' b Hh Fn' Fo) as [A [B C]]. cbn [map res_key somes]. split; [|split].
      * constructor; [split; auto|]. eapply Forall_impl; [|exact A]. intros y [Y1 Y2]. split; auto. lia.
      * constructor; auto. eapply Forall_impl; [|exact A]. intros y [Y1 Y2]. exact Y1.
      * intros Hl k Hk Hak. assert (Hk1 : In k K1) by (apply Ha; auto).
        pose proof (Hb3 k Hk1 Hak) as Hle. destruct (N.eq_dec k b) as [->|Ne]; [left; reflexivity|].
        right. apply C; auto; try lia.
        cbn [map res_key] in Hl. rewrite last_cons_shift in Hl. exact Hl.
    + cbn in Fo. cbn [map res_key somes]. rewrite (prevs_at_head rs K1' K' Hh Fn' Fo).
      split; [constructor|]. split; [constructor|]. intros _ k Hk Hak.
      assert (Hk1 : In k K1) by (apply Ha; auto). specialize (Hr k Hk1). lia.
Qed.

Theorem backward_hist : forall K K' f y0 rs, hist K (RLast :: RPrev f y0 :: rs) K' -> Forall is_prev rs ->
  froms_ok AtEnd (RPrev f y0 :: rs) ->
  let ys := y0 :: map res_key rs in
  StronglySorted N_gt (somes ys) /\
  (forall y, In y (somes ys) -> In y K') /\
  (last ys None = None -> forall k, In k K -> In k (somes ys)).
Proof.
  intros K K' f y0 rs H Fn Fo ys. unfold ys.
  inversion H as [|? Ka Kb ? ? ? Haa Hab _ H2]; subst.
  cbn in Fo. destruct Fo as [-> Fo].
  inversion H2 as [|? K1 K1' ? ? ? Ha Hb Hr Hh]; subst. cbn in Hr.
  assert (HK : incl K K1) by (eapply incl_tran; [|exact Ha]; eapply incl_tran; eauto).
  pose proof (hist_incl _ _ _ Hh) as Hinc.
  destruct y0 as [a|].
  - destruct Hr as [Ha1 Ha2]. cbn in Fo.
    destruct (prevs_from_key rs K1' K' a Hh Fn Fo) as [A [B C]]. cbn [somes]. split; [|split].
    + constructor; auto. eapply Forall_impl; [|exact A]. intros y [Y1 Y2]. exact Y1.
    + intros y [<-|Hy]; auto. rewrite Forall_forall in A. apply A. exact Hy.
    + intros Hl k Hk. assert (Hk1 : In k K1) by (apply HK; auto).
      pose proof (Ha2 k Hk1) as Hle. destruct (N.eq_dec k a) as [->|Ne]; [left; reflexivity|].
      right. apply C; auto; try lia.
      rewrite last_cons_shift in Hl. exact Hl.
  - cbn in Fo. cbn [somes]. rewrite (prevs_at_head rs K1' K' Hh Fn Fo). split; [constructor|].
    split; [intros y []|]. intros _ k Hk. assert (Hk1 : In k K1) by (apply HK; auto).
    cbn in Hr. rewrite Hr in Hk1. contradiction.
Qed.

Lemma ssorted_gt_nodup : forall l, StronglySorted N_gt l -> NoDup l.
Proof.
  induction 1 as [|a l S IH F]; constructor; auto.
  intro Hin. rewrite Forall_forall in F. specialize (F a Hin). unfold N_gt in F. lia.
Qed.

(* ------------------------------------------------------------------ reachable states *)
Section Main.
Variable maxh : nat.
Hypothesis maxh_pos : 1 <= maxh.
Variable progs : list (list op).
Hypothesis progs_wf : progs_ok maxh progs.
Hypothesis keys_distinct : NoDup (all_ins_keys progs).

Let K0 := all_ins_keys progs.
Definition reach (s : state) : Prop := exists sched, s = run maxh sched (init maxh progs).

Lemma init_from : forall i th, nth_error (sthreads (init maxh progs)) i = Some th -> from_inv (smem (init maxh progs)) th.
Proof.
  intros i th H. cbn in H. apply nth_error_In in H. apply in_map_iff in H. destruct H as [p [<- _]].
  constructor; cbn; auto.
Qed.

Theorem reach_inv2 : forall s, reach s -> inv2 maxh K0 s.
Proof.
  intros s [sched ->]. apply run_inv2; auto. split.
  - apply init_inv; auto.
  - apply init_from.
Qed.

Theorem reach_inv : forall s, reach s -> inv maxh K0 s.
Proof. intros s R. apply (reach_inv2 s R). Qed.

Lemma reach_run : forall s sched, reach s -> reach (run maxh sched s).
Proof.
  intros s sched [sc ->]. exists (sc ++ sched).
  generalize (init maxh progs). induction sc as [|t sc IH]; intros s0; cbn; auto.
  destruct (step maxh t s0) as [[s1 e]|]; auto.
Qed.

(* no assertion of the library fails, no null or dangling pointer is dereferenced *)
Theorem no_panic : forall s t th, reach s -> nth_error (sthreads s) t = Some th ->
  tpc th <> PPanic /\ ~ In RPanic (outs th).
Proof.
  intros s t th R H. pose proof (inv_threads _ _ s (reach_inv s R) t th H) as T. split.
  - intro E. pose proof (ti_pc _ _ _ T) as P. rewrite E in P. exact P.
  - apply (ti_nopanic _ _ _ T).
Qed.

(* an insert that has returned is in the key set, and stays there *)
Theorem insert_in_keys : forall s t th k, reach s -> nth_error (sthreads s) t = Some th ->
  In (RIns k) (outs th) -> In k (keys0 (smem s)).
Proof.
  intros s t th k R H Hk. apply (ti_outs _ _ _ (inv_threads _ _ s (reach_inv s R) t th H) k Hk).
Qed.

Theorem keys_grow : forall s sched, reach s -> incl (keys0 (smem s)) (keys0 (smem (run maxh sched s))).
Proof.
  intros s sched R. apply keys0_incl_ext. eapply run_ext; eauto. apply reach_inv. exact R.
Qed.

(* only inserted keys are ever in the list *)
Theorem keys_inserted : forall s k, reach s -> In k (keys0 (smem s)) -> In k K0.
Proof.
  intros s k R H. pose proof (inv_keys _ _ s (reach_inv s R)) as P.
  eapply Permutation_in; [exact P|]. apply in_or_app. left.
  apply keys0_spec in H. destruct H as [n [Hn [_ <-]]]. apply mem_keys_in. exact Hn.
Qed.

(* the results thread t obtains between s1 and a later state: each satisfies its specification at
   a moment between the two states, in order; and iterator operations continue from where the
   previous one left the iterator *)
Theorem results_between : forall s1 sched t th1, reach s1 -> nth_error (sthreads s1) t = Some th1 ->
  exists th2 rs, nth_error (sthreads (run maxh sched s1)) t = Some th2 /\
    outs th2 = outs th1 ++ rs /\
    hist (keys0 (smem s1)) rs (keys0 (smem (run maxh sched s1))) /\
    froms_ok (last_ipos (outs th1) AtEnd) rs.
Proof.
  intros s1 sched t th1 R H.
  destruct (history maxh maxh_pos K0 keys_distinct sched s1 t th1 (reach_inv s1 R) H) as [th2 [rs [A [B C]]]].
  exists th2, rs. repeat split; auto.
  pose proof (reach_inv2 _ (reach_run s1 sched R)) as [_ FI].
  pose proof (fi_outs _ _ (FI t th2 A)) as Fo. rewrite B in Fo. apply froms_ok_app2 in Fo. apply Fo.
Qed.

(* every insert that has returned is found by every later search *)
Theorem insert_not_lost_contains : forall s1 sched t1 th1 k t tha thb rs b, reach s1 ->
  nth_error (sthreads s1) t1 = Some th1 -> In (RIns k) (outs th1) ->
  nth_error (sthreads s1) t = Some tha ->
  nth_error (sthreads (run maxh sched s1)) t = Some thb ->
  outs thb = outs tha ++ rs -> In (RContains k b) rs -> b = true.
Proof.
  intros s1 sched t1 th1 k t tha thb rs b R H1 Hk Ha Hb Ho Hin.
  destruct (results_between s1 sched t tha R Ha) as [th2 [rs' [A [B [C D]]]]].
  rewrite Hb in A. inversion A; subst th2. rewrite Ho in B. apply app_inv_head in B. subst rs'.
  destruct (hist_in _ _ _ _ C Hin) as [K1 [K1' [I1 [I2 [I3 Hr]]]]]. cbn in Hr. apply Hr.
  apply I1. exact (insert_in_keys s1 t1 th1 k R H1 Hk).
Qed.

(* a full iteration (seek_to_first, then next until the end) performed after s1: strictly
   increasing, only keys of the list, and every key that was in the list at s1 exactly once *)
Theorem iteration_sorted_once : forall s1 sched t tha thb y0 rs, reach s1 ->
  nth_error (sthreads s1) t = Some tha ->
  nth_error (sthreads (run maxh sched s1)) t = Some thb ->
  outs thb = outs tha ++ RFirst y0 :: rs -> Forall is_next rs ->
  let ys := somes (y0 :: map res_key rs) in
  StronglySorted N.lt ys /\ NoDup ys /\
  (forall y, In y ys -> In y (keys0 (smem (run maxh sched s1)))) /\
  (last (y0 :: map res_key rs) None = None -> forall k, In k (keys0 (smem s1)) -> In k ys).
Proof.
  intros s1 sched t tha thb y0 rs R Ha Hb Ho Fn ys.
  destruct (results_between s1 sched t tha R Ha) as [th2 [rs' [A [B [C D]]]]].
  rewrite Hb in A. inversion A; subst th2. rewrite Ho in B. apply app_inv_head in B. subst rs'.
  cbn in D. destruct D as [_ D]. unfold upd_ipos in D. cbn in D.
  destruct (iteration_hist _ _ y0 rs C Fn D) as [S1 [S2 S3]].
  repeat split; auto. apply ssorted_nodup. exact S1.
Qed.

Lemma run_length : forall sched s, length (sthreads (run maxh sched s)) = length (sthreads s).
Proof.
  induction sched as [|t r IH]; intros s; cbn; auto.
  destruct (step maxh t s) as [[s1 e]|] eqn:H; auto. rewrite IH.
  unfold step in H. destruct (nth_error (sthreads s) t); [|discriminate].
  destruct (thread_step maxh (smem s) t0) as [[[m' th'] e']|]; [|discriminate].
  inversion H; subst. cbn. apply upd_length.
Qed.

(* everything a thread has recorded since the beginning *)
Theorem results_all : forall s t th, reach s -> nth_error (sthreads s) t = Some th ->
  hist [] (outs th) (keys0 (smem s)) /\ froms_ok AtEnd (outs th) /\
  forall r, In r (outs th) -> exists K K', incl K K' /\ incl K' (keys0 (smem s)) /\ res_ok K K' r.
Proof.
  intros s t th [sched ->] H.
  assert (R0 : reach (init maxh progs)) by (exists []; reflexivity).
  assert (H0 : exists p, nth_error (sthreads (init maxh progs)) t = Some (init_thread p)).
  { destruct (nth_error (sthreads (init maxh progs)) t) as [th0|] eqn:E.
    - cbn in E. apply nth_error_In in E. apply in_map_iff in E. destruct E as [p [<- _]]. eauto.
    - exfalso. apply nth_error_None in E. apply nth_error_Some_lt in H. rewrite run_length in H. lia. }
  destruct H0 as [p H0].
  destruct (results_between (init maxh progs) sched t (init_thread p) R0 H0) as [th2 [rs [A [B [C D]]]]].
  rewrite H in A. inversion A; subst th2. cbn in B, C, D. subst rs.
  repeat split; auto. intros r Hr. destruct (hist_in _ _ _ _ C Hr) as [K [K' [_ [I2 [I3 Hr']]]]]. eauto.
Qed.

(* linearisability, step by step *)
Theorem step_linearizable : forall s t s' e, reach s -> step maxh t s = Some (s', e) ->
  exists th th', nth_error (sthreads s) t = Some th /\ nth_error (sthreads s') t = Some th' /\
    (outs th' = outs th \/
     exists r, outs th' = outs th ++ [r] /\ res_ok (keys0 (smem s)) (keys0 (smem s')) r).
Proof.
  intros s t s' e R H. pose proof (reach_inv s R) as I.
  destruct (step_shape maxh _ s t s' e I H) as [th [th' [A [B [C _]]]]]. exists th, th'. repeat split; auto.
  apply (thread_step_res maxh maxh_pos (smem s) th (smem s') th' e (inv_mem _ _ _ I) (inv_threads _ _ _ I t th A)); auto.
  intros k0 Hk0. eapply inv_fresh; eauto.
Qed.

Theorem invariants_all : forall s, reach s ->
  inv2 maxh K0 s /\ chain_ok (smem s) /\
  (forall n l, linked (smem s) n (S l) -> linked (smem s) n l) /\
  (forall t th, nth_error (sthreads s) t = Some th -> thread_inv maxh (smem s) th).
Proof.
  intros s R. pose proof (reach_inv2 s R) as I2. split; auto. destruct I2 as [I _].
  split; [apply (mi_chain _ _ (inv_mem _ _ _ I))|]. split.
  - intros n l H. eapply linked_mono; eauto.
  - apply (inv_threads _ _ _ I).
Qed.

Theorem iteration_sorted_once_ins : forall s1 sched t tha thb y0 rs, reach s1 ->
  nth_error (sthreads s1) t = Some tha ->
  nth_error (sthreads (run maxh sched s1)) t = Some thb ->
  outs thb = outs tha ++ RFirst y0 :: rs -> Forall is_next rs ->
  let ys := somes (y0 :: map res_key rs) in
  StronglySorted N.lt ys /\ NoDup ys /\
  (forall y, In y ys -> In y (keys0 (smem (run maxh sched s1)))) /\
  (last (y0 :: map res_key rs) None = None ->
     (forall k, In k (keys0 (smem s1)) -> In k ys) /\
     (forall t1 th1 k, nth_error (sthreads s1) t1 = Some th1 -> In (RIns k) (outs th1) -> In k ys)).
Proof.
  intros s1 sched t tha thb y0 rs R Ha Hb Ho Fn ys.
  destruct (iteration_sorted_once s1 sched t tha thb y0 rs R Ha Hb Ho Fn) as [A [B [C D]]].
  split; auto. split; auto. split; auto. intro Hl. split.
  - apply D; auto.
  - intros t1 th1 k H1 H2. apply D; auto. eapply insert_in_keys; eauto.
Qed.

(* a full backward iteration (seek_to_last, then prev until the front) performed after s1:
   strictly decreasing, only keys of the list, and every key that was in the list at s1 once *)
Theorem backward_iteration_sorted_once : forall s1 sched t tha thb f y0 rs, reach s1 ->
  nth_error (sthreads s1) t = Some tha ->
  nth_error (sthreads (run maxh sched s1)) t = Some thb ->
  outs thb = outs tha ++ RLast :: RPrev f y0 :: rs -> Forall is_prev rs ->
  let ys := somes (y0 :: map res_key rs) in
  StronglySorted N_gt ys /\ NoDup ys /\
  (forall y, In y ys -> In y (keys0 (smem (run maxh sched s1)))) /\
  (last (y0 :: map res_key rs) None = None ->
     (forall k, In k (keys0 (smem s1)) -> In k ys) /\
     (forall t1 th1 k, nth_error (sthreads s1) t1 = Some th1 -> In (RIns k) (outs th1) -> In k ys)).
Proof.
  intros s1 sched t tha thb f y0 rs R Ha Hb Ho Fn ys.
  destruct (results_between s1 sched t tha R Ha) as [th2 [rs' [A [B [C D]]]]].
  rewrite Hb in A. inversion A; subst th2. rewrite Ho in B. apply app_inv_head in B. subst rs'.
  cbn [froms_ok] in D. destruct D as [_ D]. unfold upd_ipos in D. cbn [res_ipos] in D.
  destruct (backward_hist _ _ f y0 rs C Fn D) as [S1 [S2 S3]].
  split; auto. split; [apply ssorted_gt_nodup; exact S1|]. split; auto. intro Hl. split.
  - apply S3; auto.
  - intros t1 th1 k H1 H2. apply S3; auto. eapply insert_in_keys; eauto.
Qed.

End Main.
