(* SkipList/ProofsGhost.v — the ghost counter `nlnk` of the skiplist model is never read: two
   memories that differ only in the ghost fields make every thread take the same step, produce
   the same event and the same thread state, and end in memories that again differ only in the
   ghost fields.  So erasing the ghost field from the model changes no behaviour. *)
From Coq Require Import NArith List Bool Arith Lia.
From Blue Require Import SkipList.Model SkipList.ProofsBase.
Import ListNotations.

Definition erase_node (nd : node) : node := mkNode (nkey nd) (nnext nd) 0.
Definition erase (m : mem) : mem := map erase_node m.
Definition same (m1 m2 : mem) : Prop := erase m1 = erase m2.

Lemma same_len : forall m1 m2, same m1 m2 -> length m1 = length m2.
Proof. intros m1 m2 H. unfold same, erase in H. rewrite <- (map_length erase_node m1), H, map_length. reflexivity. Qed.

Lemma same_getn : forall m1 m2 n, same m1 m2 -> erase_node (getn m1 n) = erase_node (getn m2 n).
Proof.
  intros m1 m2 n H. unfold getn. rewrite <- !(map_nth erase_node). fold (erase m1). fold (erase m2).
  rewrite H. reflexivity.
Qed.

Lemma same_key : forall m1 m2 n, same m1 m2 -> key_of m1 n = key_of m2 n.
Proof. intros m1 m2 n H. pose proof (same_getn m1 m2 n H) as E. unfold key_of. inversion E. auto. Qed.

Lemma same_nnext : forall m1 m2 n, same m1 m2 -> nnext (getn m1 n) = nnext (getn m2 n).
Proof. intros m1 m2 n H. pose proof (same_getn m1 m2 n H) as E. inversion E. auto. Qed.

Lemma same_height : forall m1 m2 n, same m1 m2 -> height_of m1 n = height_of m2 n.
Proof. intros. unfold height_of. rewrite (same_nnext m1 m2); auto. Qed.

Lemma same_next : forall m1 m2 n l, same m1 m2 -> next_of m1 n l = next_of m2 n l.
Proof. intros. unfold next_of. rewrite (same_nnext m1 m2); auto. Qed.

Lemma same_get_next : forall m1 m2 n l, same m1 m2 -> get_next m1 n l = get_next m2 n l.
Proof.
  intros m1 m2 n l H. unfold get_next.
  rewrite (same_len m1 m2 H), (same_height m1 m2 n H), (same_next m1 m2 n l H). reflexivity.
Qed.

Lemma same_after : forall m1 m2 k p, same m1 m2 -> key_is_after m1 k p = key_is_after m2 k p.
Proof. intros m1 m2 k [y|] H; cbn; auto. rewrite (same_key m1 m2 y H). reflexivity. Qed.

Lemma same_pos : forall m1 m2 i, same m1 m2 -> pos_of m1 i = pos_of m2 i.
Proof. intros m1 m2 [n|] H; cbn; auto. rewrite (same_key m1 m2 n H). reflexivity. Qed.

Lemma same_ipos : forall m1 m2 i, same m1 m2 -> ipos_of m1 i = ipos_of m2 i.
Proof. intros m1 m2 [n|] H; cbn; auto. rewrite (same_key m1 m2 n H). reflexivity. Qed.

Lemma erase_upd : forall m n nd, erase (upd m n nd) = upd (erase m) n (erase_node nd).
Proof.
  induction m as [|a t IH]; intros [|n] nd; cbn; auto. f_equal. apply IH.
Qed.

Lemma same_app : forall m1 m2 nd, same m1 m2 -> same (m1 ++ [nd]) (m2 ++ [nd]).
Proof. intros m1 m2 nd H. unfold same, erase in *. rewrite !map_app, H. reflexivity. Qed.

Lemma same_wr : forall m1 m2 n l v, same m1 m2 -> same (wr m1 n l v) (wr m2 n l v).
Proof.
  intros m1 m2 n l v H. unfold same, wr. rewrite !erase_upd. rewrite H. f_equal.
  unfold erase_node. cbn. rewrite (same_nnext m1 m2 n H).
  pose proof (same_getn m1 m2 n H) as E. inversion E. reflexivity.
Qed.

Lemma same_set_lnk_l : forall m x c, same (set_lnk m x c) m.
Proof.
  intros m x c. unfold same, set_lnk. rewrite erase_upd.
  destruct (Nat.lt_ge_cases x (length m)) as [Hx|Hx].
  - apply nth_ext with (d := erase_node dnode) (d' := erase_node dnode).
    + rewrite upd_length. reflexivity.
    + intros i Hi. destruct (Nat.eq_dec i x) as [->|Ne].
      * rewrite nth_upd_same; [|unfold erase; rewrite map_length; auto].
        unfold erase. rewrite map_nth. reflexivity.
      * rewrite nth_upd_other; auto.
  - rewrite upd_oob; auto. unfold erase. rewrite map_length. auto.
Qed.

Lemma same_trans : forall a b c, same a b -> same b c -> same a c.
Proof. unfold same. intros. congruence. Qed.

Lemma same_sym : forall a b, same a b -> same b a.
Proof. unfold same. intros. congruence. Qed.

Definition rel_step (r1 r2 : option (mem * thread * event)) : Prop :=
  match r1, r2 with
  | None, None => True
  | Some (a, t1, e1), Some (b, t2, e2) => same a b /\ t1 = t2 /\ e1 = e2
  | _, _ => False
  end.

Lemma rel_same : forall m1 m2 th e, same m1 m2 -> rel_step (Some (m1, th, e)) (Some (m2, th, e)).
Proof. intros. cbn. auto. Qed.

Lemma same_set_next : forall m1 m2 n l v, same m1 m2 ->
  match set_next m1 n l v, set_next m2 n l v with
  | Some a, Some b => same a b
  | None, None => True
  | _, _ => False
  end.
Proof.
  intros m1 m2 n l v H. unfold set_next.
  rewrite (same_len m1 m2 H), (same_height m1 m2 n H).
  destruct ((n <? length m2) && (l <? height_of m2 n)); auto. apply same_wr. exact H.
Qed.

Lemma same_cas_next : forall m1 m2 n l old x, same m1 m2 ->
  match cas_next m1 n l old (Some x), cas_next m2 n l old (Some x) with
  | Some (a, b1), Some (b, b2) => same a b /\ b1 = b2
  | None, None => True
  | _, _ => False
  end.
Proof.
  intros m1 m2 n l old x H. unfold cas_next.
  rewrite (same_len m1 m2 H), (same_height m1 m2 n H), (same_next m1 m2 n l H).
  destruct ((n <? length m2) && (l <? height_of m2 n)); auto.
  destruct (ptr_eqb (next_of m2 n l) old); auto. split; auto.
  fold (wr m1 n l (Some x)). fold (wr m2 n l (Some x)).
  eapply same_trans; [apply same_set_lnk_l|]. eapply same_trans; [apply same_wr; eauto|].
  apply same_sym. apply same_set_lnk_l.
Qed.

Theorem thread_step_ghost_free : forall maxh m1 m2 th, same m1 m2 ->
  rel_step (thread_step maxh m1 th) (thread_step maxh m2 th).
Proof.
  intros maxh m1 m2 th H. unfold thread_step. destruct (tpc th) eqn:Hpc.
  - destruct (prog th) as [|o rest]; cbn; auto. split; auto. split; auto.
    destruct o; cbn [begin_op]; auto.
    destruct (it th) as [n|]; auto. destruct (n =? 0); auto. rewrite (same_key m1 m2 n H). reflexivity.
  - rewrite (same_get_next m1 m2 x lvl H). destruct (get_next m2 x lvl) as [next|]; [|apply rel_same; auto].
    rewrite (same_after m1 m2 k next H). destruct (key_is_after m2 k next).
    + destruct next; apply rel_same; auto.
    + destruct lvl; apply rel_same; auto.
  - assert (E : match nth 0 obs None with Some e0 => (key_of m1 e0 =? k)%N | None => false end =
                match nth 0 obs None with Some e0 => (key_of m2 e0 =? k)%N | None => false end).
    { destruct (nth 0 obs None) as [e0|]; auto. rewrite (same_key m1 m2 e0 H). reflexivity. }
    rewrite E. destruct (_ || (h =? 0) || (maxh <? h)); [apply rel_same; auto|].
    rewrite (same_len m1 m2 H). cbn. split; auto. apply same_app. exact H.
  - pose proof (same_set_next m1 m2 x idx (nth idx obs None) H) as SS.
    destruct (set_next m1 x idx (nth idx obs None)), (set_next m2 x idx (nth idx obs None)); try contradiction; cbn; auto.
  - destruct (nth idx prev None) as [p|]; [|apply rel_same; auto].
    pose proof (same_cas_next m1 m2 p idx (nth idx obs None) x H) as SS.
    destruct (cas_next m1 p idx (nth idx obs None) (Some x)) as [[a b1]|],
             (cas_next m2 p idx (nth idx obs None) (Some x)) as [[b b2]|]; try contradiction; [|apply rel_same; auto].
    destruct SS as [SS ->]. destruct b2.
    + destruct (S idx <? h); cbn; auto. rewrite (same_key m1 m2 x H). auto.
    + cbn. auto.
  - destruct (nth idx prev None) as [p|]; [|apply rel_same; auto].
    rewrite (same_get_next m1 m2 p idx H). destruct (get_next m2 p idx) as [next|]; [|apply rel_same; auto].
    rewrite (same_key m1 m2 x H), (same_after m1 m2 _ next H).
    destruct (key_is_after m2 (key_of m2 x) next); apply rel_same; auto.
  - rewrite (same_get_next m1 m2 x lvl H). destruct (get_next m2 x lvl) as [next|]; [|apply rel_same; auto].
    rewrite (same_after m1 m2 k next H). destruct (key_is_after m2 k next).
    + destruct next; apply rel_same; auto.
    + destruct lvl; [|apply rel_same; auto]. destruct fk.
      * assert (E : match next with Some y => (key_of m1 y =? k)%N | None => false end =
                    match next with Some y => (key_of m2 y =? k)%N | None => false end).
        { destruct next as [y|]; auto. rewrite (same_key m1 m2 y H). reflexivity. }
        rewrite E. apply rel_same; auto.
      * rewrite (same_pos m1 m2 next H). apply rel_same; auto.
  - rewrite (same_key m1 m2 x H). destruct (negb _); [apply rel_same; auto|].
    rewrite (same_get_next m1 m2 x lvl H). destruct (get_next m2 x lvl) as [next|]; [|apply rel_same; auto].
    assert (E : match next with Some y => (k <=? key_of m1 y)%N | None => true end =
                match next with Some y => (k <=? key_of m2 y)%N | None => true end).
    { destruct next as [y|]; auto. rewrite (same_key m1 m2 y H). reflexivity. }
    rewrite E. destruct (match next with Some y => (k <=? key_of m2 y)%N | None => true end).
    + destruct lvl; [|apply rel_same; auto]. rewrite (same_pos m1 m2 (Some x) H). apply rel_same; auto.
    + destruct next; apply rel_same; auto.
  - rewrite (same_get_next m1 m2 x lvl H). destruct (get_next m2 x lvl) as [next|]; [|apply rel_same; auto].
    destruct next; [apply rel_same; auto|]. destruct lvl; [|apply rel_same; auto].
    rewrite (same_pos m1 m2 (Some x) H). apply rel_same; auto.
  - rewrite (same_get_next m1 m2 n 0 H). destruct (get_next m2 n 0) as [next|]; [|apply rel_same; auto].
    rewrite (same_pos m1 m2 next H), (same_ipos m1 m2 (Some n) H). apply rel_same; auto.
  - rewrite (same_get_next m1 m2 0 0 H). destruct (get_next m2 0 0) as [next|]; [|apply rel_same; auto].
    rewrite (same_pos m1 m2 next H). apply rel_same; auto.
  - cbn. auto.
Qed.
