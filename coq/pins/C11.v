(* pins for C11: statements of the property theorems as of the time of pinning *)
From Coq Require Import NArith ZArith List Bool Permutation.
From Blue Require Import Cursor.Iface Cursor.Ref Cursor.Lazy Cursor.Bounds Cursor.Pruning Cursor.Concat
  Cursor.Merging Cursor.Spec Cursor.Compose Cursor.Proofs_Order Cursor.Proofs_Ref Cursor.Proofs_Lazy
  Cursor.Proofs_Bounds Cursor.Proofs_Concat Cursor.Proofs_Pruning Cursor.Proofs_Heap
  Cursor.Proofs_Merging Cursor.Proofs_Spec Cursor.Proofs_Compose.
Import ListNotations.
Local Open Scope Z_scope.
From Blue Require Import Cursor.Props_C11.
Check C11_merging : forall S (c : cursor S) (ls : list (list entry)) (kids : list S), Forall sorted ls -> distinct (concat ls) -> Forall2 (fun s li => exists p, refines c s li p) kids ls -> refines (merging c) (m_new c kids) (merge_spec ls) (-1).
Check C11_merging_any_sorted_union : forall S (c : cursor S) L (ls : list (list entry)) (kids : list S), sorted L -> Permutation (concat ls) L -> Forall sorted ls -> Forall2 (fun s li => exists p, refines c s li p) kids ls -> refines (merging c) (m_new c kids) L (-1).
Check C11_concat : forall S (c : cursor S) ls kids, sorted (concat ls) -> ls <> [] -> Forall2 (fun s li => exists p, refines c s li p) kids ls -> refines (concat_cursor c) (k_new c kids) (concat_spec ls) (-1).
Check C11_bounds : forall S (c : cursor S) fuel lo hi l cur p, sorted l -> Z.of_nat fuel >= len l + 2 -> refines c cur l p -> refines (bounds c fuel lo hi) (b_new c lo hi cur) (bounds_spec lo hi l) (-1).
Check C11_pruning : forall S (c : cursor S) fuel t l cur p, sorted l -> Z.of_nat fuel >= len l + 2 -> refines c cur l p -> refines (pruning c fuel t) (p_new c cur) (prune_spec t l) (-1).
Check C11_lazy : forall S (c : cursor S) mk l i0, refines c mk l i0 -> refines (lazy c mk) l_new (lazy_spec l) (-1).
Check C11_compose : forall e prog, wf e -> run_model e prog = run_spec e prog.
Check C11_refines_is_trace_equality : forall S (c : cursor S) s l i, refines c s l i <-> (-1 <= i <= len l /\ forall prog, run c prog s = run (ref l) prog i).
Check C11_specs_are_the_definitions : (forall ls, distinct (concat ls) -> sorted (merge_spec ls) /\ Permutation (concat ls) (merge_spec ls)) /\ (forall l, sorted l -> distinct l) /\ (forall t l e, In e (prune_spec t l) <-> In e l /\ (ets e <= t)%N /\ ev e <> None /\ forall e', In e' l -> ek e' = ek e -> (ets e' <= t)%N -> (ets e' <= ets e)%N) /\ (forall lo hi l e, In e (bounds_spec lo hi l) <-> In e l /\ in_bounds lo hi e = true).
Check C11_heap_fuel_sufficient : forall A (less : A -> A -> bool) n1 n2 l j, (length l <= n1 + j)%nat -> (length l <= n2 + j)%nat -> percolate_down less n1 l j = percolate_down less n2 l j.
