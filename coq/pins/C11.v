(* pins for C11: statements of the property theorems as of the time of pinning *)
From Coq Require Import NArith ZArith List Bool Permutation.
From Blue Require Import Cursor.Iface Cursor.Ref Cursor.Lazy Cursor.Bounds Cursor.Pruning Cursor.Concat
  Cursor.Merging Cursor.Spec Cursor.Compose Cursor.Proofs_Order Cursor.Proofs_Ref Cursor.Proofs_Lazy
  Cursor.Proofs_Bounds Cursor.Proofs_Concat Cursor.Proofs_Pruning Cursor.Proofs_Heap
  Cursor.Proofs_Merging Cursor.Proofs_Spec Cursor.Proofs_Compose
  Cursor.Fallible Cursor.FBounds Cursor.FPruning Cursor.FConcat Cursor.FMerging Cursor.FLazy Cursor.FCompose
  Cursor.Proofs_Fallible Cursor.Proofs_FBounds Cursor.Proofs_FPruning Cursor.Proofs_FConcat Cursor.Proofs_FMerging
  Cursor.Proofs_FLazy Cursor.Proofs_Recover Cursor.Proofs_ConcatRec Cursor.Proofs_FCompose Cursor.Proofs_FTree
  Cursor.Nestings Cursor.Proofs_Nestings.
Import ListNotations.
Local Open Scope Z_scope.
From Blue Require Import Cursor.Props_C11.
Check C11_merging : forall S (c : cursor S) (ls : list (list entry)) (kids : list S), Forall sorted ls -> distinct (concat ls) -> Forall2 (fun s li => exists p, refines c s li p) kids ls -> refines (merging c) (m_new c kids) (merge_spec ls) (-1).
Check C11_merging_any_sorted_union : forall S (c : cursor S) L (ls : list (list entry)) (kids : list S), sorted L -> Permutation (concat ls) L -> Forall sorted ls -> Forall2 (fun s li => exists p, refines c s li p) kids ls -> refines (merging c) (m_new c kids) L (-1).
Check C11_concat : forall S (c : cursor S) ls kids, sorted (concat ls) -> ls <> [] -> Forall2 (fun s li => exists p, refines c s li p) kids ls -> refines (concat_cursor c) (k_new c kids) (concat_spec ls) (-1).
Check C11_bounds : forall S (c : cursor S) fuel lo hi l cur p, sorted l -> Z.of_nat fuel >= len l + 2 -> refines c cur l p -> refines (bounds c fuel lo hi) (b_new c lo hi cur) (bounds_spec lo hi l) (-1).
Check C11_pruning : forall S (c : cursor S) fuel t l cur p, sorted l -> Z.of_nat fuel >= len l + 2 -> refines c cur l p -> refines (pruning c fuel t) (p_new c cur) (prune_spec t l) (-1).
Check C11_lazy : forall S (c : cursor S) mk l i0, refines c mk l i0 -> refines (lazy c mk) l_new (lazy_spec l) (-1).
Check C11_compose : forall e prog, wf e -> run_model e prog = run_spec e prog.
Check C11_refines_is_trace_equality : forall S (c : cursor S) s l i, refines c s l i <-> (-1 <= i <= len l /\ forall prog, run c prog s = run (ref l) prog i).
Check C11_specs_are_the_definitions : (forall ls, distinct (concat ls) -> sorted (merge_spec ls) /\ Permutation (concat ls) (merge_spec ls)) /\ (forall l, sorted l -> distinct l) /\ (forall t l e, In e (prune_spec t l) <-> In e l /\ (ets e <= t)%N /\ ev e <> None /\ forall e', In e' l -> ek e' = ek e -> (ets e' <= t)%N -> (ets e' <= ets e)%N) /\ (forall lo hi l e, In e (bounds_spec lo hi l) <-> In e l /\ in_bounds lo hi e = true).
Check C11_heap_fuel_sufficient : forall A (less : A -> A -> bool) n1 n2 l j, (length l <= n1 + j)%nat -> (length l <= n2 + j)%nat -> percolate_down less n1 l j = percolate_down less n2 l j.
Check C11_errors_leaf : forall S (c : cursor S) junk, twin (failing c junk) c lf_st (fun x => pending (lf_sched x)).
Check C11_errors_twin_merging : forall S Sq (fc : fcursor S) (cq : cursor Sq) q m, twin fc cq q m -> twin (fmerging fc) (merging cq) (qm q) (mm m).
Check C11_errors_twin_concat : forall S Sq (fc : fcursor S) (cq : cursor Sq) q m, twin fc cq q m -> twin (fconcat fc) (concat_cursor cq) (qk q) (mk_ m).
Check C11_errors_twin_bounds : forall S Sq (fc : fcursor S) (cq : cursor Sq) q m, twin fc cq q m -> forall fuel lo hi, twin (fbounds fc fuel lo hi) (bounds cq fuel lo hi) (qb q) (mb m).
Check C11_errors_twin_pruning : forall S Sq (fc : fcursor S) (cq : cursor Sq) q m, twin fc cq q m -> forall fuel t, twin (fpruning fc fuel t) (pruning cq fuel t) (qp q) (mp m).
Check C11_errors_twin_lazy : forall S Sq (fc : fcursor S) (cq : cursor Sq) q m, twin fc cq q m -> (forall s, m s = 0%nat) -> forall mk, twin (flazy fc mk) (lazy cq (q mk)) (ql q) ml.
Check C11_recover_merging : forall S (c : cursor S) L tabs st, sorted L -> Permutation (concat tabs) L -> Forall sorted tabs -> Forall2 (fun s li => krec c s li) (m_kids st) tabs -> krec (merging c) st L.
Check C11_recover_concat : forall S (c : cursor S) ls st, sorted (concat ls) -> k_fail st = None -> (k_pos st < length ls)%nat -> Forall2 (fun s li => krec c s li) (k_kids st) ls -> krec (concat_cursor c) st (concat_spec ls).
Check C11_recover_bounds : forall S (c : cursor S) fuel lo hi l cur pos, sorted l -> Z.of_nat fuel >= len l + 2 -> krec c cur l -> krec (bounds c fuel lo hi) (mkB cur pos None) (bounds_spec lo hi l).
Check C11_recover_pruning : forall S (c : cursor S) fuel t l cur sk, sorted l -> Z.of_nat fuel >= len l + 2 -> krec c cur l -> krec (pruning c fuel t) (mkP cur sk None) (prune_spec t l).
Check C11_recover_lazy : forall S (c : cursor S) mk l i0 p, refines c mk l i0 -> (forall cur, p = LInst cur -> krec c cur l) -> krec (lazy c mk) p (lazy_spec l).
Check C11_concat_children_only_need_recover : forall S (c : cursor S) ls kids, sorted (concat ls) -> ls <> [] -> Forall2 (fun s li => krec c s li) kids ls -> refines (concat_cursor c) (k_new c kids) (concat_spec ls) (-1).
Check C11_errors_reported : forall e u prog, fubuild (fdepth e) (fsize e + 2) e = Some u -> (mu (fafter (fucur (fdepth e)) prog u) + count_err (frun (fucur (fdepth e)) prog u) = mu u)%nat.
Check C11_errors_before_first : forall e u prog, wf (erase e) -> fubuild (fdepth e) (fsize e + 2) e = Some u -> fclean (fucur (fdepth e)) (spec_of (erase e)) prog u (-1).
Check C11_absolute_calls_recover_after_error : forall e u prog, wf (erase e) -> fubuild (fdepth e) (fsize e + 2) e = Some u -> fmatchh (fucur (fdepth e)) healthy (spec_of (erase e)) prog u (Some (-1)).
Check C11_failed_call_is_not_a_noop : wf (erase exf_expr) /\ map (fun o => match o with FKV kv => kv | _ => None end) (tl (frun_model exf_expr exf_prog)) <> fnoop_ref (spec_of (erase exf_expr)) exf_prog (tl (frun_model exf_expr exf_prog)) (-1).
Check C11_compaction_input : forall tabs prog, Forall sorted tabs -> distinct (concat tabs) -> run_model (compaction_input tabs) prog = run (ref (merge_spec tabs)) prog ref_new.
Check C11_compaction_walk_reads_sorted_union : forall tabs n, Forall sorted tabs -> distinct (concat tabs) -> map fst (run_model (compaction_input tabs) (compaction_walk n)) = None :: map (fun k => ent (merge_spec tabs) (Z.min (Z.of_nat k - 1) (len (merge_spec tabs)))) (seq 0 (S n)).
Check C11_gc_input : forall tabs prog, Forall sorted tabs -> distinct (concat tabs) -> run_model (compaction_input tabs) (gc_input_prefix ++ prog) = run (ref (merge_spec tabs)) (gc_input_prefix ++ prog) ref_new /\ skipn 2 (run (ref (merge_spec tabs)) (gc_input_prefix ++ prog) ref_new) = run (ref (merge_spec tabs)) prog (Z.min 0 (len (merge_spec tabs))).
Check C11_compaction_input_errors : forall tabs u prog, Forall sorted (map fst tabs) -> distinct (concat (map fst tabs)) -> fubuild (fdepth (compaction_input_failing tabs)) (fsize (compaction_input_failing tabs) + 2) (compaction_input_failing tabs) = Some u -> fclean (fucur (fdepth (compaction_input_failing tabs))) (merge_spec (map fst tabs)) prog u (-1) /\ (mu (fafter (fucur (fdepth (compaction_input_failing tabs))) prog u) + count_err (frun (fucur (fdepth (compaction_input_failing tabs))) prog u) = mu u)%nat.
