(* pins for C13: statements of the property theorems as of the time of pinning *)
From Coq Require Import NArith List Bool.
From Blue Require Import Mani.Model Mani.Fs Mani.ModelMani Mani.ProofsOrder Mani.ProofsFormat
  Mani.ProofsFs Mani.ProofsCrash Mani.ProofsLts Mani.ProofsChain Mani.ProofsChainLts Mani.ProofsVerify Mani.ProofsIter Mani.Lock Mani.ProofsLock Mani.ProofsCut.
Import ListNotations.
Open Scope N_scope.
From Blue Require Import Mani.Props_C13.
Check C13_crash_atomic_durable : forall crc ratio c, reach crc ratio c -> c_h c = None -> match m_open crc ratio (c_fs c, []) with | Ok (m, _) => m_st m = c_acked c \/ c_pend c = Some (m_st m) | Err x => x = ECorruption \/ x = EDisallowed | Panic => False end.
Check C13_reopen_replays_exactly : forall crc ratio c, reach crc ratio c -> c_crashed c = false -> match c_h c with | Some m => m_st m = spec_state (c_edits c) | None => exists m w, m_open crc ratio (c_fs c, []) = Ok (m, w) /\ m_st m = spec_state (c_edits c) end.
Check C13_process_death_always_reopens : forall crc ratio c, reach crc ratio c -> c_h c = None -> c_torn c = false -> exists m w, m_open crc ratio (c_fs c, []) = Ok (m, w) /\ (m_st m = c_acked c \/ c_pend c = Some (m_st m)).
Check C13_fragments_chain : forall crc ratio c m, reach crc ratio c -> c_h c = Some m -> exists K, m_last m = K + 1 /\ (forall n, In n (backup_ids (f_dir (c_fs c))) <-> 1 <= n <= K) /\ (forall n, 1 <= n <= K -> exists S, read_mani crc (content (FBackup n) (c_fs c)) = Ok S /\ (n < K -> read_first_edit crc (content (FBackup (n + 1)) (c_fs c)) = Ok (Some (rollup S))) /\ (n = K -> read_first_edit crc (content FMani (c_fs c)) = Ok (Some (rollup S)))).
Check C13_verify_reports_nothing : forall crc ratio c m, reach crc ratio c -> c_h c = Some m -> verify crc (c_fs c) = Ok [].
Check C13_parse_serialize : forall crc es, Forall wf_edit es -> read_mani crc (Some (ser_edits crc es)) = Ok (spec_state es).
Check C13_iterator_roundtrip : forall crc es, Forall wf_edit es -> iter_all crc (S (length (lines (ser_edits crc es)))) (Some (lines (ser_edits crc es))) = map IEdit es.
Check C13_truncation_prefix : forall crc es n, Forall wf_edit es -> (exists x, read_mani crc (Some (firstn n (ser_edits crc es))) = Err x /\ (x = ECorruption \/ x = EDisallowed)) \/ (exists j, (j <= length es)%nat /\ read_mani crc (Some (firstn n (ser_edits crc es))) = Ok (spec_state (firstn j es)) /\ forall k, (k <= length es)%nat -> (length (ser_edits crc (firstn k es)) <= n)%nat -> (k <= j)%nat).
Check C13_cut_newest_file_prefix_of_applied : forall crc ratio c n, reach crc ratio c -> c_crashed c = false -> c_h c = None -> exists rolled pre tail, c_edits c = pre ++ tail /\ mdata (c_fs c) = ser_edits crc (head_of rolled pre ++ tail) /\ match m_open crc ratio (cut_file FMani n (c_fs c), []) with | Ok (m, _) => exists i, (i <= length (c_edits c))%nat /\ m_st m = spec_state (firstn i (c_edits c)) /\ forall t, (t <= length tail)%nat -> (length (ser_edits crc (head_of rolled pre ++ firstn t tail)) <= n)%nat -> (length pre + t <= i)%nat | Err x => x = ECorruption \/ x = EDisallowed | Panic => False end.
Check C13_open_is_read : forall crc ratio s, fs_ok s -> match read_mani crc (content FMani s) with | Ok st => exists m w, m_open crc ratio (s, []) = Ok (m, w) /\ m_st m = st | Err x => m_open crc ratio (s, []) = Err x | Panic => False end.
Check C13_apply_never_fails : forall crc ratio c m e, reach crc ratio c -> c_h c = Some m -> wf_edit e -> exists m' w, m_apply crc m e (c_fs c, []) = Ok (m', w) /\ m_st m' = apply_edit e (m_st m).
Check C13_edit_api_exact : forall s, (check_str s = Ok s <-> wf_str s) /\ (forall c u, check_key c = Ok u <-> wf_key c) /\ wf_edit empty_edit /\ (forall e e' x, wf_edit e -> edit_add e x = Ok e' -> wf_edit e') /\ (forall e e' x, wf_edit e -> edit_rm e x = Ok e' -> wf_edit e') /\ (forall e e' c x, wf_edit e -> edit_info e c x = Ok e' -> wf_edit e').
Check C13_lock_exclusive : forall es p q, l_held (lrun TableFirst es linit) p = true -> l_held (lrun TableFirst es linit) q = true -> p = q.
Check C13_lock_holder_owns_kernel_lock : forall es p, l_held (lrun TableFirst es linit) p = true -> l_owner (lrun TableFirst es linit) = Some p.
Check C13_lock_open_before_table_unsound : exists es, l_held (lrun OpenFirst es linit) 0%nat = true /\ l_held (lrun OpenFirst es linit) 1%nat = true /\ l_owner (lrun OpenFirst es linit) = Some 1%nat.
