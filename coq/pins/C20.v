(* pins for C20: statements of the property theorems as of the time of pinning *)
From Coq Require Import NArith ZArith List Bool Arith.
From Blue Require Import Gen.Const_Stall Lsm.Model Stall.Select Stall.Known Stall.Proto
  Stall.ProofsBounds Stall.ProofsAdm Stall.ProofsNext Stall.ProofsTotal Stall.ProofsStall Stall.ProofsRelief Stall.ProofsProto Stall.ProofsMeasure Stall.ProofsProgress Stall.ProofsConcMeasure.
From Blue Require Lsm.History Stall.EndToEnd Lsm.ModelConcurrent Lsm.ConcStable.
From Blue Require Import Lsm.LoadProofs.
Import ListNotations.
Open Scope N_scope.
From Blue Require Import Stall.Props_C20.
Check C20_no_deadlock_outside_known : forall o v nc ni s, steps true o (init v nc ni) s -> sel_wfb (p_v s) = true -> known_stall o (p_v s) = false -> ~ all_parked s.
Check C20_all_parked_is_unrelievable_stall : forall o v nc ni s, steps true o (init v nc ni) s -> all_parked s -> should_stall_ingest o (p_v s) = true /\ p_og s = [] /\ forall out c, next_compaction o (p_v s) [] = Ok out -> nc_choice out <> Some c.
Check C20_no_lost_wakeup_stall : forall o v nc ni s i f, steps true o (init v nc ni) s -> nth_error (p_i s) i = Some (IWait f) -> should_stall_ingest o (p_v s) = true.
Check C20_no_lost_wakeup_compact : forall o v nc ni s, steps true o (init v nc ni) s -> all_compactors_parked s -> p_og s = [] /\ forall out c, next_compaction o (p_v s) [] = Ok out -> nc_choice out <> Some c.
Check C20_stall_relievable_outside_known : forall o v, sel_wfb v = true -> should_stall_ingest o v = true -> known_stall o v = false -> exists out c, next_compaction o v [] = Ok out /\ nc_choice out = Some c.
Check C20_stall_relievable_options : forall o v, sel_wfb v = true -> should_stall_ingest o v = true -> options_safe o v = true -> exists out c, next_compaction o v [] = Ok out /\ nc_choice out = Some c.
Check C20_stall_relievable_refuted : exists o v, sel_wfb v = true /\ should_stall_ingest o v = true /\ known_stall o v = true /\ next_compaction o v [] = Ok (mkNC None false).
Check C20_stall_without_mandatory_refuted : sel_wfb ex_tree_c = true /\ should_stall_ingest ex_opts_c' ex_tree_c = true /\ should_mandatory ex_opts_c' ex_tree_c = false /\ known_stall ex_opts_c' ex_tree_c = true /\ next_compaction ex_opts_c' ex_tree_c [] = Ok (mkNC None false).
Check C20_stall_on_empty_tree_refuted : sel_wfb ex_tree_a = true /\ should_stall_ingest ex_opts_a ex_tree_a = true /\ known_stall ex_opts_a ex_tree_a = true /\ next_compaction ex_opts_a ex_tree_a [] = Ok (mkNC None false).
Check C20_deadlock_reachable_in_known_class : exists s, steps true ex_opts_c (init ex_tree_c 0 1) s /\ all_parked s.
Check C20_stall_is_forever : forall o s s', stuck o s -> steps true o s s' -> stuck o s' /\ p_v s' = p_v s /\ (forall i, (exists f, nth_error (p_i s) i = Some (ICheck f) \/ nth_error (p_i s) i = Some (IWait f)) -> (exists f, nth_error (p_i s') i = Some (ICheck f) \/ nth_error (p_i s') i = Some (IWait f))).
Check C20_selector_admissible : forall o v og out c, sel_wfb v = true -> next_compaction o v og = Ok out -> nc_choice out = Some c -> valid_compactionb v (cc c) = true.
Check C20_selector_respects_ongoing : forall o v og out c, sel_wfb v = true -> next_compaction o v og = Ok out -> nc_choice out = Some c -> may_choose o og (cc c) = true.
Check C20_selector_total : forall o v og, sel_wfb v = true -> exists out, next_compaction o v og = Ok out.
Check C20_compute_bounds_fuel : forall lv fk lk, widen (widen_fuel lv) lv (lower_bound lv fk) (upper_bound lv lk) fk lk <> None.
Check C20_ingest_keeps_stall : forall o v f, v <> [] -> should_stall_ingest o v = true -> should_stall_ingest o (ingest v f) = true.
Check C20_compaction_lowers_measure : forall o v og out c outs, sel_wfb v = true -> next_compaction o v og = Ok out -> nc_choice out = Some c -> (ec outs <= in_entries v (cc c))%nat -> (mu (apply_compaction v (cc c) outs) < mu v)%nat.
Check C20_admissible_compaction_lowers_measure : forall v c outs, valid_compactionb v c = true -> (ec outs <= in_entries v c)%nat -> ec (concat (map (filter (is_input c)) (mids v c))) <> 0%nat -> (mu (apply_compaction v c outs) < mu v)%nat.
Check C20_concurrent_apply_keeps_what_lowers_measure : forall v c d outs, wf_version v -> wf_version (apply_compaction v d outs) -> valid_compactionb v c = true -> valid_compactionb v d = true -> Lsm.ModelConcurrent.conflictb c d = false -> (forall o, In o outs -> is_input c o = false /\ key_leb (cfirst d) (first_key o) = true /\ key_leb (last_key o) (clast d) = true) -> ec (concat (map (filter (is_input c)) (mids (apply_compaction v d outs) c))) = ec (concat (map (filter (is_input c)) (mids v c))).
Check C20_ingest_keeps_what_lowers_measure : forall v c f, v <> [] -> l0_order (hd [] v ++ [f]) = f :: l0_order (hd [] v) -> valid_compactionb v c = true -> is_input c f = false -> ec (concat (map (filter (is_input c)) (mids (ingest v f) c))) = ec (concat (map (filter (is_input c)) (mids v c))).
Check C20_compaction_runs_are_bounded_sequential : forall o n v v', crun o n v v' -> (n + mu v' <= mu v)%nat.
Check C20_tables_cover_levels : len level_curve_tbl = STALL_NUM_LEVELS /\ len level_factor_tbl = STALL_NUM_LEVELS.
Check C20_no_lost_wakeup_compact_refuted_before_repair : exists s, steps false ex_opts_default (init ex_tree_stalled 1 1) s /\ all_parked s /\ sel_wfb (p_v s) = true /\ known_stall ex_opts_default (p_v s) = false /\ exists out c, next_compaction ex_opts_default (p_v s) [] = Ok out /\ nc_choice out = Some c.
Check C20_selected_merge_preserves_reads : forall s o og out c outs, History.Inv s -> sel_wfb (ver s) = true -> next_compaction o (ver s) og = Ok out -> nc_choice out = Some c -> outputs_okb (ver s) (cc c) outs = true -> History.Inv (compact s (cc c) outs) /\ forall k t, load (compact s (cc c) outs) k t = load s k t.
Check C20_selected_gc_preserves_visible_values : forall s o og out c outs, History.Inv s -> sel_wfb (ver s) = true -> next_compaction o (ver s) og = Ok out -> nc_choice out = Some c -> S (cupper (cc c)) = length (ver s) -> gc_outputs_okb (ver s) (cc c) outs = true -> History.Inv (compact s (cc c) outs) /\ forall k, get (compact s (cc c) outs) k = get s k.
