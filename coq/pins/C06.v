(* pins for C06: statements of the property theorems as of the time of pinning *)
From Coq Require Import NArith List PArith.
From Blue Require Import Gen.Const_Conc Lsm.Model Lsm.History.
From Blue Require Import Conc.KvsConc Conc.Spec Conc.ProofsSkel Conc.ProofsData Conc.ProofsSim Conc.ProofsTop Conc.ProofsHist.
Import ListNotations.
Open Scope N_scope.
From Blue Require Import Conc.Props_C06.
Check C06_refines_atomic_store : forall s0 m0 t0 ls st, m0 < s0 -> run (init s0 m0 t0) ls = Some st -> exists sp, srun sinit ls = Some sp.
Check C06_refinement_is_inductive : forall st sp ls st', Rel st sp -> run st ls = Some st' -> exists sp', srun sp ls = Some sp' /\ Rel st' sp'.
Check C06_reopen_keeps_refinement : forall st sp fid fsz s0 m0 t0 st1 ls st2, Rel st sp -> reopen st fid fsz s0 m0 t0 = Some st1 -> run st1 ls = Some st2 -> exists sp2, srun (sreopen sp) ls = Some sp2 /\ Rel st2 sp2.
Check C06_per_key_linearizable : forall s0 m0 t0 pre t r st, m0 < s0 -> run (init s0 m0 t0) (pre ++ [LRetGet t r]) = Some st -> exists pre1 pre2 pre3 k ts, pre = pre1 ++ LInvR t (QGet k) :: pre2 ++ LSnap t ts :: pre3 /\ no_inv t pre2 /\ no_inv t pre3 /\ let V := dbof (pre1 ++ LInvR t (QGet k) :: pre2) in r = db_value V k /\ prefix_of (dbof pre1) V /\ prefix_of V (dbof pre) /\ db_asc (dbof pre).
Check C06_write_commits_before_return : forall s0 m0 t0 pre t st, m0 < s0 -> run (init s0 m0 t0) (pre ++ [LWRet t]) = Some st -> exists pre1 pre2 pre3 b0 s, pre = pre1 ++ LInvW t b0 :: pre2 ++ LWPublish t s :: pre3 /\ no_inv t pre2 /\ no_inv t pre3 /\ dbof (pre1 ++ LInvW t b0 :: pre2 ++ [LWPublish t s]) = dbof (pre1 ++ LInvW t b0 :: pre2) ++ [(s, dedupe b0)].
Check C06_failed_write_has_no_effect : forall s0 m0 t0 pre t st, m0 < s0 -> run (init s0 m0 t0) (pre ++ [LWRetF t]) = Some st -> (exists pre1 pre2 b0, pre = pre1 ++ LInvW t b0 :: pre2 /\ no_inv t pre2 /\ (forall s, ~ In (LWPublish t s) pre2)) /\ dbof (pre ++ [LWRetF t]) = dbof pre.
Check C06_no_stale_read : forall (inv view : db) s b k v, db_asc view -> prefix_of inv view -> In (s, b) inv -> batch_get b k = Some v -> exists s' v', db_get view k = Some (s', v') /\ s <= s' /\ db_value view k = Some v' /\ (s' = s -> v' = v).
Check C06_no_unwritten_value : forall (view : db) k, match db_value view k with | Some v => exists s b, In (s, b) view /\ batch_get b k = Some v | None => forall s b, In (s, b) view -> batch_get b k = None end.
Check C06_monotone_reads : forall s0 m0 t0 pre x st k s1 v1, m0 < s0 -> run (init s0 m0 t0) (pre ++ x) = Some st -> db_get (dbof pre) k = Some (s1, v1) -> prefix_of (dbof pre) (dbof (pre ++ x)) /\ exists s2 v2, db_get (dbof (pre ++ x)) k = Some (s2, v2) /\ s1 <= s2.
Check C06_batch_atomic_snapshot : forall s0 m0 t0 pre x st s b k1 k2, m0 < s0 -> run (init s0 m0 t0) (pre ++ x) = Some st -> In (s, b) (dbof (pre ++ x)) -> batch_get b k1 <> None -> batch_get b k2 <> None -> sees (dbof pre) s k1 = sees (dbof pre) s k2.
Check C06_scan_is_one_snapshot : forall s0 m0 t0 pre t kv st, m0 < s0 -> run (init s0 m0 t0) (pre ++ [LScanNext t kv]) = Some st -> exists pre1 pre2 pre3 lo hi ts, pre = pre1 ++ LInvR t (QScan lo hi) :: pre2 ++ LSnap t ts :: pre3 /\ no_inv t pre2 /\ no_inv t pre3 /\ kv = db_scan_next (dbof (pre1 ++ LInvR t (QScan lo hi) :: pre2)) lo hi (scan_cursor t pre3 None).
Check C06_scan_next_is_least_live : forall d lo hi last, match db_scan_next d lo hi last with | Some (k, x) => in_bounds lo hi k = true /\ after last k = true /\ db_live d k = Some x /\ forall k', in_bounds lo hi k' = true -> after last k' = true -> db_live d k' <> None -> key_leb k k' = true | None => forall k', in_bounds lo hi k' = true -> after last k' = true -> db_live d k' = None end.
Check C06_reachable_skeleton : forall s0 m0 t0 ls st, m0 < s0 -> run (init s0 m0 t0) ls = Some st -> Skel st.
Check C06_flush_owns_log : forall s0 m0 t0 ls st trig g t, m0 < s0 -> run (init s0 m0 t0) ls = Some st -> k_fl st = FSealing trig g -> holds_mem (getpc st t) g = false.
Check C06_no_duplicate_insert : forall s0 m0 t0 ls st t b idx s g i kv e, m0 < s0 -> run (init s0 m0 t0) ls = Some st -> getpc st t = WInserting b idx s g i -> nth_error b i = Some kv -> In e (mt_ents (mem_at st g)) -> ~ (ek e = fst kv /\ ets e = s).
Check C06_batch_atomic_refuted_before_repair : exists ls, run_unrepaired (init 2 1 0) ls <> None /\ srun sinit ls = None /\ run (init 2 1 0) ls = None.
