(* pins for C08: statements of the property theorems as of the time of pinning *)
From Coq Require Import NArith List Bool.
From Blue Require Import Refs.Model Refs.ModelLock Refs.Spec Refs.ProofsCount Refs.ProofsTop Refs.ProofsLock Refs.IngestFault.
Import ListNotations.
Open Scope N_scope.
From Blue Require Import Refs.Props_C08.
Check C08_needed_not_removed : forall evs x, needed (run sys0 evs) x -> In x (f_sst (s_fs (run sys0 evs))).
Check C08_reference_counts_exact : forall evs p x, s_p (run sys0 evs) = Some p -> (rc_get x (p_refs p) + spc (npin x) (p_pcs p) = regsum x (p_vers p) + spc (nrel x) (p_pcs p))%nat /\ ((1 <= rc_get x (p_refs p))%nat -> In x (f_sst (s_fs (run sys0 evs)))).
Check C08_trashed_logs_are_replayed : forall evs l, In l (f_tlogs (s_fs (run sys0 evs))) -> log_covered (run sys0 evs) l.
Check C08_orphan_cleanup_safe : forall evs x, In x (orphan_scan (f_md (s_fs (run sys0 evs)))) -> ~ In x (live_strs (run sys0 evs)).
Check C08_reopen_finds_every_listed_sst : forall evs p rest, s_p (run sys0 evs) = Some p -> pc_get T_MAIN p = IFromManifest :: rest -> forallb (fun x => mem x (f_sst (s_fs (run sys0 evs)))) (ms_strs (p_ms p)) = true.
Check C08_verifier_unlinks_only_recorded_trash : forall evs ok, let s := run sys0 evs in let s' := step s (EVStep ok) in (forall x, In x (f_trash (s_fs s)) -> ~ In x (f_trash (s_fs s')) -> In (TSst x) (vs_strs (f_vs (s_fs s))) /\ exists m f, vs_m (f_vs (s_fs s)) = Some m /\ In (m, f) (s_frags s) /\ recorded_in f (TSst x)) /\ (forall n, log_has n (f_tlogs (s_fs s)) = true -> log_has n (f_tlogs (s_fs s')) = false -> In (TLog n) (vs_strs (f_vs (s_fs s))) /\ exists m f, vs_m (f_vs (s_fs s)) = Some m /\ In (m, f) (s_frags s) /\ recorded_in f (TLog n)).
Check C08_verifier_pass_preserves_contents : forall evs vevs, forallb verifier_event vevs = true -> let s := run sys0 evs in let s' := run s vevs in store_view s' = store_view s /\ live_strs s' = live_strs s /\ (forall x, needed s' x -> In x (f_sst (s_fs s'))).
Check C08_verifier_unlinks_verified_incarnation_outside_known : forall evs, ~ known_by_name sys0 evs -> pending_not_readded (run sys0 evs).
Check C08_release_callback_under_table_lock_refines_atomic_release : forall evs, exists evs', fst (frun true lsys0 evs) = run sys0 evs'.
Check C08_needed_not_removed_with_release_callback : forall evs x, needed (fst (frun true lsys0 evs)) x -> In x (f_sst (s_fs (fst (frun true lsys0 evs)))).
Check C08_needed_not_removed_refuted_without_lock_across_callback : exists evs x, needed (fst (frun false lsys0 evs)) x /\ ~ In x (f_sst (s_fs (fst (frun false lsys0 evs)))).
Check C08_verifier_unlinks_verified_incarnation_refuted : exists evs, ~ pending_not_readded (run sys0 evs).
Check C08_ingest_fault_listed_present : forall (ops : list iop) x, In x (i_live (fold_left istep ops i0)) -> In x (i_sst (fold_left istep ops i0)).
Check C08_ingest_fault_nothing_removed : forall (ops : list iop) o x, In x (i_sst (fold_left istep ops i0)) -> In x (i_sst (fold_left istep (ops ++ [o]) i0)).
Check C08_ingest_success_listed_and_present : forall x roll fault s s', ingest false x roll fault s = (s', true) -> In x (i_sst s') /\ In x (i_live s').
Check C08_ingest_cleanup_on_error_refuted : J i0 /\ ~ J (fst (ingest true 7 true (Some 6%nat) i0)).
Check C08_ingest_manifest_fault_poisons : forall x roll k s, mem x (i_sst s) = false -> i_poison s = false -> (2 <= k)%nat -> (k < length (prog x roll s))%nat -> i_poison (fst (ingest false x roll (Some k) s)) = true /\ snd (ingest false x roll (Some k) s) = false.
Check C08_ingest_poisoned_manifest_refuses : forall x roll fault s, i_poison s = true -> snd (ingest false x roll fault s) = false /\ i_live (fst (ingest false x roll fault s)) = i_live s /\ i_poison (fst (ingest false x roll fault s)) = true.
