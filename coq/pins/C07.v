(* pins for C07: statements of the property theorems as of the time of pinning *)
From Coq Require Import NArith ZArith List Bool.
From Blue Require Import Cursor.Iface Cursor.Ref Cursor.Bounds Cursor.Spec Snap.Model Snap.ProofsSafe.
Import ListNotations.
Local Open Scope N_scope.
From Blue Require Import Snap.Props_C07.
Check C07_no_freed_memory_no_missing_file : forall c seq es, cf_iter_owns c = true -> cf_holds_ver c = true -> Forall (fun o => o <> OErr UAF /\ o <> OErr ENOENT) (snd (mrun c (minit seq) es)).
Check C07_lifetime_invariant_reachable : forall c seq es, cf_iter_owns c = true -> cf_holds_ver c = true -> Inv (fst (mrun c (minit seq) es)).
Check C07_uaf_refuted_without_iterator_ownership : exists es, In (OErr UAF) (snd (mrun (mkCfg false true false 50) (minit 2) es)).
Check C07_enoent_refuted_without_version_hold : exists es, In (OErr ENOENT) (snd (mrun (mkCfg true false false 50) (minit 2) es)).
