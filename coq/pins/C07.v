(* pins for C07: statements of the property theorems as of the time of pinning *)
From Coq Require Import NArith ZArith List Bool Arith.
From Blue Require Import Cursor.Iface Cursor.Ref Cursor.Bounds Cursor.Pruning Cursor.Spec Cursor.Proofs_Ref Cursor.Proofs_Spec
  Snap.Model Snap.ProofsSafe Snap.ProofsLeaf Snap.ProofsGrow Snap.ProofsScan Snap.ProofsSpec Snap.ProofsStable Snap.ProofsLTG.
Import ListNotations.
Local Open Scope N_scope.
From Blue Require Import Snap.Props_C07.
Check C07_no_freed_memory_no_missing_file : forall c seq es, cf_iter_owns c = true -> cf_holds_ver c = true -> Forall (fun o => o <> OErr UAF /\ o <> OErr ENOENT) (snd (mrun c (minit seq) es)).
Check C07_lifetime_invariant_reachable : forall c seq es, cf_iter_owns c = true -> cf_holds_ver c = true -> Inv (fst (mrun c (minit seq) es)).
Check C07_fresh_scan_is_reference_cursor : forall fuel lo hi t (mems : list (N * list entry)) v, scan_wf lo hi (map snd mems) v -> (total_size (map snd mems) v + 2 <= fuel)%nat -> refines (xcur fuel scan_depth) (scan_new fuel lo hi t mems v) (scan_list lo hi t (map snd mems) v) (-1).
Check C07_scan_list_is_the_contents : forall lo hi t ls v, scan_wf lo hi ls v -> distinct (all_entries ls v) -> scan_list lo hi t ls v = bounds_spec lo hi (prune_spec t (fold_right insert_sorted [] (all_entries ls v))).
Check C07_open_hypotheses_checkable : forall c s lo hi, open_wfb c s lo hi = true -> scan_wf lo hi (map (look_of s) (open_mems s)) (cur_levels s) /\ distinct (all_entries (map (look_of s) (open_mems s)) (cur_levels s)) /\ (total_size (map (look_of s) (open_mems s)) (cur_levels s) + 2 <= cf_fuel c)%nat.
Check C07_cursor_keeps_scan_open_contents : forall c seq es1 cid lo hi es2, cf_iter_owns c = true -> cf_holds_ver c = true -> let s1 := fst (mrun c (minit seq) es1) in find_scan s1 cid = None -> open_wfb c s1 lo hi = true -> quietb cid true es2 = true -> Forall no_err (snd (mrun c s1 (EOpen cid lo hi :: es2))) -> cursor_trace cid (EOpen cid lo hi :: es2) (snd (mrun c s1 (EOpen cid lo hi :: es2))) = ref_trace (scan_spec s1 lo hi) (-1) cid es2.
Check C07_pruning_screens_late_writes : forall fuel t l0 evs, good_list fuel t l0 l0 -> good_evs fuel t l0 l0 evs -> grun fuel t (p_new gfix (g_new l0)) evs = gref (prune_spec t l0) (-1) evs.
Check C07_cursor_snapshot_stable : forall c seq es1 cid lo hi es2, cf_iter_owns c = true -> cf_holds_ver c = true -> let s1 := fst (mrun c (minit seq) es1) in find_scan s1 cid = None -> open_wfb c s1 lo hi = true -> open_tsb s1 = true -> forallb (held_ok cid) es2 = true -> fuel_enoughb c s1 es2 = true -> Forall no_err (snd (mrun c s1 (EOpen cid lo hi :: es2))) -> cursor_trace cid (EOpen cid lo hi :: es2) (snd (mrun c s1 (EOpen cid lo hi :: es2))) = ref_trace (scan_spec s1 lo hi) (-1) cid es2.
Check C07_uaf_refuted_without_iterator_ownership : exists es, In (OErr UAF) (snd (mrun (mkCfg false true false 50) (minit 2) es)).
Check C07_enoent_refuted_without_version_hold : exists es, In (OErr ENOENT) (snd (mrun (mkCfg true false false 50) (minit 2) es)).
