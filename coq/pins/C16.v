(* pins for C16: statements of the property theorems as of the time of pinning *)
From Coq Require Import NArith ZArith List.
From Blue Require Import Gen.Const_TupleKey TupleKey.Lex TupleKey.ModelV2 TupleKey.ModelV1 TupleKey.Spec TupleKey.ProofsV2 TupleKey.ProofsV2b TupleKey.ProofsV1c TupleKey.ProofsTop.
Import ListNotations.
Open Scope N_scope.
From Blue Require Import TupleKey.Props_C16.
Check C16_v2_order : forall t u, wf2 t -> wf2 u -> same_shape2 t u -> lex_cmp (encode2 t) (encode2 u) = tuple_cmp2 t u.
Check C16_v2_prefix_free : forall t u, wf2 t -> wf2 u -> same_shape2 t u -> (tuple_cmp2 t u <> Eq -> diverge (encode2 t) (encode2 u)) /\ (tuple_cmp2 t u = Eq -> encode2 t = encode2 u).
Check C16_v2_extension : forall t u e e', wf2 t -> wf2 u -> same_shape2 t u -> (e <> [] -> lex_cmp (encode2 t) (encode2 (t ++ e)) = Lt) /\ (tuple_cmp2 t u = Lt -> lex_cmp (encode2 (t ++ e)) (encode2 (u ++ e')) = Lt) /\ (tuple_cmp2 t u = Gt -> lex_cmp (encode2 (t ++ e)) (encode2 (u ++ e')) = Gt).
Check C16_v2_decode_encode : forall t, wf2 t -> decode2 (map ty_of2 t) (encode2 t) = Ok t.
Check C16_v2_decode_no_panic : forall tys bytes, decode2 tys bytes <> Panic.
Check C16_v2_decode_canonical : forall tys bytes t, bytes_ok bytes -> decode2 tys bytes = Ok t -> encode2 t = bytes /\ map ty_of2 t = tys /\ (Forall ty_ok tys -> wf2 t).
Check C16_v1_encode_total : forall t, wf1 t -> exists bytes, encode1 t = Some bytes.
Check C16_v1_order_outside_known : forall t u a b, wf1 t -> wf1 u -> same_shape1 t u -> encode1 t = Some a -> encode1 u = Some b -> known_F12 t u = false -> lex_cmp a b = tuple_cmp1 t u.
Check C16_v1_order_inside_known : forall t u a b, wf1 t -> wf1 u -> same_shape1 t u -> encode1 t = Some a -> encode1 u = Some b -> known_F12 t u = true -> lex_cmp a b = CompOpp (tuple_cmp1 t u) /\ tuple_cmp1 t u <> Eq.
Check C16_v1_order_refuted : exists t u a b, wf1 t /\ wf1 u /\ same_shape1 t u /\ encode1 t = Some a /\ encode1 u = Some b /\ lex_cmp a b <> tuple_cmp1 t u.
Check C16_v1_prefix_free : forall t u a b, wf1 t -> wf1 u -> same_shape1 t u -> encode1 t = Some a -> encode1 u = Some b -> (tuple_cmp1 t u <> Eq -> diverge a b) /\ (tuple_cmp1 t u = Eq -> a = b).
Check C16_v1_extension : forall t u e e' a b ae be, wf1 (t ++ e) -> wf1 (u ++ e') -> same_shape1 t u -> encode1 t = Some a -> encode1 u = Some b -> encode1 (t ++ e) = Some ae -> encode1 (u ++ e') = Some be -> (e <> [] -> lex_cmp a ae = Lt) /\ (known_F12 t u = false -> tuple_cmp1 t u = Lt -> lex_cmp ae be = Lt) /\ (known_F12 t u = false -> tuple_cmp1 t u = Gt -> lex_cmp ae be = Gt).
Check C16_v1_decode_encode : forall via t a rest, wf1 t -> Forall (fun fl => utf8_el1 (f_val fl)) t -> encode1 t = Some a -> decode1 via (map shape_of t) (a ++ rest) = Ok1 (map f_val t).
Check C16_v1_decode_no_panic : forall via shape bytes, decode1 via shape bytes <> Panic1.
Check C16_v1_peek_next : forall fl t a rest, wf1 (fl :: t) -> encode1 (fl :: t) = Some a -> peek_next (a ++ rest) = Some (Some (f_num fl, kty_of (f_val fl), f_dir fl)).
