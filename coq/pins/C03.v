(* pins for C03: statements of the property theorems as of the time of pinning *)
From Coq Require Import NArith ZArith List Bool.
From Blue Require Import Lsm.Model Lsm.LoadProofs Lsm.Ordered Lsm.History Lsm.ModelConcurrent Lsm.ConcInv
  Lsm.ConcurrentProofs.
From Blue Require Import Cursor.Iface Cursor.Ref Cursor.Bounds Cursor.Spec Cursor.Compose Cursor.Proofs_Compose.
From Blue Require Import Scan.Skip Scan.Model Scan.Proofs_Bridge Scan.Proofs_Count Scan.Proofs_Wf Scan.Proofs_Skip
  Scan.Proofs_Scan Scan.Proofs_Extra.
Import ListNotations.
Local Open Scope Z_scope.
From Blue Require Import Scan.Props_C03.
Check C03_scan_correct : forall s lo hi prog, Inv s -> run_scan s lo hi prog = run_live s lo hi prog.
Check C03_scan_after_history : forall n ops lo hi prog, all_accepted (init_at n) ops = true -> run_scan (History.run (init_at n) ops) lo hi prog = run_live (History.run (init_at n) ops) lo hi prog.
Check C03_scan_after_concurrent_history : forall n ops lo hi prog, caccepted (cinit_at n) ops = true -> run_scan (st (crun (cinit_at n) ops)) lo hi prog = run_live (st (crun (cinit_at n) ops)) lo hi prog.
Check C03_live_spec_characterised : forall s lo hi x, Inv s -> (In x (live_spec s lo hi) <-> in_bounds lo hi x = true /\ load s (ek x) (seq s) = Some (uncv x) /\ ev x <> None).
Check C03_live_spec_ascending_once : forall s lo hi, kinc (map ek (live_spec s lo hi)) /\ sorted (live_spec s lo hi).
Check C03_live_spec_is_latest_puts : forall n ops lo hi k v, all_accepted (init_at n) ops = true -> ((exists x, In x (live_spec (History.run (init_at n) ops) lo hi) /\ ek x = k /\ ev x = Some v) <-> key_in lo hi k = true /\ History.spec ops k = Some v).
Check C03_scan_expr_wf : forall s mems lo hi t, Inv s -> concat mems = mem s -> wf (scan_expr_gen mems (ver s) t lo hi).
Check C03_scan_spec_is_live : forall s mems lo hi t, Inv s -> concat mems = mem s -> spec_of (scan_expr_gen mems (ver s) t lo hi) = live_spec_at s t lo hi.
Check C03_memtable_cursor : forall fuel lo hi l, sorted l -> Z.of_nat fuel >= len l + 2 -> refines (bounds skcur fuel lo hi) (b_new skcur lo hi (sk_new l)) (bounds_spec lo hi l) (-1).
Check C03_scan_with_immutable_memtable : forall s m1 m2 lo hi prog, Inv s -> mem s = m1 ++ m2 -> run_scan_gen [m1; m2] (ver s) (seq s) lo hi prog = run_live s lo hi prog.
Check C03_scan_at_any_timestamp : forall s mems lo hi t prog, Inv s -> concat mems = mem s -> run_scan_gen mems (ver s) t lo hi prog = run (ref (live_spec_at s t lo hi)) prog (-1).
Check C03_scan_at_visible_seq_no : forall s lo hi t prog, Inv s -> covers s t -> run_scan_gen [mem s] (ver s) t lo hi prog = run_live s lo hi prog.
Check C03_scan_never_fails : forall s lo hi prog, Inv s -> Forall (fun o : obs => snd o = None) (run_scan s lo hi prog).
Check C03_scan_observes_only_live : forall s lo hi prog e f, Inv s -> In (Some e, f) (run_scan s lo hi prog) -> in_bounds lo hi e = true /\ load s (ek e) (seq s) = Some (uncv e) /\ ev e <> None.
Check C03_seek_lands : forall s lo hi prog k, Inv s -> last (run_scan s lo hi (prog ++ [OSeek k])) (None, None) = (find (fun e => negb (kltb (ek e) k)) (live_spec s lo hi), None).
Check C03_forward_walk : forall s lo hi, Inv s -> map fst (run_scan s lo hi (repeat ONext (length (live_spec s lo hi) + 1))) = None :: map Some (live_spec s lo hi) ++ [None].
Check C03_backward_walk : forall s lo hi, Inv s -> map fst (run_scan s lo hi (OLast :: repeat OPrev (length (live_spec s lo hi) + 1))) = None :: None :: map Some (rev (live_spec s lo hi)) ++ [None].
Check C03_tree_scan_correct : forall s lo hi prog, Inv s -> (seq s <= U64_MAX)%N -> run_tree_scan (ver s) lo hi prog = run_live (tree_store s) lo hi prog.
