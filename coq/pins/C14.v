(* pins for C14: statements of the property theorems as of the time of pinning *)
From Coq Require Import NArith List Permutation.
From Blue Require Import Gen.Const_Setsum Setsum.Model Setsum.Proofs.
Import ListNotations.
Open Scope N_scope.
From Blue Require Import Setsum.Props_C14.
Check C14_order_independent : forall H, hash_ok H -> forall xs ys, Permutation xs ys -> setsum_of H xs = setsum_of H ys.
Check C14_union : forall H, hash_ok H -> forall xs ys, setsum_of H (xs ++ ys) = add_state (setsum_of H xs) (setsum_of H ys).
Check C14_remove_undoes_insert : forall H, hash_ok H -> forall s x, canonical s -> remove H (insert H s x) x = Some s.
Check C14_vectored_is_concat : forall H s pieces, insert_vectored H s pieces = insert H s (concat pieces).
Check C14_sub_undoes_add : forall a b, canonical a -> canonical b -> sub_state (add_state a b) b = Some a.
Check C14_add_undoes_sub : forall a b s, canonical a -> canonical b -> sub_state a b = Some s -> add_state s b = a.
Check C14_group_laws : forall a b c, canonical a -> canonical b -> canonical c -> add_state a b = add_state b a /\ add_state (add_state a b) c = add_state a (add_state b c) /\ add_state a zero = a /\ sub_state a a = Some zero.
Check C14_digest_roundtrip : forall s, canonical s -> from_digest (digest s) = s /\ from_hexdigest (hexdigest s) = Some s.
Check C14_digest_of_from_digest : forall d, bytes_ok d -> length d = 32%nat -> canonical (words d) -> digest (from_digest d) = d.
Check C14_all_values_canonical : forall H, hash_ok H -> canonical zero /\ (forall a b, canonical a -> canonical b -> canonical (add_state a b)) /\ (forall a b s, canonical a -> canonical b -> sub_state a b = Some s -> canonical s) /\ (forall s x, canonical s -> canonical (insert H s x)) /\ (forall s x s', canonical s -> remove H s x = Some s' -> canonical s') /\ (forall d, bytes_ok d -> length d = 32%nat -> canonical (from_digest d)) /\ (forall cs s, from_hexdigest cs = Some s -> canonical s).
Check C14_no_panic : forall ops, Forall op_ok ops -> ~ In OutPanic (run_case ops).
Check C14_matches_definition : forall H, hash_ok H -> forall items, setsum_of H items = setsum_spec H items.
