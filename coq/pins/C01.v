(* pins for C01: statements of the property theorems as of the time of pinning *)
From Coq Require Import NArith List.
From Blue Require Import Gen.Const_Lsm Lsm.Model Lsm.LoadProofs Lsm.Ordered Lsm.CompactProofs Lsm.GcProofs Lsm.WfProofs Lsm.History Lsm.RecoverImpossible.
Import ListNotations.
Open Scope N_scope.
From Blue Require Import Lsm.Props_C01.
Check C01_reads_return_latest_write : forall n ops k, all_accepted (init_at n) ops = true -> get (run (init_at n) ops) k = spec ops k.
Check C01_load_newest : forall s k t, wf_version (ver s) -> Ordered s -> match load s k t with | Some e => In e (all_entries s) /\ ek e = k /\ ets e <= t /\ (forall e', In e' (all_entries s) -> ek e' = k -> ets e' <= t -> ets e' <= ets e) | None => forall e', In e' (all_entries s) -> ek e' = k -> t < ets e' end.
Check C01_compaction_preserves_view : forall s c outs, wf_version (ver s) -> Ordered s -> valid_compactionb (ver s) c = true -> outputs_okb (ver s) c outs = true -> forall k, kview (compact s c outs) k = kview s k.
Check C01_compaction_preserves_reads : forall s c outs, Inv s -> acceptedb s (OCompact c outs) = true -> forall k t, load (compact s c outs) k t = load s k t.
Check C01_gc_preserves_reads : forall s c outs k, wf_version (ver s) -> Ordered s -> valid_compactionb (ver s) c = true -> S (cupper c) = length (ver s) -> gc_outputs_okb (ver s) c outs = true -> hd_value (kview (compact s c outs) k) = hd_value (kview s k) /\ desc_ts (kview (compact s c outs) k) /\ (forall e, In e (kview (compact s c outs) k) -> In e (kview s k)).
Check C01_compaction_keeps_levels_well_formed : forall s c outs, wf_version (ver s) -> Ordered s -> valid_compactionb (ver s) c = true -> (outputs_okb (ver s) c outs = true \/ gc_outputs_okb (ver s) c outs = true) -> wf_versionb (apply_compaction (ver s) c outs) = true.
Check C01_invariant_reachable : forall n ops, all_accepted (init_at n) ops = true -> Inv (run (init_at n) ops).
Check C01_recovery_from_metadata_refuted : (meta fA = meta fA' /\ meta fB = meta fB') /\ (wf_versionb vAB = true /\ orderedb (mkS [] vAB 9) = true /\ wf_versionb vBA' = true /\ orderedb (mkS [] vBA' 9) = true) /\ (forall v n n', only_AB (flat v) -> In fA (flat v) -> In fB (flat v) -> ~ (Ordered (mkS [] v n) /\ Ordered (mkS [] (swap_contents v) n'))).
