(* pins for C02: statements of the property theorems as of the time of pinning *)
From Coq Require Import NArith List Bool.
From Blue Require Import Lsm.Model Lsm.LoadProofs Lsm.Ordered Crash.Model Crash.ProofsFs Crash.ProofsInv Crash.ProofsSteps
  Crash.ProofsOps Crash.ProofsOpen Crash.ProofsCompact Crash.ProofsLts Crash.ProofsTop.
Import ListNotations.
Open Scope N_scope.
From Blue Require Import Crash.Props_C02.
Check C02_crash_safe : forall c, reach c -> c_v c = None -> exists s', run (fst (fst (open_prog (c_fs c)))) (c_fs c) = (s', None) /\ snd (open_prog (c_fs c)) = true /\ Run s' (snd (fst (open_prog (c_fs c)))) /\ exists W, sel (c_hist c) W /\ explains W (all_entries (snd (fst (open_prog (c_fs c))))).
Check C02_acknowledged_kept : forall h W, sel h W -> forall b, In (true, b) h -> In b W.
Check C02_nothing_invented : forall h W, sel h W -> forall b, In b W -> exists a, In (a, b) h.
Check C02_merge_accepted : forall v gc ins outs, ts_unique (all_entries v) -> incl ins (v_files v) -> (forall e, In e (concat outs) <-> In e (concat ins)) -> accepted v (OpCompact gc ins outs).
Check C02_acceptedb_sound : forall v o, acceptedb v o = true -> accepted v o.
Check C02_timestamps_unique : forall c v, reach c -> c_v c = Some v -> ts_unique (all_entries v).
Check C02_crash_models_covered : forall s, cut s (image_a s) /\ cut s (image_b s).
Check C02_open_store_contents : forall c v, reach c -> c_v c = Some v -> Run (c_fs c) v /\ exists W, sel (c_hist c) W /\ explains W (all_entries v).
Check C02_sequence_numbers_fresh : forall c v, reach c -> c_v c = Some v -> forall e, In e (all_entries v) -> ets e < v_seq v + 1.
Check C02_recovery_returns_image : forall c, reach c -> c_v c = None -> forall e, In e (disk_entries (c_fs c)) <-> In e (all_entries (snd (fst (open_prog (c_fs c))))).
Check C02_reads_newest_recovered_outside_known : forall (st : store) (E : list entry) k, wf_version (ver st) -> Ordered st -> (forall e, In e (Lsm.Ordered.all_entries st) <-> In e E) -> match load st k (seq st) with | Some e => In e E /\ ek e = k /\ (forall e', In e' E -> ek e' = k -> ets e' <= seq st -> ets e' <= ets e) | None => forall e', In e' E -> ek e' = k -> seq st < ets e' end.
Check C02_reads_newest_recovered_refuted : exists (st : store) k e e', wf_version (ver st) /\ load st k (seq st) = Some e /\ In e' (Lsm.Ordered.all_entries st) /\ ek e' = k /\ ets e' <= seq st /\ ets e < ets e'.
Check C02_fault_surfaced : forall p k s, run p s = (fst (run p s), None) -> (k < length p)%nat -> ~ dropped (snd (nth k p (CSync NMani, Must))) -> snd (run_prog p (Some k) O s None) <> None.
Check C02_only_trash_renames_dropped : forall c m, dropped m -> (forall v s o, In (c, m) (fst (op_prog v s o)) -> exists x, c = CRename (NSst x) (NTrashSst x)) /\ (forall s, In (c, m) (fst (fst (open_prog s))) -> exists x, c = CRename (NSst x) (NTrashSst x)).
Check C02_fault_leaves_recoverable : forall s v o f k, Run s v -> op_fs_ok v o -> Safe (fst (run_prog (firstn k (fst (op_prog v s o))) f O s None)) (op_base v o) (op_pend v o).
Check C02_recovery_fault_leaves_recoverable : forall c f k, reach c -> c_v c = None -> exists E W, sel (c_hist c) W /\ explains W E /\ Safe (fst (run_prog (firstn k (fst (fst (open_prog (c_fs c))))) f O (c_fs c) None)) E None.
Check C02_recoverable_image_opens : forall s E, Good s E -> exists s', run (fst (fst (open_prog s))) s = (s', None) /\ snd (open_prog s) = true /\ Run s' (snd (fst (open_prog s))) /\ forall e, In e (all_entries (snd (fst (open_prog s)))) <-> In e E.
Check C02_safe_state_recovers : forall s E P img, Safe s E P -> cut s img -> exists E', (E' = E \/ exists p, P = Some p /\ E' = E ++ p) /\ exists s', run (fst (fst (open_prog img))) img = (s', None) /\ snd (open_prog img) = true /\ Run s' (snd (fst (open_prog img))) /\ forall e, In e (all_entries (snd (fst (open_prog img)))) <-> In e E'.
Check C02_error_at_log_write_is_step : forall c v b, reach c -> c_v c = Some v -> accepted v (OpWrite b) -> reach (mkCfg (c_fs c) (Some (fault_next v (OpWrite b))) (hist_next v (OpWrite b) false (c_hist c))).
Check C02_error_at_flush_start_is_step : forall c v, reach c -> c_v c = Some v -> reach (mkCfg (c_fs c) (Some v) (c_hist c)).
Check C02_same_relb_sound : forall s s', same_relb s s' = true -> same_rel s s'.
Check C02_driver_error_state : forall x o hit_mani, x_v (xnext_err x o hit_mani) = fault_next (x_v x) o.
Check C02_driver_programs : forall x s o p flag, xop_prog x s o = Some (p, flag) -> (p, flag) = op_prog (x_v x) s o \/ (p, flag) = ([], false).
