(* pins for C05: statements of the property theorems as of the time of pinning *)
From Coq Require Import NArith PArith List Bool Permutation.
From Blue Require Import Gen.Const_Gc Setsum.Model Setsum.Proofs Gc.Model Gc.ModelLiteral Gc.Spec
  Gc.Discard Gc.Proofs_Key Gc.Proofs_Det Gc.Proofs_Collect Gc.Proofs_Walk Gc.Proofs_Discard
  Gc.Proofs_Current Gc.Proofs_Literal Gc.Proofs_Index Gc.Proofs_Tree Gc.Proofs_Weak Gc.Proofs_Rewrite.
From Blue Require Lsm.Model Lsm.LoadProofs Lsm.Ordered Lsm.SortLemmas Lsm.CompactProofs Lsm.GcProofs
  Gc.Bridge_Conserve Gc.Bridge_Lsm.
Import ListNotations.
Open Scope N_scope.
From Blue Require Import Gc.Props_C05.
Check C05_collector_eq_spec : forall p now es, contiguous es -> collect p es now = Some (map kr (gc_spec p now es)).
Check C05_collector_eq_spec_sorted : forall p now es, sorted es -> collect p es now = Some (map kr (gc_spec p now es)).
Check C05_literal_next_is_model_next : forall g, gc_next_literal g = Some (gc_next g).
Check C05_literal_collect_is_model_collect : forall p es now, collect_literal p es now = collect p es now.
Check C05_spec_two_readings : forall p now vs, spec_key p now 0 vs = spec_key_idx p now vs.
Check C05_retained_is_subsequence : forall p now es, contiguous es -> sublist (gc_spec p now es) es.
Check C05_gc_walk_spec : forall (A : Type) (add : A -> entry -> A) acc0 p es, sorted es -> gc_walk add acc0 p es = WOk (gc_spec p 0 es) (fold_left add (gc_dropped p 0 es) acc0).
Check C05_gc_sync_never_errors : forall (A : Type) (add : A -> entry -> A) acc0 p es, sorted es -> gc_walk add acc0 p es <> WOutOfSync.
Check C05_collector_eq_spec_weakly_sorted : forall p now es, wsorted es -> collect p es now = Some (map kr (gc_spec p now es)).
Check C05_gc_sync_never_errors_weakly_sorted : forall (A : Type) (add : A -> entry -> A) acc0 p es, wsorted es -> gc_walk add acc0 p es <> WOutOfSync.
Check C05_walk_weakly_sorted_guarantee : forall (A : Type) (add : A -> entry -> A) acc0 p es, wsorted es -> exists written dropped, gc_walk add acc0 p es = WOk written (fold_left add dropped acc0) /\ map kr written = map kr (gc_spec p 0 es) /\ sublist written es /\ Permutation es (written ++ dropped).
Check C05_walk_needs_distinct_pairs : exists p es, wsorted es /\ match gc_walk (fun (a : unit) _ => a) tt p es with | WOk written _ => written <> gc_spec p 0 es /\ exists e, In e (gc_spec p 0 es) /\ ~ In e written | WOutOfSync => False end.
Check C05_walk_writes_spec_without_adjacent_duplicates : forall (A : Type) (add : A -> entry -> A) acc0 p es, wsorted es -> ~ duplicate_pairs es -> gc_walk add acc0 p es = WOk (gc_spec p 0 es) (fold_left add (gc_dropped p 0 es) acc0).
Check C05_discard_is_dropped : forall H, hash_ok H -> forall p es, sorted es -> gc_walk_setsum H p es = WOk (gc_spec p 0 es) (entries_setsum H (gc_dropped p 0 es)).
Check C05_written_plus_dropped_is_input : forall p now es, sorted es -> Permutation es (gc_spec p now es ++ gc_dropped p now es).
Check C05_books_balance : forall H, hash_ok H -> forall p es, sorted es -> entries_setsum H es = add_state (entries_setsum H (gc_spec p 0 es)) (entries_setsum H (gc_dropped p 0 es)).
Check C05_versions_preserves_current : forall n now es k, visible (gc_spec (PVersions n) now es) k = visible es k.
Check C05_versions_deciding_entry : forall n now vs, match vs with | [] => spec_key (PVersions n) now 0 vs = [] | e :: _ => if is_value e then exists rest, spec_key (PVersions n) now 0 vs = e :: rest else spec_key (PVersions n) now 0 vs = [] \/ exists t rest, spec_key (PVersions n) now 0 vs = t :: rest /\ is_value t = false /\ In t vs end.
Check C05_default_policy_closed_form : forall now vs, spec_key (PVersions 1) now 0 vs = match vs with | e :: _ => if is_value e then [e] else [] | [] => [] end.
Check C05_current_preserved_refuted : exists p es k, sorted es /\ match gc_walk (fun (a : unit) _ => a) tt p es with | WOk written _ => visible written k <> visible es k | WOutOfSync => False end.
Check C05_current_preserved_outside_known : forall p, ~ Known_retain_nothing p -> forall (A : Type) (add : A -> entry -> A) acc0 es, sorted es -> exists written discard, gc_walk add acc0 p es = WOk written discard /\ forall k, visible written k = visible es k.
Check C05_tree_read_preserved : forall p, ~ Known_retain_nothing p -> forall (A : Type) (add : A -> entry -> A) acc0 rest es k, sorted es -> inputs_closed_for rest es k -> exists written discard, gc_walk add acc0 p es = WOk written discard /\ read (rest ++ written) k = read (rest ++ es) k.
Check C05_tree_read_needs_closed_inputs : exists p rest es k, keeps_newest p = true /\ sorted es /\ ~ inputs_closed_for rest es k /\ match gc_walk (fun (a : unit) _ => a) tt p es with | WOk written _ => read (rest ++ written) k <> read (rest ++ es) k | WOutOfSync => False end.
Check C05_read_by_timestamp_is_first : forall es k, sorted es -> read es k = visible es k.
Check C05_expires_never_collects_in_lsmtk : forall m w ts, sat (PExpires m) 0 w ts = true.
Check C05_gc_only_top_level : forall ninputs upper, dispatch ninputs upper = KGc -> upper = GC_NUM_LEVELS - 1 /\ ninputs <> 1.
Check C05_rewrite_writes_everything_once : forall (target_full minimum_full : list entry -> bool) (main : list (bool * entry)), concat (rewrite_outputs target_full minimum_full main) = map snd main /\ Forall (fun f => f <> []) (rewrite_outputs target_full minimum_full main).
Check C05_compaction_conserves_entries : forall v c outs, Lsm.Model.valid_compactionb v c = true -> Lsm.Model.outputs_okb v c outs = true -> Permutation (Lsm.Model.file_entries (Lsm.Model.apply_compaction v c outs)) (Lsm.Model.file_entries v).
Check C05_rewrite_conserves_entries : forall v c target_full minimum_full main outs, Lsm.Model.valid_compactionb v c = true -> map snd main = map Gc.Bridge_Lsm.to_gc (Lsm.Model.sort_entries (Lsm.Model.input_entries v c)) -> map Lsm.Model.fents outs = map (map Gc.Bridge_Lsm.of_gc) (rewrite_outputs target_full minimum_full main) -> Permutation (Lsm.Model.file_entries (Lsm.Model.apply_compaction v c outs)) (Lsm.Model.file_entries v).
Check C05_merged_inputs_sorted : forall s c, Lsm.LoadProofs.wf_version (Lsm.Model.ver s) -> Lsm.Ordered.Ordered s -> Lsm.Model.valid_compactionb (Lsm.Model.ver s) c = true -> sorted (map Gc.Bridge_Lsm.to_gc (Lsm.Model.sort_entries (Lsm.Model.input_entries (Lsm.Model.ver s) c))).
Check C05_collector_outputs_admissible : forall v c outs p, keeps_newest p = true -> flat_map Lsm.Model.fents outs = map Gc.Bridge_Lsm.of_gc (gc_spec p 0 (map Gc.Bridge_Lsm.to_gc (Lsm.Model.sort_entries (Lsm.Model.input_entries v c)))) -> forallb (fun f => match Lsm.Model.fents f with [] => false | _ => true end) outs = true -> Lsm.Model.gc_outputs_okb v c outs = true.
Check C05_gc_installed_preserves_reads : forall s c p outs k, Lsm.LoadProofs.wf_version (Lsm.Model.ver s) -> Lsm.Ordered.Ordered s -> Lsm.Model.valid_compactionb (Lsm.Model.ver s) c = true -> keeps_newest p = true -> S (Lsm.Model.cupper c) = length (Lsm.Model.ver s) -> flat_map Lsm.Model.fents outs = map Gc.Bridge_Lsm.of_gc (gc_spec p 0 (map Gc.Bridge_Lsm.to_gc (Lsm.Model.sort_entries (Lsm.Model.input_entries (Lsm.Model.ver s) c)))) -> forallb (fun f => match Lsm.Model.fents f with [] => false | _ => true end) outs = true -> Lsm.GcProofs.hd_value (Lsm.Model.kview (Lsm.Model.compact s c outs) k) = Lsm.GcProofs.hd_value (Lsm.Model.kview s k) /\ Lsm.Ordered.desc_ts (Lsm.Model.kview (Lsm.Model.compact s c outs) k) /\ (forall e, In e (Lsm.Model.kview (Lsm.Model.compact s c outs) k) -> In e (Lsm.Model.kview s k)).
Check C05_inputs_closed_from_tree_invariant : forall s c k outs, Lsm.LoadProofs.wf_version (Lsm.Model.ver s) -> Lsm.Ordered.Ordered s -> Lsm.Model.valid_compactionb (Lsm.Model.ver s) c = true -> S (Lsm.Model.cupper c) = length (Lsm.Model.ver s) -> exists A B, Lsm.Model.kview s k = A ++ Lsm.GcProofs.J s c k ++ B /\ Lsm.Model.kview (Lsm.Model.compact s c outs) k = A ++ Lsm.CompactProofs.K k outs ++ B /\ (Lsm.GcProofs.J s c k <> [] -> B = []) /\ inputs_closed_for (map Gc.Bridge_Lsm.to_gc A) (map Gc.Bridge_Lsm.to_gc (Lsm.Model.sort_entries (Lsm.Model.input_entries (Lsm.Model.ver s) c))) k.
Check C05_gc_conserves_entries_up_to_dropped : forall s c p outs, Lsm.LoadProofs.wf_version (Lsm.Model.ver s) -> Lsm.Ordered.Ordered s -> Lsm.Model.valid_compactionb (Lsm.Model.ver s) c = true -> flat_map Lsm.Model.fents outs = map Gc.Bridge_Lsm.of_gc (gc_spec p 0 (map Gc.Bridge_Lsm.to_gc (Lsm.Model.sort_entries (Lsm.Model.input_entries (Lsm.Model.ver s) c)))) -> Permutation (Lsm.Model.file_entries (Lsm.Model.apply_compaction (Lsm.Model.ver s) c outs) ++ map Gc.Bridge_Lsm.of_gc (gc_dropped p 0 (map Gc.Bridge_Lsm.to_gc (Lsm.Model.sort_entries (Lsm.Model.input_entries (Lsm.Model.ver s) c))))) (Lsm.Model.file_entries (Lsm.Model.ver s)).
