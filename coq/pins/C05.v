(* pins for C05: statements of the property theorems as of the time of pinning *)
From Coq Require Import NArith PArith List Bool Permutation.
From Blue Require Import Gen.Const_Gc Setsum.Model Setsum.Proofs Gc.Model Gc.ModelLiteral Gc.Spec
  Gc.Discard Gc.Proofs_Key Gc.Proofs_Det Gc.Proofs_Collect Gc.Proofs_Walk Gc.Proofs_Discard
  Gc.Proofs_Current Gc.Proofs_Literal Gc.Proofs_Index Gc.Proofs_Tree Gc.Proofs_Weak.
Import ListNotations.
Open Scope N_scope.
From Blue Require Import Gc.Props_C05.
Check C05_collector_eq_spec : forall p now es, contiguous es -> collect p es now = Some (map kr (gc_spec p now es)).
Check C05_collector_eq_spec_sorted : forall p now es, sorted es -> collect p es now = Some (map kr (gc_spec p now es)).
Check C05_literal_next_is_model_next : forall g, gc_next_literal g = Some (gc_next g).
Check C05_literal_collect_is_model_collect : forall p es now, collect_literal p es now = collect p es now.
Check C05_spec_two_readings : forall p now vs, spec_key p now 0 vs = spec_key_idx p now vs.
Check C05_retained_is_subsequence : forall p now es, contiguous es -> sublist (gc_spec p now es) es.
Check C05_gc_walk_spec : forall (A : Type) (add : A -> entry -> A) acc0 p es, sorted es -> gc_walk add acc0 p es = WOk (gc_spec p 0 es) (fold_left add (gc_dropped p 0 es) acc0).
Check C05_gc_sync_never_errors : forall (A : Type) (add : A -> entry -> A) acc0 p es, sorted es -> gc_walk add acc0 p es <> WOutOfSync.
Check C05_collector_eq_spec_weakly_sorted : forall p now es, wsorted es -> collect p es now = Some (map kr (gc_spec p now es)).
Check C05_gc_sync_never_errors_weakly_sorted : forall (A : Type) (add : A -> entry -> A) acc0 p es, wsorted es -> gc_walk add acc0 p es <> WOutOfSync.
Check C05_discard_is_dropped : forall H, hash_ok H -> forall p es, sorted es -> gc_walk_setsum H p es = WOk (gc_spec p 0 es) (entries_setsum H (gc_dropped p 0 es)).
Check C05_written_plus_dropped_is_input : forall p now es, sorted es -> Permutation es (gc_spec p now es ++ gc_dropped p now es).
Check C05_books_balance : forall H, hash_ok H -> forall p es, sorted es -> entries_setsum H es = add_state (entries_setsum H (gc_spec p 0 es)) (entries_setsum H (gc_dropped p 0 es)).
Check C05_versions_preserves_current : forall n now es k, visible (gc_spec (PVersions n) now es) k = visible es k.
Check C05_versions_deciding_entry : forall n now vs, match vs with | [] => spec_key (PVersions n) now 0 vs = [] | e :: _ => if is_value e then exists rest, spec_key (PVersions n) now 0 vs = e :: rest else spec_key (PVersions n) now 0 vs = [] \/ exists t rest, spec_key (PVersions n) now 0 vs = t :: rest /\ is_value t = false /\ In t vs end.
Check C05_default_policy_closed_form : forall now vs, spec_key (PVersions 1) now 0 vs = match vs with | e :: _ => if is_value e then [e] else [] | [] => [] end.
Check C05_current_preserved_refuted : exists p es k, sorted es /\ match gc_walk (fun (a : unit) _ => a) tt p es with | WOk written _ => visible written k <> visible es k | WOutOfSync => False end.
Check C05_current_preserved_outside_known : forall p, ~ Known_retain_nothing p -> forall (A : Type) (add : A -> entry -> A) acc0 es, sorted es -> exists written discard, gc_walk add acc0 p es = WOk written discard /\ forall k, visible written k = visible es k.
Check C05_tree_read_refuted : exists p rest es k, keeps_newest p = true /\ sorted es /\ match gc_walk (fun (a : unit) _ => a) tt p es with | WOk written _ => read (rest ++ written) k <> read (rest ++ es) k | WOutOfSync => False end.
Check C05_tree_read_outside_known : forall p, ~ Known_retain_nothing p -> forall (A : Type) (add : A -> entry -> A) acc0 rest es k, sorted es -> ~ Known_inputs_not_closed rest es k -> exists written discard, gc_walk add acc0 p es = WOk written discard /\ read (rest ++ written) k = read (rest ++ es) k.
Check C05_read_by_timestamp_is_first : forall es k, sorted es -> read es k = visible es k.
Check C05_expires_never_collects_in_lsmtk : forall m w ts, sat (PExpires m) 0 w ts = true.
Check C05_gc_only_top_level : forall ninputs upper, dispatch ninputs upper = KGc -> upper = GC_NUM_LEVELS - 1 /\ ninputs <> 1.
Check C05_rewrite_writes_everything : forall (A : Type) (acc0 : A) es, rewrite_walk acc0 es = WOk es acc0.
