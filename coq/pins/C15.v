(* pins for C15: statements of the property theorems as of the time of pinning *)
From Coq Require Import NArith ZArith List Bool.
From Blue Require Import Gen.Const_Wire Wire.Model Wire.ModelMsg Wire.Spec Wire.GenWT.
From Blue Require Import Wire.ProofsVarint Wire.ProofsCanon Wire.ProofsScalar Wire.ProofsPk Wire.ProofsMsg Wire.ProofsTotal Wire.ProofsExtra Wire.ProofsProj Wire.ProofsTyped Wire.ProofsRec.
Import ListNotations.
Open Scope N_scope.
From Blue Require Import Wire.Props_C15.
Check C15_message_roundtrip : forall m v, msg_wf m = true -> val_ok m v = true -> msg_pack_sz m v < W64 -> msg_to_vec m v = Ok (ref_msg m v) /\ len (ref_msg m v) = msg_pack_sz m v /\ msg_unpack m (ref_msg m v) = Ok (v, []).
Check C15_enum_roundtrip_leaves_rest : forall m v rest, msg_wf m = true -> val_ok m v = true -> msg_pack_sz m v < W64 -> is_struct m = false -> bytes_ok rest -> msg_unpack m (ref_msg m v ++ rest) = Ok (v, rest).
Check C15_pack_fills_exactly_pack_sz : forall p, len (pk_bytes p) = pk_sz p /\ pk_pack p (pk_sz p) = Ok (pk_bytes p) /\ to_vec p = Ok (pk_bytes p).
Check C15_unpack_total : forall m buf, bytes_ok buf -> (exists v rest pre, msg_unpack m buf = Ok (v, rest) /\ buf = pre ++ rest) \/ (exists e, msg_unpack m buf = Err e).
Check C15_unpack_returns_values_of_the_shape : forall m buf v rest, msg_wf m = true -> bytes_ok buf -> msg_unpack m buf = Ok (v, rest) -> val_ok m v = true /\ (msg_pack_sz m v < W64 -> msg_unpack m (ref_msg m v) = Ok (v, [])).
Check C15_scalar_unpack_total : forall s buf, bytes_ok buf -> (exists v rest pre, unpack_scalar s buf = Ok (v, rest) /\ buf = pre ++ rest /\ sval_ok s v = true) \/ (exists e, unpack_scalar s buf = Err e).
Check C15_unknown_fields_skipped : forall fs b1 num w pay b2, wf_fields b1 -> field_number_valid num = true -> payload_ok w pay -> flds_knows fs num w = false -> bytes_ok b2 -> msg_unpack (MStruct fs) (b1 ++ (tag_pack num w ++ pay) ++ b2) = msg_unpack (MStruct fs) (b1 ++ b2).
Check C15_older_reader_sees_projection : forall m m' v', ext_msg m m' = true -> msg_wf m = true -> msg_wf m' = true -> val_ok m' v' = true -> msg_pack_sz m' v' < W64 -> msg_unpack m (ref_msg m' v') = Ok (proj_msg m m' v', []).
Check C15_recursive_depth_refuted : forall d, msg_pack_sz (tree_shape (S d)) (nest (S d)) < W64 -> msg_unpack (tree_shape (S d)) (ref_msg (tree_shape (S d)) (nest (S d))) = Ok (nest (S d), []) /\ exists cut, msg_unpack (tree_shape d) (ref_msg (tree_shape (S d)) (nest (S d))) = Ok (cut, []) /\ cut <> nest (S d).
Check C15_recursive_depth_outside_known : forall m buf, bytes_ok buf -> msg_unpack m buf <> Panic /\ msg_unpack m buf <> OutOfFuel.
Check C15_varint_decoders_agree : forall buf, bytes_ok buf -> v64_unpack buf = dec_res (dec_spec 10 buf) /\ v64_unpack_slow buf = dec_res (dec_spec 10 buf) /\ (10 <= len buf -> v64_unpack_fast buf = v64_unpack_slow buf).
Check C15_varint_roundtrip : forall x rest, x < W64 -> bytes_ok rest -> v64_pack x = ref_varint x /\ len (v64_pack x) = v64_pack_sz x /\ v64_unpack (v64_pack x ++ rest) = Ok (x, rest).
Check C15_varint_total : forall buf, bytes_ok buf -> (exists x pre rest, v64_unpack buf = Ok (x, rest) /\ buf = pre ++ rest /\ 1 <= len pre <= 10 /\ x < W64) \/ v64_unpack buf = Err EVarintOverflow.
Check C15_varint_is_canonical : forall x, x < W64 -> exists init last, ref_varint x = init ++ [last] /\ conts init /\ last < 128 /\ varint_value (ref_varint x) = x /\ (init <> [] -> last <> 0) /\ (length (ref_varint x) <= 10)%nat.
Check C15_varint_fuel_irrelevant : forall x k, x < W64 -> sz_loop (10 + k) (N.shiftr x 7) 1 = v64_pack_sz x /\ pack_loop (10 + k) (N.shiftr x 7) (N.land x 127) = v64_pack x.
Check C15_zigzag_roundtrip : (forall z, i64_range z -> zigzag z = ref_zigzag z /\ unzigzag (zigzag z) = z) /\ (forall x, x < W64 -> i64_range (unzigzag x) /\ zigzag (unzigzag x) = x).
Check C15_tag_roundtrip : forall f w rest, field_number_valid f = true -> bytes_ok rest -> tag_pack f w = ref_tag f (wt_bits w) /\ tag_unpack (tag_pack f w ++ rest) = Ok (f, w, rest).
Check C15_tag_rejects : forall f w rest, w < 8 -> f * 8 + w < W64 -> bytes_ok rest -> tag_unpack (v64_pack (f * 8 + w) ++ rest) = if W32 <=? f * 8 + w then Err ETagTooLarge else if negb (field_number_valid f) then Err EInvalidFieldNumber else match wt_new w with Ok wt => Ok (f, wt, rest) | _ => Err EUnhandledWireType end.
Check C15_scalar_roundtrip : forall s v rest, sval_ok s v = true -> bytes_ok rest -> pack_scalar s v = ref_scalar s v /\ len (pack_scalar s v) = pack_sz_scalar s v /\ wt_bits (wire_of s) = std_wire s /\ unpack_scalar s (pack_scalar s v ++ rest) = Ok (v, rest).
Check C15_source_tables_agree : (forall s, In s (map fst SRC_WIRE_OF)) /\ forallb (fun sw => wt_eqb (wire_of (fst sw)) (snd sw)) SRC_WIRE_OF = true /\ forallb (fun wb => wt_bits (fst wb) =? snd wb) SRC_TAG_BITS = true /\ length SRC_TAG_BITS = 4%nat /\ forallb (fun bw => match wt_new (fst bw) with Ok w => wt_eqb w (snd bw) | _ => false end) SRC_WT_NEW = true /\ length SRC_WT_NEW = 4%nat /\ DERIVE_FIRST_FIELD_NUMBER = FIRST_FIELD_NUMBER /\ DERIVE_LAST_FIELD_NUMBER = LAST_FIELD_NUMBER /\ DERIVE_FIRST_RESERVED_FIELD_NUMBER = FIRST_RESERVED_FIELD_NUMBER /\ DERIVE_LAST_RESERVED_FIELD_NUMBER = LAST_RESERVED_FIELD_NUMBER /\ LAST_FIELD_NUMBER = 2 ^ 29 - 1.
