(* pins for C19: statements of the property theorems as of the time of pinning *)
From Coq Require Import Arith NArith List Bool Sorted.
From Blue Require Import Scrunch.ModelBits Scrunch.Model Scrunch.ModelWT Scrunch.ProofsBits
  Scrunch.ProofsSorted Scrunch.ProofsSuffix Scrunch.ProofsIAP Scrunch.ProofsSearch Scrunch.ProofsSigma
  Scrunch.ProofsDoc Scrunch.ProofsSampled Scrunch.ProofsCompressed Scrunch.ProofsWT1 Scrunch.ProofsWT2
  Scrunch.ProofsWT3 Scrunch.ProofsWT4 Scrunch.ModelPrefixWT Scrunch.ProofsPrefixWT
  Scrunch.ModelSparse Scrunch.ModelRRR Scrunch.ModelPrefixRRR Scrunch.ProofsSparse4 Scrunch.ProofsSparse5
  Scrunch.ProofsRRR1 Scrunch.ProofsRRR2 Scrunch.ProofsRRR4 Scrunch.ProofsRRR6 Scrunch.ProofsStructural.
Import ListNotations.
Local Open Scope nat_scope.
From Blue Require Import Scrunch.Props_C19.
Check C19_compressed_document_answers_as_scan_partial : forall text rb, check_record_boundaries text rb = true -> exists d, construct_compressed text rb = Ok d /\ answers_as_scan text rb d.
Check C19_reference_psi_document_answers_as_scan_partial : forall text rb, check_record_boundaries text rb = true -> exists d, construct_reference_psi_doc text rb = Ok d /\ answers_as_scan text rb d.
Check C19_wavelet_psi_document_answers_as_scan_partial : forall text rb, check_record_boundaries text rb = true -> exists d, construct_wavelet_doc text rb = Ok d /\ answers_as_scan text rb d.
Check C19_wavelet_psi_meets_the_psi_interface : forall text, let T := sigma_string text in let sa := suffix_array T in let psi := psi_of sa (inverse sa) in exists w, wpsi_construct (the_sigma text) psi = Ok w /\ psi_ok T sa psi (length text) (wpsi_ops (the_sigma text) w).
Check C19_reference_document_is_the_scan : forall text rb, check_record_boundaries text rb = true -> exists r, construct_refdoc text rb = Ok r /\ (forall needle, ref_search r needle = occurrences text needle /\ ref_count r needle = length (occurrences text needle)) /\ (forall off, off < length text -> ref_lookup r off = Ok (spec_record_of rb off)) /\ (forall k, k < length rb -> ref_retrieve r k = Ok (spec_record text rb k) /\ ref_offset_of r k = Ok (nth k rb 0)) /\ (forall k, length rb <= k -> ref_retrieve r k = Err /\ ref_offset_of r k = Err).
Check C19_invalid_divisions_refused_alike : forall text rb, check_record_boundaries text rb = false -> construct_compressed text rb = Err /\ construct_reference_psi_doc text rb = Err /\ construct_refdoc text rb = Err.
Check C19_empty_text_has_no_valid_division : forall rb, check_record_boundaries [] rb = false.
Check C19_prefix_wavelet_tree_answers_as_the_symbol_list : forall enc dec cf text, (forall s, In s text -> enc s = Some (cf s) /\ dec (cf s) = Some s) -> forall fuel t, pt_build enc fuel text = Ok t -> (forall x, x < length text -> pt_access dec t x = wt_access text x) /\ (forall q, In q text -> forall x, x <= length text -> pt_rank_q enc t q x = wt_rank_q text q x) /\ (forall q, In q text -> forall k, pt_select_q enc t q k = wt_select_q text q k).
Check C19_prefix_wavelet_tree_constructs_for_prefix_free_codes : forall enc dec cf text, (forall s, In s text -> enc s = Some (cf s) /\ dec (cf s) = Some s) -> forall fuel, (forall s, In s text -> cf s <> []) -> prefix_free (map cf text) -> max_len (map cf text) < fuel -> exists t, pt_build enc fuel text = Ok t.
Check C19_fixed_width_wavelet_tree : forall text, exists t, fw_tree text = Ok (t, fw_chars text) /\ (forall x, x < length text -> pt_access (fw_dec (fw_chars text)) t x = wt_access text x) /\ (forall q, In q text -> forall x, x <= length text -> pt_rank_q (fw_enc (fw_chars text)) t q x = wt_rank_q text q x) /\ (forall q, In q text -> forall k, pt_select_q (fw_enc (fw_chars text)) t q k = wt_select_q text q k).
Check C19_specification_is_the_plain_scan : forall text needle, StronglySorted lt (occurrences text needle) /\ forall p, In p (occurrences text needle) <-> p < length text /\ firstn (length needle) (skipn p text) = needle.
Check C19_specification_record_of_offset : forall n rb off, valid_boundaries n rb -> off < n -> let r := spec_record_of rb off in r < length rb /\ nth r rb 0 <= off /\ (forall r', r < r' -> r' < length rb -> off < nth r' rb 0).
Check C19_inverse_and_psi_one_pass : forall sa, NoDup sa -> Forall (fun v => v < length sa) sa -> 0 < length sa -> inverse_and_psi sa = Ok (inverse sa, psi_of sa (inverse sa)).
Check C19_suffix_array_unique : forall T sa, is_suffix_array T sa -> sa = suffix_array T.
Check C19_suffix_array_sorted : forall T, is_suffix_array T (suffix_array T).
Check C19_rank_select_spec : forall b, (forall k p, bv_select b k = Some p -> bv_rank b p = Some k) /\ (forall k, (exists p, bv_select b k = Some p) <-> k <= count1 b) /\ (forall k p, 0 < k -> bv_select b k = Some p -> 0 < p /\ bv_access b (p - 1) = Some true) /\ (forall i, bv_access b i = Some true -> bv_select b (count1 (firstn (S i) b)) = Some (S i)) /\ (forall x, bv_rank b x = if x <=? length b then Some (count1 (firstn x b)) else None).
Check C19_trait_defaults_equal_spec : forall b k, default_select (length b) (bv_rank b) k = Ok (bv_select b k) /\ default_select0 (length b) (bv_rank b) k = Ok (bv_select0 b k).
Check C19_from_indices_rank_select : forall len idx, sinc idx -> Forall (fun i => i < len) idx -> (forall x, x <= len -> bv_rank (bits_of_indices len idx) x = Some (count_lt idx x)) /\ (forall k, 0 < k -> k <= length idx -> bv_select (bits_of_indices len idx) k = Some (S (nth (k - 1) idx 0))) /\ (forall k, length idx < k -> bv_select (bits_of_indices len idx) k = None).
Check C19_sparse_from_indices_is_the_bit_list : forall branch len idx b, from_indices branch len idx = Some b -> exists v, sv_from_indices branch len idx = Some v /\ sparse_answers v b.
Check C19_sparse_from_indices_refuses_alike : forall branch len idx, from_indices branch len idx = None -> sv_from_indices branch len idx = None.
Check C19_sparse_construct_is_the_bit_list : forall b, exists v, sv_construct b = Some v /\ sparse_answers v b.
Check C19_rrr_decode_inverts_encode : forall w, length w = 63 -> exists o, ModelRRR.encode w = Ok (o, count1 w) /\ ModelRRR.decode o (count1 w) = Some w /\ (o < 2 ^ N.of_nat (nth (count1 w) L_table 0%nat))%N.
Check C19_rrr_select_word : forall word x, length word <= 64 -> select_word word x = bv_select word x.
Check C19_rrr_bit_vector_is_the_bit_list : forall b, rrr_len_ok (length b) -> exists v, rr_construct b = Ok v /\ rrr_answers v b.
Check C19_rrr_length_bound : forall n, rrr_len_ok n <-> n + 1 <= 2 ^ 62.
Check C19_prefix_wavelet_tree_over_rrr : forall enc dec cf text, (forall s, In s text -> enc s = Some (cf s) /\ dec (cf s) = Some s) -> rrr_len_ok (length text) -> forall fuel t, pt_build enc fuel text = Ok t -> exists rt, rt_build enc fuel text = Ok rt /\ (forall x, x < length text -> rt_access dec rt x = Ok (wt_access text x)) /\ (forall q, In q text -> forall x, x <= length text -> rt_rank_q enc rt q x = Ok (wt_rank_q text q x)) /\ (forall q, In q text -> forall k, rt_select_q enc rt q k = Ok (wt_select_q text q k)).
Check C19_compressed_document_answers_as_scan_structural_partial : forall text rb, check_record_boundaries text rb = true -> exists d, construct_compressed text rb = Ok d /\ answers_as_scan text rb d /\ exists v, sv_from_indices 16 (length text) (map (fun b => b - 1) (tl rb)) = Some v /\ sparse_answers v (d_rb d) /\ sdoc_records v = Ok (length rb) /\ (forall off, off < length text -> sdoc_lookup v off = Ok (spec_record_of rb off)) /\ (forall r, r < length rb -> sdoc_offset_of v r = Ok (nth r rb 0)) /\ (forall r, length rb <= r -> sdoc_offset_of v r = Err).
