// GENERATED copy of prototk/tests/enum.rs (extern crate lines removed). DO NOT EDIT.
use prototk_derive::Message;


////////////////////////////////////// Stuff we want to write //////////////////////////////////////

/// Details of an X,Y point that might be relevant for an error.
#[derive(Debug, Default, Eq, Message, PartialEq)]
pub struct Details {
    #[prototk(1, uint64)]
    x: u64,
    #[prototk(2, uint64)]
    y: u64,
}

/// An [Error] demonstrating three different ways of auto-generating enums.
#[derive(Debug, Default, Eq, Message, PartialEq)]
pub enum Error {
    #[prototk(1, message)]
    #[default]
    Success,
    #[prototk(2, message)]
    BlockTooSmall {
        #[prototk(1, uint64)]
        length: usize,
        #[prototk(2, uint64)]
        required: usize,
    },
    #[prototk(3, message)]
    DetailedError(Details),
}

/////////////////////////////////// What we want to see generated //////////////////////////////////

#[test]
fn three_kinds_of_enum() {
    let exp1 = Error::Success;
    let exp2 = Error::BlockTooSmall {
        length: 5,
        required: 10,
    };
    let exp3 = Error::DetailedError(Details { x: 42, y: 99 });
    // test packing
    let buf: Vec<u8> = buffertk::stack_pack((&exp1, &exp2, &exp3)).to_vec();
    let exp: &[u8] = &[10, 0, 18, 4, 8, 5, 16, 10, 26, 4, 8, 42, 16, 99];
    let got: &[u8] = &buf;
    assert_eq!(exp, got, "buffer did not match expectations");

    // test unpacking
    let mut up = buffertk::Unpacker::new(&[10, 0]);
    let got1 = up.unpack().unwrap();
    assert_eq!(exp1, got1, "unpacker failed");

    let mut up = buffertk::Unpacker::new(&[18, 4, 8, 5, 16, 10]);
    let got2 = up.unpack().unwrap();
    assert_eq!(exp2, got2, "unpacker failed");

    let mut up = buffertk::Unpacker::new(&[26, 4, 8, 42, 16, 99]);
    let got3 = up.unpack().unwrap();
    assert_eq!(exp3, got3, "unpacker failed");

    // test remainder
    let exp: &[u8] = &[];
    let rem: &[u8] = up.remain();
    assert_eq!(exp, rem, "unpack should not have remaining buffer");
}

#[test]
fn enum_named_variant_rejects_short_payload() {
    let mut up = buffertk::Unpacker::new(&[18, 1]);
    let got: Result<Error, prototk::SError> = up.unpack();

    assert_eq!(Err(prototk::buffer_too_short(1, 0)), got);
}

#[test]
fn enum_named_variant_rejects_truncated_field_inside_payload() {
    let mut up = buffertk::Unpacker::new(&[18, 3, 10, 3, 1]);
    let got: Result<Error, prototk::SError> = up.unpack();

    assert_eq!(Err(prototk::buffer_too_short(3, 1)), got);
}

#[test]
fn enum_unit_variant_rejects_short_payload() {
    let mut up = buffertk::Unpacker::new(&[10, 1]);
    let got: Result<Error, prototk::SError> = up.unpack();

    assert_eq!(Err(prototk::buffer_too_short(1, 0)), got);
}

////////////////////////////////////////// EnumWithOption //////////////////////////////////////////

#[derive(Debug, Default, Eq, Message, PartialEq)]
enum EnumWithOptionAndVectorMessages {
    #[prototk(1, message)]
    #[default]
    Nop,
    #[prototk(2, message)]
    VariantWithOption {
        #[prototk(1, message)]
        value: Option<Details>,
    },
    #[prototk(3, message)]
    VariantWithVector {
        #[prototk(1, message)]
        value: Vec<Details>,
    },
}

#[test]
fn enum_embed_option() {
    let value = EnumWithOptionAndVectorMessages::VariantWithOption {
        value: Some(Details { x: 42, y: 99 }),
    };
    // test packing
    let buf: Vec<u8> = buffertk::stack_pack(&value).to_vec();
    let exp: &[u8] = &[18, 6, 10, 4, 8, 42, 16, 99];
    let got: &[u8] = &buf;
    assert_eq!(exp, got, "buffer did not match expectations");

    // test unpacking
    let mut up = buffertk::Unpacker::new(exp);
    let got: EnumWithOptionAndVectorMessages = up.unpack().unwrap();
    assert_eq!(value, got, "unpacker failed");

    // test remainder
    let exp: &[u8] = &[];
    let rem: &[u8] = up.remain();
    assert_eq!(exp, rem, "unpack should not have remaining buffer");
}

#[test]
fn enum_embed_vector() {
    let value = EnumWithOptionAndVectorMessages::VariantWithVector {
        value: vec![Details { x: 42, y: 99 }, Details { x: 1, y: 1 }],
    };
    // test packing
    let buf: Vec<u8> = buffertk::stack_pack(&value).to_vec();
    let exp: &[u8] = &[26, 12, 10, 4, 8, 42, 16, 99, 10, 4, 8, 1, 16, 1];
    let got: &[u8] = &buf;
    assert_eq!(exp, got, "buffer did not match expectations");

    // test unpacking
    let mut up = buffertk::Unpacker::new(exp);
    let got: EnumWithOptionAndVectorMessages = up.unpack().unwrap();
    assert_eq!(value, got, "unpacker failed");

    // test remainder
    let exp: &[u8] = &[];
    let rem: &[u8] = up.remain();
    assert_eq!(exp, rem, "unpack should not have remaining buffer");
}

/////////////////////////////////////////// EnumWithArray //////////////////////////////////////////

#[derive(Debug, Default, Eq, Message, PartialEq)]
enum EnumWithArray {
    #[prototk(1, message)]
    #[default]
    Nop,
    #[prototk(2, message)]
    Variant32 {
        #[prototk(1, bytes32)]
        value: [u8; 32],
    },
    #[prototk(3, message)]
    Variant64 {
        #[prototk(1, bytes64)]
        value: [u8; 64],
    },
}

#[test]
fn enum_with_array() {
    let value = EnumWithArray::Variant64 {
        value: [
            0u8, 1, 2, 3, 4, 5, 6, 7, 8, 9, 10, 11, 12, 13, 14, 15, 16, 17, 18, 19, 20, 21, 22, 23,
            24, 25, 26, 27, 28, 29, 30, 31, 32, 33, 34, 35, 36, 37, 38, 39, 40, 41, 42, 43, 44, 45,
            46, 47, 48, 49, 50, 51, 52, 53, 54, 55, 56, 57, 58, 59, 60, 61, 62, 63,
        ],
    };
    // test packing
    let buf: Vec<u8> = buffertk::stack_pack(&value).to_vec();
    let exp: &[u8] = &[
        26, 66, 10, 64, 0, 1, 2, 3, 4, 5, 6, 7, 8, 9, 10, 11, 12, 13, 14, 15, 16, 17, 18, 19, 20,
        21, 22, 23, 24, 25, 26, 27, 28, 29, 30, 31, 32, 33, 34, 35, 36, 37, 38, 39, 40, 41, 42, 43,
        44, 45, 46, 47, 48, 49, 50, 51, 52, 53, 54, 55, 56, 57, 58, 59, 60, 61, 62, 63,
    ];
    let got: &[u8] = &buf;
    assert_eq!(exp, got, "buffer did not match expectations");

    // test unpacking
    let mut up = buffertk::Unpacker::new(exp);
    let got: EnumWithArray = up.unpack().unwrap();
    assert_eq!(value, got, "unpacker failed");

    // test remainder
    let exp: &[u8] = &[];
    let rem: &[u8] = up.remain();
    assert_eq!(exp, rem, "unpack should not have remaining buffer");
}
