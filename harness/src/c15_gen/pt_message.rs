// GENERATED copy of prototk/tests/message.rs (extern crate lines removed). DO NOT EDIT.
use prototk::Message;
use prototk_derive::Message;

//////////////////////////////////////////// EmptyStruct ///////////////////////////////////////////

#[derive(Clone, Debug, Default, Message, PartialEq)]
struct EmptyStruct {}

#[test]
fn empty_struct() {
    let s = EmptyStruct {};
    // test packing
    let buf = buffertk::stack_pack(s).to_vec();
    let exp: &[u8] = &[];
    let got: &[u8] = &buf;
    assert_eq!(exp, got, "buffer did not match expectations");
    // test unpacking
    let mut up = buffertk::Unpacker::new(exp);
    let exp = EmptyStruct {};
    let got = up.unpack();
    assert_eq!(
        Ok(exp),
        got,
        "unpacker should have returned Ok(EmptyStruct{{}})"
    );
    // test remainder
    let exp: &[u8] = &[];
    let rem: &[u8] = up.remain();
    assert_eq!(exp, rem, "unpack should not have remaining buffer");
}

//////////////////////////////////////////// NamedStruct ///////////////////////////////////////////

#[derive(Clone, Debug, Default, Message, PartialEq)]
struct NamedStruct {
    #[prototk(1, uint64)]
    x: u64,
    #[prototk(2, double)]
    y: f64,
    #[prototk(3, sint32)]
    z: i32,
}

#[test]
fn named_struct() {
    let s = NamedStruct {
        x: 42,
        y: std::f64::consts::PI,
        z: -1,
    };
    // test packing
    let buf = buffertk::stack_pack(&s).to_vec();
    let exp: &[u8] = &[8, 42, 17, 24, 45, 68, 84, 251, 33, 9, 64, 24, 1];
    let got: &[u8] = &buf;
    assert_eq!(exp, got, "buffer did not match expectations");
    // test unpacking
    let mut up = buffertk::Unpacker::new(exp);
    let exp = s.clone();
    let got = up.unpack();
    assert_eq!(Ok(exp), got, "unpacker should have returned Ok({s:?})");
    // test remainder
    let exp: &[u8] = &[];
    let rem: &[u8] = up.remain();
    assert_eq!(exp, rem, "unpack should not have remaining buffer");
}

#[test]
fn named_struct_rejects_truncated_field() {
    let mut up = buffertk::Unpacker::new(&[10, 3, 1]);
    let got: Result<NamedStruct, prototk::SError> = up.unpack();

    assert_eq!(Err(prototk::buffer_too_short(3, 1)), got);
}

/////////////////////////////////////////// UnnamedStruct //////////////////////////////////////////

#[derive(Clone, Debug, Default, Message, PartialEq)]
struct UnnamedStruct(
    #[prototk(1, uint64)] u64,
    #[prototk(2, double)] f64,
    #[prototk(3, sint32)] i32,
);

#[test]
fn unnamed_struct() {
    let u = UnnamedStruct(42, std::f64::consts::PI, -1);
    // test packing
    let buf = buffertk::stack_pack(&u).to_vec();
    let exp: &[u8] = &[8, 42, 17, 24, 45, 68, 84, 251, 33, 9, 64, 24, 1];
    let got: &[u8] = &buf;
    assert_eq!(exp, got, "buffer did not match expectations");
    // test unpacking
    let mut up = buffertk::Unpacker::new(exp);
    let exp = u.clone();
    let got = up.unpack();
    assert_eq!(Ok(exp), got, "unpacker should have returned Ok({u:?})");
    // test remainder
    let exp: &[u8] = &[];
    let rem: &[u8] = up.remain();
    assert_eq!(exp, rem, "unpack should not have remaining buffer");
}

//////////////////////////////////////////// UnitStruct ////////////////////////////////////////////

#[derive(Clone, Debug, Default, Message, PartialEq)]
struct UnitStruct;

#[test]
fn unit_struct() {
    let u = UnitStruct {};
    // test packing
    let buf = buffertk::stack_pack(&u).to_vec();
    let exp: &[u8] = &[];
    let got: &[u8] = &buf;
    assert_eq!(exp, got, "buffer did not match expectations");
    // test unpacking
    let mut up = buffertk::Unpacker::new(exp);
    let exp = u.clone();
    let got = up.unpack();
    assert_eq!(Ok(exp), got, "unpacker should have returned Ok({u:?})");
    // test remainder
    let exp: &[u8] = &[];
    let rem: &[u8] = up.remain();
    assert_eq!(exp, rem, "unpack should not have remaining buffer");
}

/////////////////////////////////////////// NestedStruct ///////////////////////////////////////////

#[derive(Clone, Debug, Default, Message, PartialEq)]
struct NestedStruct {
    #[prototk(1, message)]
    m: NamedStruct,
}

#[test]
fn nested_struct() {
    let n = NestedStruct {
        m: NamedStruct {
            x: 42,
            y: std::f64::consts::PI,
            z: -1,
        },
    };
    // test packing
    let buf = buffertk::stack_pack(&n).to_vec();
    let exp: &[u8] = &[10, 13, 8, 42, 17, 24, 45, 68, 84, 251, 33, 9, 64, 24, 1];
    let got: &[u8] = &buf;
    assert_eq!(exp, got, "buffer did not match expectations");
    // test unpacking
    let mut up = buffertk::Unpacker::new(exp);
    let exp = n.clone();
    let got = up.unpack();
    assert_eq!(Ok(exp), got, "unpacker should have returned Ok({n:?})");
    // test remainder
    let exp: &[u8] = &[];
    let rem: &[u8] = up.remain();
    assert_eq!(exp, rem, "unpack should not have remaining buffer");
}

/////////////////////////////////////////////// Enums //////////////////////////////////////////////

#[derive(Clone, Debug, Message, PartialEq)]
enum EnumOneOf {
    #[prototk(1, sint64)]
    One(i64),
    #[prototk(2, uint64)]
    Two(u64),
    #[prototk(3, message)]
    Three(NamedStruct),
}

impl Default for EnumOneOf {
    fn default() -> Self {
        EnumOneOf::One(0)
    }
}

#[test]
fn enum_one_of() {
    let exp1 = EnumOneOf::One(-1i64);
    let exp2 = EnumOneOf::Two(42u64);
    let exp3 = EnumOneOf::Three(NamedStruct {
        x: 42,
        y: std::f64::consts::PI,
        z: -1,
    });
    // test packing
    let buf: Vec<u8> = buffertk::stack_pack((&exp1, &exp2, &exp3)).to_vec();
    let exp: &[u8] = &[
        8, 1, 16, 42, 26, 13, 8, 42, 17, 24, 45, 68, 84, 251, 33, 9, 64, 24, 1,
    ];
    let got: &[u8] = &buf;
    assert_eq!(exp, got, "buffer did not match expectations");
    // test unpacking
    let mut up = buffertk::Unpacker::new(exp);
    let got1 = up.unpack().unwrap();
    assert_eq!(exp1, got1, "unpacker failed");
    let got2 = up.unpack().unwrap();
    assert_eq!(exp2, got2, "unpacker failed");
    let got3 = up.unpack().unwrap();
    assert_eq!(exp3, got3, "unpacker failed");
    // test remainder
    let exp: &[u8] = &[];
    let rem: &[u8] = up.remain();
    assert_eq!(exp, rem, "unpack should not have remaining buffer");
}

/////////////////////////////////////////// Nested Bytes ///////////////////////////////////////////

#[derive(Clone, Debug, Default, Message, PartialEq)]
struct WithBytes<'a> {
    #[prototk(1, bytes)]
    payload: &'a [u8],
}

#[test]
fn nested_bytes() {
    let wb = WithBytes {
        payload: &[42, 43, 44],
    };
    // test packing
    let buf: Vec<u8> = buffertk::stack_pack(&wb).to_vec();
    let exp: &[u8] = &[10, 3, 42, 43, 44];
    let got: &[u8] = &buf;
    assert_eq!(exp, got, "buffer did not match expectations");
    // test unpacking
    let mut up = buffertk::Unpacker::new(exp);
    let got = up.unpack().unwrap();
    assert_eq!(wb, got, "unpacker failed");
    // test remainder
    let exp: &[u8] = &[];
    let rem: &[u8] = up.remain();
    assert_eq!(exp, rem, "unpack should not have remaining buffer");
}

////////////////////////////////////////////// Vectors /////////////////////////////////////////////

#[derive(Clone, Debug, Default, Message, PartialEq)]
struct WithVectors {
    #[prototk(1, sint64)]
    payload: Vec<i64>,
}

#[test]
fn vector_integers() {
    let wb = WithVectors {
        payload: vec![42, 43, 44],
    };
    // test packing
    let buf: Vec<u8> = buffertk::stack_pack(&wb).to_vec();
    let exp: &[u8] = &[8, 84, 8, 86, 8, 88];
    let got: &[u8] = &buf;
    assert_eq!(exp, got, "buffer did not match expectations");
    // test unpacking
    let mut up = buffertk::Unpacker::new(exp);
    let got = up.unpack().unwrap();
    assert_eq!(wb, got, "unpacker failed");
    // test remainder
    let exp: &[u8] = &[];
    let rem: &[u8] = up.remain();
    assert_eq!(exp, rem, "unpack should not have remaining buffer");
}

/////////////////////////////////////////// VectorOfBytes //////////////////////////////////////////

#[derive(Clone, Debug, Default, Message, PartialEq)]
struct VectorOfBytes {
    #[prototk(15, bytes)]
    value: Vec<u8>,
}

#[test]
fn vector_of_bytes() {
    let vb = VectorOfBytes {
        value: vec![0, 1, 2, 3, 4, 5, 6, 7],
    };
    // test packing
    let buf: Vec<u8> = buffertk::stack_pack(&vb).to_vec();
    let exp: &[u8] = &[122, 8, 0, 1, 2, 3, 4, 5, 6, 7];
    let got: &[u8] = &buf;
    assert_eq!(exp, got, "buffer did not match expectations");
    // test unpacking
    let mut up = buffertk::Unpacker::new(exp);
    let got = up.unpack().unwrap();
    assert_eq!(vb, got, "unpacker failed");
    // test remainder
    let exp: &[u8] = &[];
    let rem: &[u8] = up.remain();
    assert_eq!(exp, rem, "unpack should not have remaining buffer");
}

///////////////////////////////////////// VectorOfMesssages ////////////////////////////////////////

#[derive(Clone, Debug, Default, Message, PartialEq)]
struct VectorOfMessages {
    #[prototk(15, message)]
    messages: Vec<NamedStruct>,
}

#[test]
fn vector_messages() {
    let vm = VectorOfMessages {
        messages: vec![
            NamedStruct {
                x: 42,
                y: std::f64::consts::PI,
                z: -1,
            },
            NamedStruct {
                x: 42,
                y: std::f64::consts::PI,
                z: -1,
            },
        ],
    };
    // test packing
    let buf: Vec<u8> = buffertk::stack_pack(&vm).to_vec();
    let exp: &[u8] = &[
        122, 13, 8, 42, 17, 24, 45, 68, 84, 251, 33, 9, 64, 24, 1, 122, 13, 8, 42, 17, 24, 45, 68,
        84, 251, 33, 9, 64, 24, 1,
    ];
    let got: &[u8] = &buf;
    assert_eq!(exp, got, "buffer did not match expectations");
    // test unpacking
    let mut up = buffertk::Unpacker::new(exp);
    let got = up.unpack().unwrap();
    assert_eq!(vm, got, "unpacker failed");
    // test remainder
    let exp: &[u8] = &[];
    let rem: &[u8] = up.remain();
    assert_eq!(exp, rem, "unpack should not have remaining buffer");
}

///////////////////////////////////////// OptionOfMesssages ////////////////////////////////////////

#[derive(Clone, Debug, Default, Message, PartialEq)]
struct OptionOfMessages {
    #[prototk(15, message)]
    messages: Option<NamedStruct>,
}

#[test]
fn option_messages() {
    let vm = OptionOfMessages {
        messages: Some(NamedStruct {
            x: 42,
            y: std::f64::consts::PI,
            z: -1,
        }),
    };
    // test packing
    let buf: Vec<u8> = buffertk::stack_pack(&vm).to_vec();
    let exp: &[u8] = &[122, 13, 8, 42, 17, 24, 45, 68, 84, 251, 33, 9, 64, 24, 1];
    let got: &[u8] = &buf;
    assert_eq!(exp, got, "buffer did not match expectations");
    // test unpacking
    let mut up = buffertk::Unpacker::new(exp);
    let got = up.unpack().unwrap();
    assert_eq!(vm, got, "unpacker failed");
    // test remainder
    let exp: &[u8] = &[];
    let rem: &[u8] = up.remain();
    assert_eq!(exp, rem, "unpack should not have remaining buffer");
}
////////////////////////////////////////////// String //////////////////////////////////////////////

#[derive(Clone, Debug, Default, Message, PartialEq)]
struct StringInStruct {
    #[prototk(11, string)]
    string: String,
}

#[test]
fn string_in_struct() {
    let sis = StringInStruct {
        string: "hello world".to_string(),
    };
    // test packing
    let buf: Vec<u8> = buffertk::stack_pack(&sis).to_vec();
    let exp: &[u8] = &[90, 11, 104, 101, 108, 108, 111, 32, 119, 111, 114, 108, 100];
    let got: &[u8] = &buf;
    assert_eq!(exp, got, "buffer did not match expectations");
    // test unpacking
    let mut up = buffertk::Unpacker::new(exp);
    let got = up.unpack().unwrap();
    assert_eq!(sis, got, "unpacker failed");
    // test remainder
    let exp: &[u8] = &[];
    let rem: &[u8] = up.remain();
    assert_eq!(exp, rem, "unpack should not have remaining buffer");
}

///////////////////////////////////////////// 32 bytes /////////////////////////////////////////////

#[derive(Clone, Debug, Default, Message, PartialEq)]
struct Bytes32 {
    #[prototk(11, bytes32)]
    buffer: [u8; 32],
}

#[test]
fn bytes32() {
    let b32 = Bytes32 {
        buffer: [
            0, 1, 2, 3, 4, 5, 6, 7, 8, 9, 10, 11, 12, 13, 14, 15, 16, 17, 18, 19, 20, 21, 22, 23,
            24, 25, 26, 27, 28, 29, 30, 31,
        ],
    };
    // test packing
    let buf: Vec<u8> = buffertk::stack_pack(&b32).to_vec();
    let exp: &[u8] = &[
        90, 32, 0, 1, 2, 3, 4, 5, 6, 7, 8, 9, 10, 11, 12, 13, 14, 15, 16, 17, 18, 19, 20, 21, 22,
        23, 24, 25, 26, 27, 28, 29, 30, 31,
    ];
    let got: &[u8] = &buf;
    assert_eq!(exp, got, "buffer did not match expectations");
    // test unpacking
    let mut up = buffertk::Unpacker::new(exp);
    let got = up.unpack().unwrap();
    assert_eq!(b32, got, "unpacker failed");
    // test remainder
    let exp: &[u8] = &[];
    let rem: &[u8] = up.remain();
    assert_eq!(exp, rem, "unpack should not have remaining buffer");
}

///////////////////////////////////////////// 64 bytes /////////////////////////////////////////////

#[derive(Clone, Debug, Message, PartialEq)]
struct Bytes64 {
    #[prototk(11, bytes64)]
    buffer: [u8; 64],
}

impl Default for Bytes64 {
    fn default() -> Self {
        Self { buffer: [0u8; 64] }
    }
}

#[test]
fn bytes64() {
    let b64 = Bytes64 {
        buffer: [
            0, 1, 2, 3, 4, 5, 6, 7, 8, 9, 10, 11, 12, 13, 14, 15, 16, 17, 18, 19, 20, 21, 22, 23,
            24, 25, 26, 27, 28, 29, 30, 31, 32, 33, 34, 35, 36, 37, 38, 39, 40, 41, 42, 43, 44, 45,
            46, 47, 48, 49, 50, 51, 52, 53, 54, 55, 56, 57, 58, 59, 60, 61, 62, 63,
        ],
    };
    // test packing
    let buf: Vec<u8> = buffertk::stack_pack(&b64).to_vec();
    let exp: &[u8] = &[
        90, 64, 0, 1, 2, 3, 4, 5, 6, 7, 8, 9, 10, 11, 12, 13, 14, 15, 16, 17, 18, 19, 20, 21, 22,
        23, 24, 25, 26, 27, 28, 29, 30, 31, 32, 33, 34, 35, 36, 37, 38, 39, 40, 41, 42, 43, 44, 45,
        46, 47, 48, 49, 50, 51, 52, 53, 54, 55, 56, 57, 58, 59, 60, 61, 62, 63,
    ];
    let got: &[u8] = &buf;
    assert_eq!(exp, got, "buffer did not match expectations");
    // test unpacking
    let mut up = buffertk::Unpacker::new(exp);
    let got = up.unpack().unwrap();
    assert_eq!(b64, got, "unpacker failed");
    // test remainder
    let exp: &[u8] = &[];
    let rem: &[u8] = up.remain();
    assert_eq!(exp, rem, "unpack should not have remaining buffer");
}

////////////////////////////////////////////// Option //////////////////////////////////////////////

#[derive(Clone, Debug, Default, Message, PartialEq)]
struct OptionStruct {
    #[prototk(1, uint64)]
    x: Option<u64>,
    #[prototk(2, double)]
    y: Option<f64>,
    #[prototk(3, sint32)]
    z: Option<i32>,
}

#[test]
fn option_struct() {
    let s = OptionStruct {
        x: Some(42),
        y: Some(std::f64::consts::PI),
        z: None,
    };
    // test packing
    let buf = buffertk::stack_pack(&s).to_vec();
    let exp: &[u8] = &[8, 42, 17, 24, 45, 68, 84, 251, 33, 9, 64];
    let got: &[u8] = &buf;
    assert_eq!(exp, got, "buffer did not match expectations");
    // test unpacking
    let mut up = buffertk::Unpacker::new(exp);
    let exp = s.clone();
    let got = up.unpack();
    assert_eq!(Ok(exp), got, "unpacker should have returned Ok({s:?})");
    // test remainder
    let exp: &[u8] = &[];
    let rem: &[u8] = up.remain();
    assert_eq!(exp, rem, "unpack should not have remaining buffer");
}

//////////////////////////////////////////////// Box ///////////////////////////////////////////////

#[derive(Clone, Debug, Default, Message, PartialEq)]
struct BoxStruct {
    #[prototk(1, uint64)]
    x: Box<u64>,
    #[prototk(2, double)]
    y: Box<f64>,
    #[prototk(3, sint32)]
    z: Box<i32>,
}

#[test]
fn box_struct() {
    let s = BoxStruct {
        x: Box::new(42),
        y: Box::new(std::f64::consts::PI),
        z: Box::new(-1),
    };
    // test packing
    let buf = buffertk::stack_pack(&s).to_vec();
    let exp: &[u8] = &[8, 42, 17, 24, 45, 68, 84, 251, 33, 9, 64, 24, 1];
    let got: &[u8] = &buf;
    assert_eq!(exp, got, "buffer did not match expectations");
    // test unpacking
    let mut up = buffertk::Unpacker::new(exp);
    let exp = s.clone();
    let got = up.unpack();
    assert_eq!(Ok(exp), got, "unpacker should have returned Ok({s:?})");
    // test remainder
    let exp: &[u8] = &[];
    let rem: &[u8] = up.remain();
    assert_eq!(exp, rem, "unpack should not have remaining buffer");
}

///////////////////////////////////////////// 16 bytes /////////////////////////////////////////////

#[derive(Clone, Debug, Default, Message, PartialEq)]
struct Bytes16 {
    #[prototk(11, bytes16)]
    buffer: [u8; 16],
}

#[test]
fn bytes16() {
    let b16 = Bytes16 {
        buffer: [0, 1, 2, 3, 4, 5, 6, 7, 8, 9, 10, 11, 12, 13, 14, 15],
    };
    // test packing
    let buf: Vec<u8> = buffertk::stack_pack(&b16).to_vec();
    let exp: &[u8] = &[90, 16, 0, 1, 2, 3, 4, 5, 6, 7, 8, 9, 10, 11, 12, 13, 14, 15];
    let got: &[u8] = &buf;
    assert_eq!(exp, got, "buffer did not match expectations");
    // test unpacking
    let mut up = buffertk::Unpacker::new(exp);
    let got = up.unpack().unwrap();
    assert_eq!(b16, got, "unpacker failed");
    // test remainder
    let exp: &[u8] = &[];
    let rem: &[u8] = up.remain();
    assert_eq!(exp, rem, "unpack should not have remaining buffer");
}

//////////////////////////////////////////// TwoGeneric ////////////////////////////////////////////

#[derive(Clone, Debug, Default, Message, Eq, PartialEq)]
struct OneGeneric<'a, K: Message<'a>> {
    #[prototk(1, message)]
    key: K,
    _phantom_a: std::marker::PhantomData<&'a ()>,
}

#[test]
fn one_generic() {
    let key = NamedStruct {
        x: 42,
        y: std::f64::consts::PI,
        z: -1,
    };
    let two = OneGeneric::<NamedStruct> {
        key,
        _phantom_a: std::marker::PhantomData,
    };
    // test packing
    let buf: Vec<u8> = buffertk::stack_pack(&two).to_vec();
    let exp: &[u8] = &[10, 13, 8, 42, 17, 24, 45, 68, 84, 251, 33, 9, 64, 24, 1];
    let got: &[u8] = &buf;
    assert_eq!(exp, got, "buffer did not match expectations");
    // test unpacking
    let mut up = buffertk::Unpacker::new(exp);
    let got = up.unpack().unwrap();
    assert_eq!(two, got, "unpacker failed");
    // test remainder
    let exp: &[u8] = &[];
    let rem: &[u8] = up.remain();
    assert_eq!(exp, rem, "unpack should not have remaining buffer");
}

//////////////////////////////////////////// TwoGeneric ////////////////////////////////////////////

#[derive(Clone, Debug, Default, Message, Eq, PartialEq)]
struct TwoGeneric<'a, K: Message<'a>, V: Message<'a>> {
    #[prototk(1, message)]
    key: K,
    #[prototk(2, message)]
    value: V,
    _phantom_a: std::marker::PhantomData<&'a ()>,
}

#[test]
fn two_generic() {
    let key = NamedStruct {
        x: 42,
        y: std::f64::consts::PI,
        z: -1,
    };
    let value = UnnamedStruct(42, std::f64::consts::PI, -1);
    let two = TwoGeneric::<NamedStruct, UnnamedStruct> {
        key,
        value,
        _phantom_a: std::marker::PhantomData,
    };
    // test packing
    let buf: Vec<u8> = buffertk::stack_pack(&two).to_vec();
    let exp: &[u8] = &[
        10, 13, 8, 42, 17, 24, 45, 68, 84, 251, 33, 9, 64, 24, 1, 18, 13, 8, 42, 17, 24, 45, 68,
        84, 251, 33, 9, 64, 24, 1,
    ];
    let got: &[u8] = &buf;
    assert_eq!(exp, got, "buffer did not match expectations");
    // test unpacking
    let mut up = buffertk::Unpacker::new(exp);
    let got = up.unpack().unwrap();
    assert_eq!(two, got, "unpacker failed");
    // test remainder
    let exp: &[u8] = &[];
    let rem: &[u8] = up.remain();
    assert_eq!(exp, rem, "unpack should not have remaining buffer");
}
