// GENERATED copy of prototk/tests/result.rs (extern crate lines removed). DO NOT EDIT.
use prototk_derive::Message;


use buffertk::stack_pack;

use prototk::SError;

#[derive(Clone, Debug, Default, Eq, Message, PartialEq)]
struct Foo {
    #[prototk(1, uint64)]
    x: u64,
    #[prototk(2, uint64)]
    y: u64,
}

#[derive(Clone, Debug, Eq, Message, PartialEq)]
#[allow(dead_code)]
struct Bar {
    #[prototk(1, message)]
    res: Result<Foo, SError>,
}

impl Default for Bar {
    fn default() -> Self {
        Self {
            res: Err(prototk::success()),
        }
    }
}

// TODO(rescrv): de-dupe this
fn test_helper(res: Result<Foo, SError>, exp: &[u8]) {
    // test packing
    let buf: Vec<u8> = stack_pack(&res).to_vec();
    let got: &[u8] = &buf;
    assert_eq!(exp, got, "buffer did not match expectations");

    // test unpacking
    let mut up = buffertk::Unpacker::new(exp);
    let got: Result<Foo, SError> = up.unpack().unwrap();
    assert_eq!(res, got, "unpacker failed");

    // test remainder
    let exp: &[u8] = &[];
    let rem: &[u8] = up.remain();
    assert_eq!(exp, rem, "unpack should not have remaining buffer");
}

#[test]
fn result_ok() {
    test_helper(Ok(Foo { x: 42, y: 99 }), &[10, 4, 8, 42, 16, 99]);
}

#[test]
fn result_err() {
    test_helper(
        Err(prototk::unknown_discriminant(33)),
        &[
            18, 103, 102, 40, 101, 114, 114, 111, 114, 32, 40, 112, 104, 97, 115, 101, 32, 112,
            114, 111, 116, 111, 116, 107, 41, 32, 40, 99, 111, 100, 101, 32, 117, 110, 107, 110,
            111, 119, 110, 45, 100, 105, 115, 99, 114, 105, 109, 105, 110, 97, 110, 116, 41, 32,
            40, 109, 101, 115, 115, 97, 103, 101, 32, 34, 117, 110, 107, 110, 111, 119, 110, 32,
            100, 105, 115, 99, 114, 105, 109, 105, 110, 97, 110, 116, 34, 41, 32, 40, 100, 105,
            115, 99, 114, 105, 109, 105, 110, 97, 110, 116, 32, 51, 51, 41, 41,
        ],
    );
}
