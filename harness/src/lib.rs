//! Shared helpers for the correspondence harness binaries.
use std::io::{BufRead, Write};

pub fn hex(b: &[u8]) -> String {
    let mut s = String::with_capacity(b.len() * 2);
    for x in b {
        s.push_str(&format!("{:02x}", x));
    }
    s
}

pub fn unhex(s: &str) -> Vec<u8> {
    let s = s.trim();
    if s == "-" {
        return vec![];
    }
    (0..s.len() / 2)
        .map(|i| u8::from_str_radix(&s[2 * i..2 * i + 2], 16).expect("hex"))
        .collect()
}

/// Silence the default panic message (panics are outputs here).
pub fn quiet_panics() {
    std::panic::set_hook(Box::new(|_| {}));
}

/// Run `f` per stdin line under catch_unwind; a panic prints "PANIC".
pub fn per_line<F: Fn(&str) -> String + std::panic::RefUnwindSafe>(f: F) {
    quiet_panics();
    let stdin = std::io::stdin();
    let stdout = std::io::stdout();
    let mut out = std::io::BufWriter::new(stdout.lock());
    for line in stdin.lock().lines() {
        let line = line.expect("stdin");
        let r = std::panic::catch_unwind(|| f(&line));
        match r {
            Ok(s) => writeln!(out, "{}", s).unwrap(),
            Err(_) => writeln!(out, "PANIC").unwrap(),
        }
    }
    out.flush().unwrap();
}

/// SplitMix64, the same generator as tools/vlib.py
pub struct Rng(pub u64);
impl Rng {
    pub fn u64(&mut self) -> u64 {
        self.0 = self.0.wrapping_add(0x9E3779B97F4A7C15);
        let mut z = self.0;
        z = (z ^ (z >> 30)).wrapping_mul(0xBF58476D1CE4E5B9);
        z = (z ^ (z >> 27)).wrapping_mul(0x94D049BB133111EB);
        z ^ (z >> 31)
    }
    pub fn below(&mut self, n: u64) -> u64 {
        if n == 0 { 0 } else { self.u64() % n }
    }
}
