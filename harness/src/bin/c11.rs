//! C11 harness: runs cursor programs on the real sst cursor combinators.
//!
//! One case per line:   EXPR | PROG
//! EXPR (prefix token stream, space separated):
//!   T n e1 .. en        ReferenceTable cursor over n entries
//!   L n e1 .. en        LazyCursor over an SstCursor of a real SST file holding the n entries
//!   M n EXPR*n          MergingCursor over n children
//!   C n EXPR*n          ConcatenatingCursor over n children
//!   B lo hi EXPR        BoundsCursor; lo/hi = U | I:HEX | X:HEX
//!   P ts EXPR           PruningCursor at timestamp ts
//! entry:  KEYHEX@TS=VALHEX   or   KEYHEX@TS~   (tombstone)
//!   K n (T ..)*n        at the top only: MergingCursor over n concrete ReferenceCursors (a Clone type)
//! PROG tokens: F (seek_to_first) E (seek_to_last) S:HEX (seek) N (next) V (prev)
//!   D (only under K): the cursor is replaced by its clone, nothing is printed
//!
//! Output: key_value() right after construction and after every call, space separated:
//!   `-` (None) | KEYHEX@TS=VALHEX | KEYHEX@TS~ ; a call returning Err prints ERR and stops the
//!   case, a panic prints PANIC and stops the case.
use hx::{hex, unhex};
use sst::bounds_cursor::BoundsCursor;
use sst::concat_cursor::ConcatenatingCursor;
use sst::lazy_cursor::LazyCursor;
use sst::merging_cursor::MergingCursor;
use sst::pruning_cursor::PruningCursor;
use sst::reference::ReferenceBuilder;
use sst::{Builder, Cursor, Sst, SstBuilder, SstOptions};
use std::ops::Bound;
use std::path::PathBuf;
use std::sync::Mutex;

struct Ctx {
    dir: PathBuf,
    nfile: usize,
}

type Entry = (Vec<u8>, u64, Option<Vec<u8>>);

fn parse_entry(t: &str) -> Entry {
    let at = t.find('@').expect("entry @");
    let key = unhex_e(&t[..at]);
    let rest = &t[at + 1..];
    if let Some(ts) = rest.strip_suffix('~') {
        (key, ts.parse().expect("ts"), None)
    } else {
        let eq = rest.find('=').expect("entry =");
        (key, rest[..eq].parse().expect("ts"), Some(unhex_e(&rest[eq + 1..])))
    }
}

fn unhex_e(s: &str) -> Vec<u8> {
    if s.is_empty() { vec![] } else { unhex(s) }
}

fn parse_bound(t: &str) -> Bound<Vec<u8>> {
    if t == "U" {
        Bound::Unbounded
    } else if let Some(h) = t.strip_prefix("I:") {
        Bound::Included(unhex_e(h))
    } else if let Some(h) = t.strip_prefix("X:") {
        Bound::Excluded(unhex_e(h))
    } else {
        panic!("bad bound")
    }
}

fn entries<'a>(it: &mut impl Iterator<Item = &'a str>) -> Vec<Entry> {
    let n: usize = it.next().expect("n").parse().expect("n");
    (0..n).map(|_| parse_entry(it.next().expect("entry"))).collect()
}

fn build<'a>(it: &mut impl Iterator<Item = &'a str>, ctx: &mut Ctx) -> Result<Box<dyn Cursor>, String> {
    let t = it.next().expect("expr");
    match t {
        "T" => {
            let mut b = ReferenceBuilder::default();
            for (k, ts, v) in entries(it) {
                match v {
                    Some(v) => b.put(&k, ts, &v).map_err(|_| "ERR".to_string())?,
                    None => b.del(&k, ts).map_err(|_| "ERR".to_string())?,
                }
            }
            let table = b.seal().map_err(|_| "ERR".to_string())?;
            Ok(Box::new(table.cursor()))
        }
        "L" => {
            let es = entries(it);
            std::fs::create_dir_all(&ctx.dir).expect("mkdir");
            ctx.nfile += 1;
            let path = ctx.dir.join(format!("{}.sst", ctx.nfile));
            let _ = std::fs::remove_file(&path);
            let mut b = SstBuilder::new(SstOptions::default(), &path).map_err(|_| "ERR".to_string())?;
            for (k, ts, v) in es {
                match v {
                    Some(v) => b.put(&k, ts, &v).map_err(|_| "ERR".to_string())?,
                    None => b.del(&k, ts).map_err(|_| "ERR".to_string())?,
                }
            }
            b.seal().map_err(|_| "ERR".to_string())?;
            let p2 = path.clone();
            let lazy = LazyCursor::new(move || Sst::<sst::file_manager::FileHandle>::new(SstOptions::default(), &p2).map(|s| s.cursor()));
            Ok(Box::new(lazy))
        }
        "M" | "C" => {
            let n: usize = it.next().expect("n").parse().expect("n");
            let mut kids = Vec::new();
            for _ in 0..n {
                kids.push(build(it, ctx)?);
            }
            if t == "M" {
                Ok(Box::new(MergingCursor::new(kids).map_err(|_| "ERR".to_string())?))
            } else {
                Ok(Box::new(ConcatenatingCursor::new(kids).map_err(|_| "ERR".to_string())?))
            }
        }
        "B" => {
            let lo = parse_bound(it.next().expect("lo"));
            let hi = parse_bound(it.next().expect("hi"));
            let kid = build(it, ctx)?;
            Ok(Box::new(BoundsCursor::new(kid, &lo, &hi).map_err(|_| "ERR".to_string())?))
        }
        "P" => {
            let ts: u64 = it.next().expect("ts").parse().expect("ts");
            let kid = build(it, ctx)?;
            Ok(Box::new(PruningCursor::new(kid, ts).map_err(|_| "ERR".to_string())?))
        }
        _ => panic!("bad expr token {}", t),
    }
}

fn show(c: &dyn Cursor) -> String {
    // key() and value() separately: KeyValueRef's PartialEq ignores the value
    match (c.key(), c.value()) {
        (None, _) => "-".to_string(),
        (Some(k), Some(v)) => format!("{}@{}={}", hex(k.key), k.timestamp, hex(v)),
        (Some(k), None) => format!("{}@{}~", hex(k.key), k.timestamp),
    }
}

fn main() {
    hx::quiet_panics();
    use std::io::{BufRead, Write};
    let dir = PathBuf::from(format!("/dev/shm/c11.{}", std::process::id()));
    let stdin = std::io::stdin();
    let stdout = std::io::stdout();
    let mut out = std::io::BufWriter::new(stdout.lock());
    let mut ctx = Ctx { dir: dir.clone(), nfile: 0 };
    for line in stdin.lock().lines() {
        let line = line.unwrap();
        let outs = Mutex::new(Vec::<String>::new());
        let r = std::panic::catch_unwind(std::panic::AssertUnwindSafe(|| {
            let mut parts = line.splitn(2, '|');
            let expr = parts.next().unwrap_or("");
            let prog = parts.next().unwrap_or("");
            let mut it = expr.split_whitespace();
            if expr.trim_start().starts_with("K ") {
                it.next();
                let n: usize = it.next().expect("n").parse().expect("n");
                let mut kids = Vec::new();
                for _ in 0..n {
                    assert_eq!(it.next(), Some("T"));
                    let mut b = ReferenceBuilder::default();
                    for (k, ts, v) in entries(&mut it) {
                        match v {
                            Some(v) => b.put(&k, ts, &v).expect("reference put"),
                            None => b.del(&k, ts).expect("reference del"),
                        }
                    }
                    kids.push(b.seal().expect("reference seal").cursor());
                }
                let mut c = MergingCursor::new(kids).expect("merging cursor");
                outs.lock().unwrap().push(show(&c));
                for op in prog.split_whitespace() {
                    let r = match op {
                        "D" => {
                            c = c.clone();
                            continue;
                        }
                        "F" => c.seek_to_first(),
                        "E" => c.seek_to_last(),
                        "N" => c.next(),
                        "V" => c.prev(),
                        _ => {
                            let h = op.strip_prefix("S:").expect("bad op");
                            c.seek(&unhex_e(h))
                        }
                    };
                    if r.is_err() {
                        outs.lock().unwrap().push("ERR".to_string());
                        return;
                    }
                    outs.lock().unwrap().push(show(&c));
                }
                return;
            }
            let mut c = match build(&mut it, &mut ctx) {
                Ok(c) => c,
                Err(e) => {
                    outs.lock().unwrap().push(e);
                    return;
                }
            };
            outs.lock().unwrap().push(show(c.as_ref()));
            for op in prog.split_whitespace() {
                let r = match op {
                    "F" => c.seek_to_first(),
                    "E" => c.seek_to_last(),
                    "N" => c.next(),
                    "V" => c.prev(),
                    _ => {
                        let h = op.strip_prefix("S:").expect("bad op");
                        c.seek(&unhex_e(h))
                    }
                };
                if r.is_err() {
                    outs.lock().unwrap().push("ERR".to_string());
                    return;
                }
                outs.lock().unwrap().push(show(c.as_ref()));
            }
        }));
        let mut o = outs.into_inner().unwrap();
        if r.is_err() {
            o.push("PANIC".to_string());
        }
        writeln!(out, "{}", o.join(" ")).unwrap();
        if ctx.nfile > 0 {
            let _ = std::fs::remove_dir_all(&dir);
            ctx.nfile = 0;
        }
    }
    out.flush().unwrap();
    let _ = std::fs::remove_dir_all(&dir);
}
