//! c02: drives one *session* of a real lsmtk::KeyValueStore for the crash-safety check.
//!
//! usage: c02 <dir> [lsmtk option flags...]
//! ops (one per stdin line; keys/values hex, `-` = empty):
//!   put K V | del K | batch K=V,K=~,... | flush | compact | getall K,K,... | scanall | dump | ls | mark TEXT
//!
//! Every output line — which is also the acknowledgement record of the operation — is emitted
//! with ONE writev(2) on fd 1, never write(2): `strace -e inject=write:...` then counts only the
//! store's own writes, a SIGKILL cannot tear a record, and the records appear in the strace log in
//! order with the store's system calls.  Lines: `@@ S <n> <op>` when operation n starts,
//! `@@ A <n> <result>` when it has returned, `@@ O <result>` after KeyValueStore::open.
//!
//! The memtable thread is the real one; `flush` = verif_request_flush + polling verif_state until
//! the flush is ingested or the thread has died (an injected fault must not hang the session).
//! Compaction is single-stepped through LsmTree::verif_compaction_step.
use std::collections::HashSet;
use std::io::{BufRead, IoSlice, Write};
use std::ops::Bound;
use std::os::fd::FromRawFd;
use std::sync::atomic::{AtomicBool, Ordering};
use std::sync::{Arc, Mutex};

use arrrg::CommandLine;
use hx::{hex, unhex};
use lsmtk::{KeyValueStore, LsmtkOptions, WriteBatch};
use sst::Cursor;

fn hx0(b: &[u8]) -> String {
    if b.is_empty() { "-".to_string() } else { hex(b) }
}

fn err_class(e: &lsmtk::SError) -> String {
    let s = e.to_string();
    match lsmtk::error_code(e) {
        Some(c) => c.to_string(),
        None => {
            if let Some(i) = s.find("(code ") {
                let rest = &s[i + 6..];
                let end = rest.find(')').unwrap_or(rest.len());
                rest[..end].trim().trim_matches('"').to_string()
            } else {
                s.chars().filter(|c| !c.is_whitespace()).take(60).collect()
            }
        }
    }
}

/// one line, one writev
fn emit(line: &str) {
    let mut f = unsafe { std::fs::File::from_raw_fd(1) };
    let mut s = String::with_capacity(line.len() + 1);
    s.push_str(line);
    s.push('\n');
    let bufs = [IoSlice::new(s.as_bytes())];
    let _ = f.write_vectored(&bufs);
    std::mem::forget(f);
}

fn file_line(root: &str, name: &str) -> String {
    let path = format!("{root}/sst/{name}.sst");
    let mut line = format!("FILE {name}");
    match sst::Sst::<sst::file_manager::FileHandle>::new(sst::SstOptions::default(), &path) {
        Ok(sst) => {
            let mut c = sst.cursor();
            let mut ok = c.seek_to_first().is_ok();
            while ok {
                if c.next().is_err() {
                    line.push_str(" ERR");
                    break;
                }
                match c.key_value() {
                    Some(kv) => line.push_str(&format!(
                        " {}:{}:{}",
                        hx0(kv.key),
                        kv.timestamp,
                        match kv.value { Some(v) => hx0(v), None => "~".to_string() }
                    )),
                    None => ok = false,
                }
            }
        }
        Err(e) => line.push_str(&format!(" OPENERR:{}", err_class(&e))),
    }
    line
}

fn ls(root: &str) -> String {
    let mut parts = vec![];
    for sub in ["sst", "trash", "tmp", "compaction", "ingest", ""] {
        let mut names: Vec<String> = match std::fs::read_dir(format!("{root}/{sub}")) {
            Ok(rd) => rd
                .filter_map(|e| e.ok())
                .filter(|e| sub != "" || e.file_name().to_string_lossy().starts_with("log."))
                .map(|e| e.file_name().to_string_lossy().to_string())
                .collect(),
            Err(_) => vec!["?".to_string()],
        };
        names.sort();
        parts.push(format!("{}={}", if sub == "" { "root" } else { sub }, names.join(",")));
    }
    parts.join(" ")
}

fn main() {
    let args: Vec<String> = std::env::args().collect();
    let root = args[1].clone();
    let mut a: Vec<&str> = vec!["--path", &root];
    for e in args[2..].iter() {
        a.push(e);
    }
    if std::env::var_os("C02_LOUD").is_none() {
        hx::quiet_panics();
    }
    let o = LsmtkOptions::from_arguments_relaxed("c02", &a).0;
    let opened = std::panic::catch_unwind(|| KeyValueStore::open(o));
    let kvs = match opened {
        Ok(Ok(k)) => Arc::new(k),
        Ok(Err(e)) => {
            emit(&format!("@@ O err {}", err_class(&e)));
            std::process::exit(0);
        }
        Err(_) => {
            emit("@@ O PANIC");
            std::process::exit(0);
        }
    };
    emit("@@ O ok");
    let thread_dead = Arc::new(AtomicBool::new(false));
    let thread_msg = Arc::new(Mutex::new(String::new()));
    {
        let k2 = Arc::clone(&kvs);
        let dead = Arc::clone(&thread_dead);
        let msg = Arc::clone(&thread_msg);
        std::thread::spawn(move || {
            let r = std::panic::catch_unwind(std::panic::AssertUnwindSafe(|| k2.memtable_thread()));
            let m = match r {
                Ok(Ok(())) => "ok".to_string(),
                Ok(Err(e)) => format!("err {}", err_class(&e)),
                Err(_) => "PANIC".to_string(),
            };
            *msg.lock().unwrap() = m;
            dead.store(true, Ordering::SeqCst);
        });
    }
    let mut seen = HashSet::new();
    let stdin = std::io::stdin();
    let mut n = 0usize;
    for line in stdin.lock().lines() {
        let line = line.unwrap();
        let t: Vec<&str> = line.split_whitespace().collect();
        if t.is_empty() {
            continue;
        }
        n += 1;
        emit(&format!("@@ S {n} {}", t[0]));
        let kvs2 = Arc::clone(&kvs);
        let dead = Arc::clone(&thread_dead);
        let msg = Arc::clone(&thread_msg);
        let root2 = root.clone();
        let seen_ref = &mut seen;
        let r = std::panic::catch_unwind(std::panic::AssertUnwindSafe(|| -> Vec<String> {
            let kvs = &kvs2;
            match t[0] {
                "put" => vec![match kvs.put(&unhex(t[1]), &unhex(t[2])) { Ok(()) => "ok".into(), Err(e) => format!("err {}", err_class(&e)) }],
                "del" => vec![match kvs.del(&unhex(t[1])) { Ok(()) => "ok".into(), Err(e) => format!("err {}", err_class(&e)) }],
                "batch" => {
                    let mut wb = WriteBatch::default();
                    for kv in t[1].split(',') {
                        let (k, v) = kv.split_once('=').unwrap();
                        if v == "~" { wb.del(&unhex(k)); } else { wb.put(&unhex(k), &unhex(v)); }
                    }
                    vec![match kvs.write(wb) { Ok(()) => "ok".into(), Err(e) => format!("err {}", err_class(&e)) }]
                }
                "getall" => {
                    let mut s = "GET".to_string();
                    for k in t[1].split(',') {
                        let mut tomb = false;
                        match kvs.load(&unhex(k), &mut tomb) {
                            Ok(Some(v)) => s.push_str(&format!(" {}", hx0(&v))),
                            Ok(None) => s.push_str(if tomb { " ~" } else { " ." }),
                            Err(e) => s.push_str(&format!(" err:{}", err_class(&e))),
                        }
                    }
                    vec![s]
                }
                "scanall" => {
                    // every live key, through the public range scan
                    let lo: Bound<Vec<u8>> = Bound::Unbounded;
                    let hi: Bound<Vec<u8>> = Bound::Unbounded;
                    let mut s = "SCAN".to_string();
                    match kvs.range_scan(&lo, &hi) {
                        Err(e) => s.push_str(&format!(" err:{}", err_class(&e))),
                        Ok(mut c) => {
                            if let Err(e) = c.seek_to_first() {
                                s.push_str(&format!(" err:{}", err_class(&e)));
                            } else {
                                loop {
                                    match c.next() {
                                        Err(e) => { s.push_str(&format!(" err:{}", err_class(&e))); break; }
                                        Ok(()) => match c.key_value() {
                                            Some(kv) => s.push_str(&format!(" {}={}", hx0(kv.key), match kv.value { Some(v) => hx0(v), None => "~".to_string() })),
                                            None => break,
                                        },
                                    }
                                }
                            }
                        }
                    }
                    vec![s]
                }
                "flush" => {
                    if dead.load(Ordering::SeqCst) {
                        return vec![format!("err thread-dead {}", msg.lock().unwrap())];
                    }
                    let target = kvs.verif_request_flush();
                    let t0 = std::time::Instant::now();
                    loop {
                        let st = kvs.verif_state();
                        if st.imm_trigger >= target && !st.has_imm && st.mem_seq_no > target {
                            return vec![format!("ok {target}")];
                        }
                        if dead.load(Ordering::SeqCst) {
                            return vec![format!("err thread {}", msg.lock().unwrap())];
                        }
                        if t0.elapsed().as_secs() > 60 {
                            return vec!["err timeout".to_string()];
                        }
                        std::thread::sleep(std::time::Duration::from_micros(200));
                    }
                }
                "compact" => vec![match kvs.verif_tree().verif_compaction_step() {
                    Ok(None) => "none".into(),
                    Ok(Some(c)) => format!("ok {} {} {} {} {} {}", c.lower_level, c.upper_level, hx0(&c.first_key), hx0(&c.last_key), c.size, c.inputs.join(",")),
                    Err(e) => format!("err {}", err_class(&e)),
                }],
                "dump" => {
                    let dump = kvs.verif_tree().verif_dump();
                    let mut out = vec![];
                    for (_, md) in dump.iter() {
                        let name = hex(&md.setsum);
                        if seen_ref.insert(name.clone()) {
                            out.push(file_line(&root2, &name));
                        }
                    }
                    let mut l = "DUMP".to_string();
                    for (lvl, md) in dump.iter() {
                        l.push_str(&format!(" {}:{}", lvl, hex(&md.setsum)));
                    }
                    let st = kvs.verif_state();
                    l.push_str(&format!(" | seq={} mem_seq={}", st.seq_no, st.mem_seq_no));
                    out.push(l);
                    out
                }
                "ls" => vec![format!("LS {}", ls(&root2))],
                "mark" => vec!["ok".to_string()],
                _ => vec![format!("BADOP {}", t[0])],
            }
        }));
        match r {
            Ok(lines) => {
                let k = lines.len();
                for (i, l) in lines.into_iter().enumerate() {
                    if i + 1 == k {
                        emit(&format!("@@ A {n} {l}"));
                    } else {
                        emit(&format!("@@ I {n} {l}"));
                    }
                }
            }
            Err(_) => emit(&format!("@@ A {n} PANIC")),
        }
    }
    std::process::exit(0);
}
