//! C20 harness: the compaction selector and the ingest/compaction wake-up protocol of lsmtk.
//!
//! `c20 sel`            one synthetic tree per stdin line, no files touched (hook lsmtk::verif_select):
//!     OPTS | ONGOING | LEVELS
//!     OPTS    = max_open_files,max_compaction_bytes,max_compaction_files,mandatory_files,mandatory_bytes,stall_files,stall_bytes
//!     ONGOING = lower:upper:first:last:size:id,id,..  separated by ';'   ('-' = none)
//!     LEVELS  = levels separated by '/', files by ';', file = id:first:last:smallest_ts:biggest_ts:size
//!   output: `<stall> <mandatory> none` | `<stall> <mandatory> lower upper first last size id,id,..` | `PANIC`
//! `c20 consts`         the float tables as the same Rust expressions evaluate here (bits of the f64)
//! `c20 ring DIR SLOTS WRITERS DEADLINE_MS`   writers in flight against a small wait-list ring (see `ring`)
//! `c20 writers DIR DEADLINE_MS SCRIPT`  gated writers overlapping a rollover (see `writers`)
//! `c20 store DIR FLAGS..`   one session of a real KeyValueStore with its real memtable thread and
//!   K real compaction threads; ops on stdin:
//!     put K V | del K | flushreq | flushwait MS K | flush | step | peek | dump | state | threads K | parked
//!     trace on|off | taketrace | watch MS K | sleep MS | sabotage | unsabotage | waitexit MS N
use std::collections::HashMap;
use std::io::{BufRead, Write};
use std::sync::Arc;
use std::sync::atomic::{AtomicUsize, Ordering};

use arrrg::CommandLine;
use hx::{hex, unhex};
use lsmtk::{KeyValueStore, LsmtkOptions, VerifCompaction};
use sst::SstMetadata;

fn hx0(b: &[u8]) -> String {
    if b.is_empty() { "-".to_string() } else { hex(b) }
}

fn id_digest(id: u64) -> [u8; 32] {
    let mut d = [0u8; 32];
    d[..4].copy_from_slice(&(id as u32).to_le_bytes());
    d[4..8].copy_from_slice(&((id >> 32) as u32).to_le_bytes());
    d
}

fn id_of_hexdigest(h: &str) -> u64 {
    let b = unhex(h);
    let lo = u32::from_le_bytes([b[0], b[1], b[2], b[3]]) as u64;
    let hi = u32::from_le_bytes([b[4], b[5], b[6], b[7]]) as u64;
    lo | (hi << 32)
}

fn options(root: &str, o: &[&str]) -> LsmtkOptions {
    let names = [
        "--max-open-files",
        "--max-compaction-bytes",
        "--max-compaction-files",
        "--l0-mandatory-compaction-threshold-files",
        "--l0-mandatory-compaction-threshold-bytes",
        "--l0-write-stall-threshold-files",
        "--l0-write-stall-threshold-bytes",
    ];
    let mut a: Vec<&str> = vec!["--path", root];
    for (n, v) in names.iter().zip(o.iter()) {
        a.push(n);
        a.push(v);
    }
    LsmtkOptions::from_arguments_relaxed("c20", &a).0
}

fn show_choice(c: &VerifCompaction, ids: &dyn Fn(&str) -> String) -> String {
    format!(
        "{} {} {} {} {} {}",
        c.lower_level,
        c.upper_level,
        hx0(&c.first_key),
        hx0(&c.last_key),
        c.size,
        c.inputs.iter().map(|x| ids(x)).collect::<Vec<_>>().join(",")
    )
}

fn sel_case(line: &str) -> String {
    let parts: Vec<&str> = line.split('|').map(|x| x.trim()).collect();
    let o: Vec<&str> = parts[0].split(',').collect();
    let opts = options("/nonexistent", &o);
    let mut ongoing = vec![];
    if parts[1] != "-" && !parts[1].is_empty() {
        for c in parts[1].split(';') {
            let t: Vec<&str> = c.split(':').collect();
            ongoing.push(VerifCompaction {
                lower_level: t[0].parse().unwrap(),
                upper_level: t[1].parse().unwrap(),
                first_key: unhex(t[2]),
                last_key: unhex(t[3]),
                size: t[4].parse().unwrap(),
                inputs: if t[5] == "-" {
                    vec![]
                } else {
                    t[5].split(',')
                        .map(|x| setsum::Setsum::from_digest(id_digest(x.parse().unwrap())).hexdigest())
                        .collect()
                },
            });
        }
    }
    let mut levels = vec![];
    for lv in parts[2].split('/') {
        let mut ssts = vec![];
        for f in lv.split(';') {
            let f = f.trim();
            if f.is_empty() {
                continue;
            }
            let t: Vec<&str> = f.split(':').collect();
            ssts.push(SstMetadata {
                setsum: id_digest(t[0].parse().unwrap()),
                first_key: unhex(t[1]),
                last_key: unhex(t[2]),
                smallest_timestamp: t[3].parse().unwrap(),
                biggest_timestamp: t[4].parse().unwrap(),
                file_size: t[5].parse().unwrap(),
            });
        }
        levels.push(ssts);
    }
    let (stall, mand, chosen) = lsmtk::verif_select(opts, levels, ongoing);
    let ids = |h: &str| id_of_hexdigest(h).to_string();
    match chosen {
        None => format!("{} {} none", stall as u8, mand as u8),
        Some(c) => format!("{} {} {}", stall as u8, mand as u8, show_choice(&c, &ids)),
    }
}

fn consts() {
    // the expressions of Version::next_compaction, retyped (they are local to that function)
    let mut curve = vec![];
    let mut factor = vec![];
    for level in 0usize..16 {
        let c: u64 = if level <= 2 { 1 } else { (level as f64).log10().ceil() as u64 + 1 };
        curve.push(c.to_string());
        let f: f64 = (level as f64 + 1.0).log2() / (level + 1) as f64 + 1.0;
        factor.push(f.to_bits().to_string());
    }
    println!("CURVE {}", curve.join(" "));
    println!("FACTOR {}", factor.join(" "));
}

fn dump_line(kvs: &KeyValueStore) -> String {
    let mut line = "DUMP".to_string();
    for (lvl, md) in kvs.verif_tree().verif_dump().iter() {
        line.push_str(&format!(
            " {}:{}:{}:{}:{}:{}:{}",
            lvl,
            hex(&md.setsum),
            hx0(&md.first_key),
            hx0(&md.last_key),
            md.smallest_timestamp,
            md.biggest_timestamp,
            md.file_size
        ));
    }
    line
}

/// `verif_parked` / `verif_state` take the compaction mutex / the store mutex.  A store that is
/// stuck on a lock the watchdog does not know (one that is held across a wait) may hold them for
/// ever; the watchdog must not hang with it: it asks from a helper thread and gives up after
/// `ms` (the helper is left behind).
fn parked_deadline(kvs: &Arc<KeyValueStore>, ms: u64) -> Option<(lsmtk::VerifParked, lsmtk::VerifState)> {
    let k = Arc::clone(kvs);
    let (tx, rx) = std::sync::mpsc::channel();
    std::thread::spawn(move || {
        let st = k.verif_state();
        let p = k.verif_tree().verif_parked();
        let _ = tx.send((p, st));
    });
    rx.recv_timeout(std::time::Duration::from_millis(ms)).ok()
}

fn store(args: &[String]) {
    let root = args[0].clone();
    let mut a: Vec<&str> = vec!["--path", &root];
    for e in args[1..].iter() {
        a.push(e);
    }
    let stdout = std::io::stdout();
    let o = LsmtkOptions::from_arguments_relaxed("c20", &a).0;
    let kvs = match std::panic::catch_unwind(|| KeyValueStore::open(o)) {
        Ok(Ok(k)) => Arc::new(k),
        Ok(Err(e)) => {
            println!("OPEN err {}", e.to_string().replace('\n', " "));
            std::process::exit(0);
        }
        Err(_) => {
            println!("OPEN PANIC");
            std::process::exit(0);
        }
    };
    println!("OPEN ok");
    let exited = Arc::new(AtomicUsize::new(0)); // the flush thread
    let cexited = Arc::new(AtomicUsize::new(0)); // compaction threads that returned
    {
        let k2 = Arc::clone(&kvs);
        let ex = Arc::clone(&exited);
        std::thread::spawn(move || {
            let r = std::panic::catch_unwind(std::panic::AssertUnwindSafe(|| k2.memtable_thread()));
            ex.fetch_add(1, Ordering::SeqCst);
            let msg = match r {
                Ok(Ok(())) => "ok".to_string(),
                Ok(Err(e)) => format!("err {}", e.to_string().replace('\n', " ")),
                Err(_) => "PANIC".to_string(),
            };
            println!("THREAD memtable {msg}");
        });
    }
    let mut nthreads = 0usize;
    let mut last_flush_target: Option<u64> = None;
    let stdin = std::io::stdin();
    for line in stdin.lock().lines() {
        let line = line.unwrap();
        let t: Vec<&str> = line.split_whitespace().collect();
        if t.is_empty() {
            continue;
        }
        let kvs2 = Arc::clone(&kvs);
        let exited2 = Arc::clone(&exited);
        let cexited2 = Arc::clone(&cexited);
        let root2 = root.clone();
        let mut spawn = 0usize;
        let mut flush_target = last_flush_target;
        let r = std::panic::catch_unwind(std::panic::AssertUnwindSafe(|| -> String {
            let kvs = &kvs2;
            let show = |c: &VerifCompaction| show_choice(c, &|h: &str| h.to_string());
            match t[0] {
                "put" => match kvs.put(&unhex(t[1]), &unhex(t[2])) {
                    Ok(()) => "PUT ok".into(),
                    Err(e) => format!("PUT err {}", e.to_string().replace('\n', " ")),
                },
                "del" => match kvs.del(&unhex(t[1])) {
                    Ok(()) => "DEL ok".into(),
                    Err(e) => format!("DEL err {}", e.to_string().replace('\n', " ")),
                },
                "flushreq" => {
                    let target = kvs.verif_request_flush();
                    flush_target = Some(target);
                    format!("FLUSHREQ {target}")
                }
                "flush" => {
                    let target = kvs.verif_request_flush();
                    kvs.verif_wait_flush(target);
                    format!("FLUSH {target}")
                }
                "flushwait" => {
                    // waits for the flush requested last: done | deadlock (decided by the parked
                    // counters, as in `watch`) | timeout | threadexit
                    let ms: u64 = t[1].parse().unwrap();
                    let k: usize = t[2].parse().unwrap();
                    let target = flush_target.unwrap_or(0);
                    let t0 = std::time::Instant::now();
                    let mut verdict = "timeout";
                    while t0.elapsed().as_millis() < ms as u128 {
                        // progress watchdog: a store lock that cannot be had for 5 s while a flush
                        // is waiting means that no store thread can move (locks held across a wait)
                        let Some((p, st)) = parked_deadline(kvs, 5000) else {
                            verdict = "lockheld";
                            break;
                        };
                        if st.imm_trigger >= target && !st.has_imm && st.mem_seq_no > target {
                            verdict = "done";
                            break;
                        }
                        // the property's premise: the flush thread and at least one compaction
                        // thread are running; compaction threads that returned are not waited for
                        let gone = cexited2.load(Ordering::SeqCst);
                        if exited2.load(Ordering::SeqCst) > 0 || (k > 0 && gone >= k) {
                            verdict = "threadexit";
                            break;
                        }
                        if p.stall >= 1 && p.compact == k - gone && p.ongoing == 0 {
                            verdict = "deadlock";
                            break;
                        }
                        std::thread::sleep(std::time::Duration::from_millis(1));
                    }
                    format!("FLUSHWAIT {verdict}")
                }
                "step" => match kvs.verif_tree().verif_compaction_step() {
                    Ok(None) => "STEP none".into(),
                    Ok(Some(c)) => format!("STEP {}", show(&c)),
                    Err(e) => format!("STEP err {}", e.to_string().replace('\n', " ")),
                },
                "peek" => match kvs.verif_tree().verif_peek_compaction() {
                    None => "PEEK none".into(),
                    Some(c) => format!("PEEK {}", show(&c)),
                },
                "dump" => dump_line(kvs),
                "state" => {
                    let st = kvs.verif_state();
                    format!(
                        "STATE seq={} mem_seq={} imm_trigger={} has_imm={} mem_size={} stall={} mandatory={} ongoing={}",
                        st.seq_no,
                        st.mem_seq_no,
                        st.imm_trigger,
                        st.has_imm as u8,
                        st.mem_size,
                        kvs.verif_tree().verif_should_stall() as u8,
                        kvs.verif_tree().verif_should_mandatory() as u8,
                        kvs.verif_tree().verif_ongoing()
                    )
                }
                "threads" => {
                    spawn = t[1].parse().unwrap();
                    format!("SPAWNED {spawn}")
                }
                "parked" => {
                    let p = kvs.verif_tree().verif_parked();
                    format!(
                        "PARKED stall={} compact={} ongoing={} should_stall={}",
                        p.stall, p.compact, p.ongoing, p.should_stall as u8
                    )
                }
                "trace" => {
                    kvs.verif_tree().verif_trace(t[1] == "on");
                    format!("TRACE {}", t[1])
                }
                "taketrace" => {
                    let (trace, dump) = kvs.verif_tree().verif_take_trace();
                    let mut s = String::new();
                    for ev in trace.iter() {
                        s.push_str(&format!("T {ev}\n"));
                    }
                    s.push_str("TRACEEND");
                    for (lvl, md) in dump.iter() {
                        s.push_str(&format!(
                            " {}:{}:{}:{}:{}:{}:{}",
                            lvl,
                            hex(&md.setsum),
                            hx0(&md.first_key),
                            hx0(&md.last_key),
                            md.smallest_timestamp,
                            md.biggest_timestamp,
                            md.file_size
                        ));
                    }
                    s
                }
                "watch" => {
                    // Decides by the parked counters, never by the clock: `deadlock` = the flush
                    // thread is parked on `stall`, all K compaction threads are parked on
                    // `compact`, nothing is ongoing and no notification is pending; `idle` = all
                    // K compaction threads parked on `compact`, nobody on `stall`, no flush
                    // requested or in progress.  The clock only bounds how long we look.
                    let ms: u64 = t[1].parse().unwrap();
                    let k: usize = t[2].parse().unwrap();
                    let t0 = std::time::Instant::now();
                    let mut verdict = "timeout";
                    let mut last = lsmtk::VerifParked { stall: 0, compact: 0, ongoing: 0, should_stall: false };
                    while t0.elapsed().as_millis() < ms as u128 {
                        // the store state is read first: a flush that starts after this point
                        // cannot have parked anybody in the snapshot taken next
                        let Some((p, st)) = parked_deadline(kvs, 5000) else {
                            verdict = "lockheld";
                            break;
                        };
                        let flush_idle = !st.has_imm && st.imm_trigger < st.mem_seq_no;
                        last = p.clone();
                        let gone = cexited2.load(Ordering::SeqCst);
                        if exited2.load(Ordering::SeqCst) > 0 || (k > 0 && gone >= k) {
                            verdict = "threadexit";
                            break;
                        }
                        let k = k - gone;
                        if p.stall >= 1 && p.compact == k && p.ongoing == 0 {
                            verdict = "deadlock";
                            break;
                        }
                        if p.stall == 0 && p.compact == k && p.ongoing == 0 && flush_idle {
                            // confirm: nothing moved between the two snapshots
                            let st2 = kvs.verif_state();
                            if !st2.has_imm && st2.imm_trigger < st2.mem_seq_no && st2.mem_seq_no == st.mem_seq_no {
                                verdict = "idle";
                                break;
                            }
                        }
                        std::thread::sleep(std::time::Duration::from_millis(1));
                    }
                    format!(
                        "WATCH {} stall={} compact={} ongoing={} should_stall={} exited={}",
                        verdict,
                        last.stall,
                        last.compact,
                        last.ongoing,
                        last.should_stall as u8,
                        cexited2.load(Ordering::SeqCst)
                    )
                }
                "sleep" => {
                    std::thread::sleep(std::time::Duration::from_millis(t[1].parse().unwrap()));
                    "SLEEP".into()
                }
                // fault injection without a tracer: the directory in which every merging
                // compaction creates its output directory is replaced by a regular file, so
                // compaction_setup's create_dir fails (ENOTDIR) and perform_compaction returns Err
                "sabotage" => {
                    let dir = format!("{root2}/compaction");
                    let saved = format!("{root2}/compaction.saved");
                    match std::fs::rename(&dir, &saved).and_then(|_| std::fs::write(&dir, b"not a directory")) {
                        Ok(()) => "SABOTAGE ok".into(),
                        Err(e) => format!("SABOTAGE err {e}"),
                    }
                }
                "unsabotage" => {
                    let dir = format!("{root2}/compaction");
                    let saved = format!("{root2}/compaction.saved");
                    match std::fs::remove_file(&dir).and_then(|_| std::fs::rename(&saved, &dir)) {
                        Ok(()) => "UNSABOTAGE ok".into(),
                        Err(e) => format!("UNSABOTAGE err {e}"),
                    }
                }
                "waitexit" => {
                    // until N compaction threads have returned
                    let ms: u64 = t[1].parse().unwrap();
                    let n: usize = t[2].parse().unwrap();
                    let t0 = std::time::Instant::now();
                    while t0.elapsed().as_millis() < ms as u128 && cexited2.load(Ordering::SeqCst) < n {
                        std::thread::sleep(std::time::Duration::from_millis(1));
                    }
                    format!("WAITEXIT {}", cexited2.load(Ordering::SeqCst))
                }
                _ => format!("BADOP {}", t[0]),
            }
        }));
        last_flush_target = flush_target;
        for _ in 0..spawn {
            let k2 = Arc::clone(&kvs);
            let ex = Arc::clone(&cexited);
            nthreads += 1;
            let n = nthreads;
            std::thread::spawn(move || {
                let r = std::panic::catch_unwind(std::panic::AssertUnwindSafe(|| k2.compaction_thread()));
                ex.fetch_add(1, Ordering::SeqCst);
                let msg = match r {
                    Ok(Ok(())) => "ok".to_string(),
                    Ok(Err(e)) => format!("err {}", e.to_string().replace('\n', " ")),
                    Err(_) => "PANIC".to_string(),
                };
                println!("THREAD compaction{n} {msg}");
            });
        }
        let mut out = stdout.lock();
        match r {
            Ok(s) => writeln!(out, "{s}").unwrap(),
            Err(_) => writeln!(out, "PANIC {}", t[0]).unwrap(),
        }
        out.flush().unwrap();
    }
    let _ = last_flush_target;
    std::process::exit(0);
}

/// `c20 ring DIR SLOTS WRITERS DEADLINE_MS`: WRITERS puts in flight at once on a store whose wait
/// list has SLOTS slots (hook sync42::verif::set_slots; production: MAX_CONCURRENCY = 65536).
/// Writer 0 is held after its log append (gate w_logged), the others start one by one behind it,
/// then a reader, then writer 0 is released.  Prints how many operations returned by the deadline.
fn ring(args: &[String]) {
    let root = args[0].clone();
    let slots: usize = args[1].parse().unwrap();
    let writers: usize = args[2].parse().unwrap();
    let deadline: u64 = args[3].parse().unwrap();
    sync42::verif::set_slots(slots);
    let a: Vec<&str> = vec!["--path", &root];
    let o = LsmtkOptions::from_arguments_relaxed("c20", &a).0;
    let kvs = match std::panic::catch_unwind(|| KeyValueStore::open(o)) {
        Ok(Ok(k)) => Arc::new(k),
        _ => {
            println!("RING openfailed");
            std::process::exit(0);
        }
    };
    let done = Arc::new(AtomicUsize::new(0));
    KeyValueStore::verif_gate_arm("w_logged", 0, 0);
    let spawn_writer = |i: usize| {
        let k2 = Arc::clone(&kvs);
        let d = Arc::clone(&done);
        std::thread::spawn(move || {
            KeyValueStore::verif_set_tid(i as u64);
            let key = format!("k{i:04}");
            let r = std::panic::catch_unwind(std::panic::AssertUnwindSafe(|| k2.put(key.as_bytes(), b"v")));
            if matches!(r, Ok(Ok(()))) {
                d.fetch_add(1, Ordering::SeqCst);
            }
        });
    };
    spawn_writer(0);
    let parked = KeyValueStore::verif_gate_wait_parked("w_logged", 0, std::time::Duration::from_millis(deadline));
    for i in 1..writers {
        spawn_writer(i);
        std::thread::sleep(std::time::Duration::from_millis(60));
    }
    {
        let k2 = Arc::clone(&kvs);
        let d = Arc::clone(&done);
        std::thread::spawn(move || {
            KeyValueStore::verif_set_tid(100);
            let mut tomb = false;
            let r = std::panic::catch_unwind(std::panic::AssertUnwindSafe(|| k2.load(b"k0000", &mut tomb)));
            if matches!(r, Ok(Ok(_))) {
                d.fetch_add(1, Ordering::SeqCst);
            }
        });
    }
    std::thread::sleep(std::time::Duration::from_millis(100));
    let before = done.load(Ordering::SeqCst);
    KeyValueStore::verif_gate_release("w_logged", 0);
    let t0 = std::time::Instant::now();
    while t0.elapsed().as_millis() < deadline as u128 && done.load(Ordering::SeqCst) < writers + 1 {
        std::thread::sleep(std::time::Duration::from_millis(2));
    }
    let n = done.load(Ordering::SeqCst);
    let verdict = if n == writers + 1 {
        "allreturned"
    } else if n == 0 {
        "allstuck"
    } else {
        "partial"
    };
    println!(
        "RING slots={slots} writers={writers} gate_parked={} returned_before_release={before} returned={n}/{} verdict={verdict}",
        parked as u8,
        writers + 1
    );
    std::process::exit(0);
}

/// `c20 writers DIR DEADLINE_MS SCRIPT`: concurrent client writers against the real flush thread,
/// forced into a chosen interleaving with the kvs gates (hook lsmtk::kvs::verif_events).  SCRIPT is
/// a ';'-separated controller program:
///   arm:<point>:<tid>   start:<tid> (one put by a new thread <tid>)   parked:<point>:<tid>
///   release:<point>:<tid>   flushreq   sleep:<ms>   rolled (wait until the requested rollover happened)
/// After the script every started writer must have returned and a requested flush must have been
/// ingested within the deadline; nothing here can stall (default thresholds, a handful of files).
fn writers(args: &[String]) {
    let root = args[0].clone();
    let deadline: u64 = args[1].parse().unwrap();
    let script = args[2].clone();
    let a: Vec<&str> = vec!["--path", &root];
    let o = LsmtkOptions::from_arguments_relaxed("c20", &a).0;
    let kvs = match std::panic::catch_unwind(|| KeyValueStore::open(o)) {
        Ok(Ok(k)) => Arc::new(k),
        _ => {
            println!("WRITERS openfailed");
            std::process::exit(0);
        }
    };
    {
        let k2 = Arc::clone(&kvs);
        std::thread::spawn(move || {
            KeyValueStore::verif_set_tid(1000);
            let _ = std::panic::catch_unwind(std::panic::AssertUnwindSafe(|| k2.memtable_thread()));
            println!("THREAD memtable returned");
        });
    }
    let mut started: Vec<(u64, Arc<AtomicUsize>)> = vec![];
    let mut flush_target: Option<u64> = None;
    let mut notes: Vec<String> = vec![];
    for cmd in script.split(';') {
        let t: Vec<&str> = cmd.split(':').collect();
        match t[0] {
            "arm" => KeyValueStore::verif_gate_arm(t[1], t[2].parse().unwrap(), 0),
            "start" => {
                let tid: u64 = t[1].parse().unwrap();
                let done = Arc::new(AtomicUsize::new(0));
                started.push((tid, Arc::clone(&done)));
                let k2 = Arc::clone(&kvs);
                std::thread::spawn(move || {
                    KeyValueStore::verif_set_tid(tid);
                    let key = format!("k{tid:04}");
                    let r = std::panic::catch_unwind(std::panic::AssertUnwindSafe(|| k2.put(key.as_bytes(), b"value")));
                    done.store(if matches!(r, Ok(Ok(()))) { 1 } else { 2 }, Ordering::SeqCst);
                });
            }
            "parked" => {
                if !KeyValueStore::verif_gate_wait_parked(t[1], t[2].parse().unwrap(), std::time::Duration::from_millis(deadline)) {
                    notes.push(format!("notparked:{}:{}", t[1], t[2]));
                }
            }
            "release" => KeyValueStore::verif_gate_release(t[1], t[2].parse().unwrap()),
            "flushreq" => flush_target = Some(kvs.verif_request_flush()),
            "rolled" => {
                // the flush thread swapped the memtables (and linked into the wait list in the
                // same critical section)
                let t0 = std::time::Instant::now();
                while t0.elapsed().as_millis() < deadline as u128 {
                    if let Some(target) = flush_target {
                        if kvs.verif_state().mem_seq_no > target {
                            break;
                        }
                    }
                    std::thread::sleep(std::time::Duration::from_millis(1));
                }
            }
            "sleep" => std::thread::sleep(std::time::Duration::from_millis(t[1].parse().unwrap())),
            _ => notes.push(format!("badcmd:{cmd}")),
        }
    }
    KeyValueStore::verif_gate_release_all();
    let t0 = std::time::Instant::now();
    let flushed = |kvs: &KeyValueStore| match flush_target {
        None => true,
        Some(target) => {
            let st = kvs.verif_state();
            st.imm_trigger >= target && !st.has_imm && st.mem_seq_no > target
        }
    };
    while t0.elapsed().as_millis() < deadline as u128 {
        if started.iter().all(|(_, d)| d.load(Ordering::SeqCst) != 0) && flushed(&kvs) {
            break;
        }
        std::thread::sleep(std::time::Duration::from_millis(2));
    }
    let stuck: Vec<String> = started.iter().filter(|(_, d)| d.load(Ordering::SeqCst) == 0).map(|(t, _)| t.to_string()).collect();
    let failed: Vec<String> = started.iter().filter(|(_, d)| d.load(Ordering::SeqCst) == 2).map(|(t, _)| t.to_string()).collect();
    // the tree's own view, read with a deadline (a stuck store may hold its locks)
    let k3 = Arc::clone(&kvs);
    let (tx, rx) = std::sync::mpsc::channel();
    std::thread::spawn(move || {
        let p = k3.verif_tree().verif_parked();
        let _ = tx.send(format!("stall={} should_stall={}", p.stall, p.should_stall as u8));
    });
    let tree = rx.recv_timeout(std::time::Duration::from_millis(1000)).unwrap_or_else(|_| "stall=? should_stall=?".to_string());
    println!(
        "WRITERS started={} stuck=[{}] failed=[{}] flushed={} {} notes=[{}] verdict={}",
        started.len(),
        stuck.join(","),
        failed.join(","),
        flushed(&kvs) as u8,
        tree,
        notes.join(","),
        if stuck.is_empty() && failed.is_empty() && flushed(&kvs) { "allreturned" } else { "stuck" }
    );
    std::process::exit(0);
}

fn main() {
    let args: Vec<String> = std::env::args().collect();
    hx::quiet_panics();
    match args.get(1).map(|x| x.as_str()) {
        Some("sel") => {
            let stdin = std::io::stdin();
            let stdout = std::io::stdout();
            let mut out = std::io::BufWriter::new(stdout.lock());
            let _cache: HashMap<u64, ()> = HashMap::new();
            for line in stdin.lock().lines() {
                let line = line.unwrap();
                let r = std::panic::catch_unwind(|| sel_case(&line));
                match r {
                    Ok(s) => writeln!(out, "{s}").unwrap(),
                    Err(_) => writeln!(out, "PANIC").unwrap(),
                }
            }
            out.flush().unwrap();
        }
        Some("consts") => consts(),
        Some("store") => store(&args[2..]),
        Some("ring") => ring(&args[2..]),
        Some("writers") => writers(&args[2..]),
        _ => {
            eprintln!("usage: c20 sel | consts | store DIR FLAGS..");
            std::process::exit(2);
        }
    }
}
