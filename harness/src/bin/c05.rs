//! C05 harness: the real sst garbage collector (sst/src/gc.rs) on generated inputs.
//!
//! One case per line (space separated tokens):
//!   parse POLHEX                      real nom parser: `P OK <Display of the AST>` | `P ERR`
//!   gc POLHEX NOW e1 .. en            GarbageCollectionPolicy::try_from(policy).collector(cursor
//!                                     positioned on e1, NOW), next() until None:
//!                                     `G KEYHEX@TS ...` | `G PARSEERR`
//!   walk POLHEX NFILES f1:e1 .. fn:en real SST files (entry i goes to file f_i), a real
//!                                     MergingCursor over their SstCursors, the real collector on
//!                                     a clone of it, and a line-by-line TRANSCRIPTION of the loop
//!                                     of lsmtk perform_garbage_collection (that function is
//!                                     private and needs a whole tree; the real one is exercised
//!                                     through the `lsm` binary):
//!                                     `W OK w=<entries> d=<entries> in=<hex> out=<hex> disc=<hex>`
//!                                     | `W OUTOFSYNC` | `W BUILDERR`
//!   walkm POLHEX NFILES f1:e1 ..      the same, and the order in which the real MergingCursor
//!                                     yields the entries is printed too (`m=<entries>` after
//!                                     `W OK`): for inputs in which several files hold an entry
//!                                     with the same key AND timestamp the tie order is the
//!                                     cursor's, and the model is then run on that order
//!   mb TARGET MINIMUM h1:e1 .. hn:en  a real SstMultiBuilder with these file size options fed the
//!                                     entries in order, split_hint() called before entry i iff
//!                                     h_i = 1 (what perform_compaction's loop does); seal();
//!                                     the files are read back in the order seal() returned them:
//!                                     `M <entries of file 0>|<entries of file 1>|...` | `M ERR`
//! POLHEX = hex of the policy string (UTF-8).  entry: KEYHEX@TS=VALHEX | KEYHEX@TS~ (tombstone).
//! A panic anywhere prints `PANIC`.
use hx::{hex, unhex};
use sst::gc::GarbageCollectionPolicy;
use sst::merging_cursor::MergingCursor;
use sst::{Builder, Cursor, KeyRef, KeyValuePair, Sst, SstBuilder, SstCursor, SstOptions};
use std::cmp::Ordering;
use std::path::PathBuf;

type Entry = (Vec<u8>, u64, Option<Vec<u8>>);

fn unhex_e(s: &str) -> Vec<u8> {
    if s.is_empty() { vec![] } else { unhex(s) }
}

fn parse_entry(t: &str) -> Entry {
    let at = t.find('@').expect("entry @");
    let key = unhex_e(&t[..at]);
    let rest = &t[at + 1..];
    if let Some(ts) = rest.strip_suffix('~') {
        (key, ts.parse().expect("ts"), None)
    } else {
        let eq = rest.find('=').expect("entry =");
        (key, rest[..eq].parse().expect("ts"), Some(unhex_e(&rest[eq + 1..])))
    }
}

fn show_entry(k: &[u8], ts: u64, v: Option<&[u8]>) -> String {
    match v {
        Some(v) => format!("{}@{}={}", hex(k), ts, hex(v)),
        None => format!("{}@{}~", hex(k), ts),
    }
}

/// a cursor over a vector, positioned ON an entry (like sst's own test SampleCursor)
#[derive(Clone, Debug, Default)]
struct VecCursor {
    entries: Vec<KeyValuePair>,
    index: usize,
}

impl Cursor for VecCursor {
    fn next(&mut self) -> Result<(), sst::SError> {
        if self.index < self.entries.len() {
            self.index += 1;
        }
        Ok(())
    }
    fn key(&self) -> Option<KeyRef<'_>> {
        if self.index < self.entries.len() { Some(KeyRef::from(&self.entries[self.index])) } else { None }
    }
    fn value(&self) -> Option<&[u8]> {
        if self.index < self.entries.len() { self.entries[self.index].value.as_deref() } else { None }
    }
    fn seek_to_first(&mut self) -> Result<(), sst::SError> {
        unimplemented!()
    }
    fn seek_to_last(&mut self) -> Result<(), sst::SError> {
        unimplemented!()
    }
    fn seek(&mut self, _: &[u8]) -> Result<(), sst::SError> {
        unimplemented!()
    }
    fn prev(&mut self) -> Result<(), sst::SError> {
        unimplemented!()
    }
}

fn policy_of(polhex: &str) -> Option<GarbageCollectionPolicy> {
    let s = String::from_utf8(unhex_e(polhex)).expect("utf8 policy");
    GarbageCollectionPolicy::try_from(s.as_str()).ok()
}

fn do_gc(t: &[&str]) -> String {
    let Some(policy) = policy_of(t[1]) else { return "G PARSEERR".to_string() };
    let now: u64 = t[2].parse().expect("now");
    let entries: Vec<KeyValuePair> = t[3..]
        .iter()
        .map(|x| {
            let (key, timestamp, value) = parse_entry(x);
            KeyValuePair { key, timestamp, value }
        })
        .collect();
    let cursor = VecCursor { entries, index: 0 };
    let mut gc = policy.collector(cursor, now).expect("collector");
    let mut out = vec!["G".to_string()];
    loop {
        match gc.next().expect("next") {
            Some(k) => out.push(format!("{}@{}", hex(k.key), k.timestamp)),
            None => break,
        }
    }
    out.join(" ")
}

fn do_walk(t: &[&str], dir: &PathBuf, show_merge: bool) -> String {
    let Some(policy) = policy_of(t[1]) else { return "W PARSEERR".to_string() };
    let nfiles: usize = t[2].parse().expect("nfiles");
    let mut files: Vec<Vec<Entry>> = vec![vec![]; nfiles];
    for x in &t[3..] {
        let c = x.find(':').expect("file:");
        let f: usize = x[..c].parse().expect("file idx");
        files[f].push(parse_entry(&x[c + 1..]));
    }
    let _ = std::fs::remove_dir_all(dir);
    std::fs::create_dir_all(dir).expect("mkdir");
    let mut cursors: Vec<SstCursor> = vec![];
    let mut input_setsum = setsum::Setsum::default();
    for (i, es) in files.iter().enumerate() {
        let path = dir.join(format!("{i}.sst"));
        let Ok(mut b) = SstBuilder::new(SstOptions::default(), &path) else { return "W BUILDERR".to_string() };
        for (k, ts, v) in es {
            let r = match v {
                Some(v) => b.put(k, *ts, v),
                None => b.del(k, *ts),
            };
            if r.is_err() {
                return "W BUILDERR".to_string();
            }
        }
        if b.seal().is_err() {
            return "W BUILDERR".to_string();
        }
        let Ok(sst) = Sst::<sst::file_manager::FileHandle>::new(SstOptions::default(), &path) else { return "W BUILDERR".to_string() };
        let Ok(md) = sst.metadata() else { return "W BUILDERR".to_string() };
        input_setsum += setsum::Setsum::from_digest(md.setsum);
        cursors.push(sst.cursor());
    }
    // ---- transcription of lsmtk/src/tree/mod.rs perform_garbage_collection ----
    let mut cursor = MergingCursor::new(cursors).expect("merging");
    cursor.seek_to_first().expect("seek_to_first");
    let mut gc_cursor = cursor.clone();
    gc_cursor.next().expect("next");
    let mut gc = policy.collector(gc_cursor, 0).expect("collector");
    let mut gc_next = gc.next().expect("gc next");
    let mut discard = setsum::Setsum::default();
    let mut output = sst::Setsum::default();
    let mut written = vec![];
    let mut dropped = vec![];
    let mut merged = vec![];
    loop {
        cursor.next().expect("next");
        let kvr = match cursor.key_value() {
            Some(v) => v,
            None => break,
        };
        merged.push(show_entry(kvr.key, kvr.timestamp, kvr.value));
        let retain = if let Some(gcn) = gc_next {
            match gcn.cmp(&KeyRef::from(&kvr)) {
                Ordering::Less => return "W OUTOFSYNC".to_string(),
                Ordering::Equal => {
                    gc_next = gc.next().expect("gc next");
                    true
                }
                Ordering::Greater => false,
            }
        } else {
            false
        };
        if retain {
            written.push(show_entry(kvr.key, kvr.timestamp, kvr.value));
            output.insert(kvr);
        } else {
            dropped.push(show_entry(kvr.key, kvr.timestamp, kvr.value));
            let mut setsum = sst::Setsum::default();
            setsum.insert(kvr);
            discard += setsum.into_inner();
        }
    }
    // ---- end of transcription ----
    let _ = std::fs::remove_dir_all(dir);
    format!(
        "W OK {}w={} d={} in={} out={} disc={}",
        if show_merge { format!("m={} ", if merged.is_empty() { ".".to_string() } else { merged.join(",") }) } else { String::new() },
        if written.is_empty() { ".".to_string() } else { written.join(",") },
        if dropped.is_empty() { ".".to_string() } else { dropped.join(",") },
        input_setsum.hexdigest(),
        output.hexdigest(),
        discard.hexdigest()
    )
}

fn do_mb(t: &[&str], dir: &PathBuf) -> String {
    let target: usize = t[1].parse().expect("target");
    let minimum: usize = t[2].parse().expect("minimum");
    let _ = std::fs::remove_dir_all(dir);
    std::fs::create_dir_all(dir).expect("mkdir");
    // the setters clamp to >= 4096; the command-line path does not, so tiny files are possible
    let (ts, ms) = (target.to_string(), minimum.to_string());
    let options = {
        use arrrg::CommandLine;
        SstOptions::from_arguments_relaxed("c05", &["--target-block-size", "64", "--target-file-size", &ts, "--minimum-file-size", &ms]).0
    };
    let mut mb = sst::SstMultiBuilder::new(dir.clone(), ".sst".to_string(), options);
    for x in &t[3..] {
        let c = x.find(':').expect("hint:");
        let (k, ts, v) = parse_entry(&x[c + 1..]);
        if &x[..c] == "1" && mb.split_hint().is_err() {
            return "M ERR".to_string();
        }
        let r = match &v {
            Some(v) => mb.put(&k, ts, v),
            None => mb.del(&k, ts),
        };
        if r.is_err() {
            return "M ERR".to_string();
        }
    }
    let Ok(paths) = mb.seal() else { return "M ERR".to_string() };
    let mut files = vec![];
    for path in paths.iter() {
        let Ok(sst) = Sst::<sst::file_manager::FileHandle>::new(SstOptions::default(), path) else { return "M ERR".to_string() };
        let mut c = sst.cursor();
        if c.seek_to_first().is_err() {
            return "M ERR".to_string();
        }
        let mut es = vec![];
        loop {
            if c.next().is_err() {
                return "M ERR".to_string();
            }
            match c.key_value() {
                Some(kv) => es.push(show_entry(kv.key, kv.timestamp, kv.value)),
                None => break,
            }
        }
        files.push(es.join(","));
    }
    let _ = std::fs::remove_dir_all(dir);
    format!("M {}", files.join("|"))
}

fn main() {
    hx::quiet_panics();
    use std::io::{BufRead, Write};
    let dir = PathBuf::from(format!("/dev/shm/c05.{}", std::process::id()));
    let stdin = std::io::stdin();
    let stdout = std::io::stdout();
    let mut out = std::io::BufWriter::new(stdout.lock());
    for line in stdin.lock().lines() {
        let line = line.unwrap();
        let t: Vec<&str> = line.split_whitespace().collect();
        let r = std::panic::catch_unwind(std::panic::AssertUnwindSafe(|| -> String {
            if t.is_empty() {
                return String::new();
            }
            match t[0] {
                "parse" => {
                    let s = String::from_utf8(unhex_e(if t.len() > 1 { t[1] } else { "" })).expect("utf8");
                    match GarbageCollectionPolicy::try_from(s.as_str()) {
                        Ok(p) => format!("P OK {}", p),
                        Err(_) => "P ERR".to_string(),
                    }
                }
                "gc" => do_gc(&t),
                "walk" => do_walk(&t, &dir, false),
                "walkm" => do_walk(&t, &dir, true),
                "mb" => do_mb(&t, &dir),
                _ => panic!("bad op"),
            }
        }));
        match r {
            Ok(s) => writeln!(out, "{s}").unwrap(),
            Err(_) => writeln!(out, "PANIC").unwrap(),
        }
    }
    out.flush().unwrap();
    let _ = std::fs::remove_dir_all(&dir);
}
