//! lsmtree: drives one session of a real lsmtk::LsmTree (no KeyValueStore, no memtable, no log):
//! data arrives only through LsmTree::ingest of externally built ssts, as lsmtk-sst-ingest does.
//!
//! usage: lsmtree <dir> [lsmtk option flags...]
//! ops (one per line, keys/values hex, `-` = empty):
//!   ingest K.TS.V,K.TS.~,...   build an sst with these entries (sorted here: key asc, ts desc)
//!                              and hand it to LsmTree::ingest
//!   get K,K,...  | compact | select | perform IDX | dump | ls
//! Compaction is single-stepped through LsmTree::verif_compaction_step; the session ends by exit.
use std::collections::HashSet;
use std::io::{BufRead, Write};

use arrrg::CommandLine;
use hx::{hex, unhex};
use lsmtk::{LsmTree, LsmtkOptions};
use sst::{Builder, Cursor};

fn hx0(b: &[u8]) -> String {
    if b.is_empty() { "-".to_string() } else { hex(b) }
}

fn err_class(e: &lsmtk::SError) -> String {
    match lsmtk::error_code(e) {
        Some(c) => c.to_string(),
        None => {
            let s = e.to_string();
            if let Some(i) = s.find("(code ") {
                let rest = &s[i + 6..];
                let end = rest.find(')').unwrap_or(rest.len());
                rest[..end].trim().trim_matches('"').to_string()
            } else {
                s.chars().filter(|c| !c.is_whitespace()).take(60).collect()
            }
        }
    }
}

fn print_files(out: &mut impl Write, root: &str, tree: &LsmTree, seen: &mut HashSet<String>) {
    let dump = tree.verif_dump();
    for (_, md) in dump.iter() {
        let name = hex(&md.setsum);
        if seen.insert(name.clone()) {
            let path = format!("{root}/sst/{name}.sst");
            let mut line = format!("FILE {name}");
            match sst::Sst::<sst::file_manager::FileHandle>::new(sst::SstOptions::default(), &path) {
                Ok(sst) => {
                    let mut c = sst.cursor();
                    let mut ok = c.seek_to_first().is_ok();
                    while ok {
                        if c.next().is_err() {
                            line.push_str(" ERR");
                            break;
                        }
                        match c.key_value() {
                            Some(kv) => line.push_str(&format!(
                                " {}:{}:{}",
                                hx0(kv.key),
                                kv.timestamp,
                                match kv.value { Some(v) => hx0(v), None => "~".to_string() }
                            )),
                            None => ok = false,
                        }
                    }
                }
                Err(e) => line.push_str(&format!(" OPENERR:{}", err_class(&e))),
            }
            writeln!(out, "{line}").unwrap();
        }
    }
    let mut line = "DUMP".to_string();
    for (lvl, md) in dump.iter() {
        line.push_str(&format!(
            " {}:{}:{}:{}:{}:{}:{}",
            lvl, hex(&md.setsum), hx0(&md.first_key), hx0(&md.last_key),
            md.smallest_timestamp, md.biggest_timestamp, md.file_size
        ));
    }
    writeln!(out, "{line}").unwrap();
}

fn main() {
    let args: Vec<String> = std::env::args().collect();
    let root = args[1].clone();
    let mut a: Vec<&str> = vec!["--path", &root];
    for e in args[2..].iter() {
        a.push(e);
    }
    let stdout = std::io::stdout();
    let mut out = std::io::BufWriter::new(stdout.lock());
    hx::quiet_panics();
    let o = LsmtkOptions::from_arguments_relaxed("lsmtree", &a).0;
    let sst_opts_args: Vec<&str> = vec![];
    let _ = sst_opts_args;
    let tree = match std::panic::catch_unwind(|| LsmTree::open(o)) {
        Ok(Ok(t)) => t,
        Ok(Err(e)) => {
            writeln!(out, "OPEN err {}", err_class(&e)).unwrap();
            out.flush().unwrap();
            std::process::exit(0);
        }
        Err(_) => {
            writeln!(out, "OPEN PANIC").unwrap();
            out.flush().unwrap();
            std::process::exit(0);
        }
    };
    writeln!(out, "OPEN ok").unwrap();
    out.flush().unwrap();
    let mut seen = HashSet::new();
    let mut serial = 0u64;
    // compactions selected (left in the ongoing list) and not yet performed
    let pending: std::sync::Mutex<Vec<Option<lsmtk::VerifPending>>> = std::sync::Mutex::new(vec![]);
    let stdin = std::io::stdin();
    for line in stdin.lock().lines() {
        let line = line.unwrap();
        let t: Vec<&str> = line.split_whitespace().collect();
        if t.is_empty() {
            continue;
        }
        let r = std::panic::catch_unwind(std::panic::AssertUnwindSafe(|| -> String {
            match t[0] {
                "ingest" => {
                    let mut ents: Vec<(Vec<u8>, u64, Option<Vec<u8>>)> = t[1]
                        .split(',')
                        .map(|e| {
                            let p: Vec<&str> = e.split('.').collect();
                            (unhex(p[0]), p[1].parse::<u64>().unwrap(), if p[2] == "~" { None } else { Some(unhex(p[2])) })
                        })
                        .collect();
                    ents.sort_by(|x, y| x.0.cmp(&y.0).then(y.1.cmp(&x.1)));
                    serial += 1;
                    let path = format!("{root}/ingest/ext{serial}.sst");
                    let mut b = match sst::SstBuilder::new(sst::SstOptions::default(), &path) {
                        Ok(b) => b,
                        Err(e) => return format!("INGEST err build:{}", err_class(&e)),
                    };
                    for (k, ts, v) in ents.iter() {
                        let r = match v {
                            Some(v) => b.put(k, *ts, v),
                            None => b.del(k, *ts),
                        };
                        if let Err(e) = r {
                            return format!("INGEST err build:{}", err_class(&e));
                        }
                    }
                    if let Err(e) = b.seal() {
                        return format!("INGEST err seal:{}", err_class(&e));
                    }
                    // markers for the fault-injection stage of C08: the calls of LsmTree::ingest are those
                    // between the two stats of these (non-existent) names in an strace recording
                    let _ = std::fs::metadata("/blue-verif-mark-ingest-begin");
                    let r = tree.ingest(&path);
                    let _ = std::fs::metadata("/blue-verif-mark-ingest-end");
                    let _ = std::fs::remove_file(&path);
                    match r {
                        Ok(()) => "INGEST ok".into(),
                        Err(e) => format!("INGEST err {}", err_class(&e)),
                    }
                }
                "get" | "getall" => {
                    let mut s = "GET".to_string();
                    for k in t[1].split(',') {
                        let mut tomb = false;
                        match tree.load(&unhex(k), &mut tomb) {
                            Ok(Some(v)) => s.push_str(&format!(" {}", hx0(&v))),
                            Ok(None) => s.push_str(if tomb { " ~" } else { " ." }),
                            Err(e) => s.push_str(&format!(" err:{}", err_class(&e))),
                        }
                    }
                    s
                }
                "compact" => match tree.verif_compaction_step() {
                    Ok(None) => "COMPACT none".into(),
                    Ok(Some(c)) => format!("COMPACT {} {} {} {} {} {}", c.lower_level, c.upper_level, hx0(&c.first_key), hx0(&c.last_key), c.size, c.inputs.join(",")),
                    Err(e) => format!("COMPACT err {}", err_class(&e)),
                },
                "select" => match tree.verif_compaction_select() {
                    None => "SELECT none".into(),
                    Some((c, p)) => {
                        let mut pend = pending.lock().unwrap();
                        pend.push(Some(p));
                        format!("SELECT {} {} {} {} {} {} {}", pend.len() - 1, c.lower_level, c.upper_level, hx0(&c.first_key), hx0(&c.last_key), c.size, c.inputs.join(","))
                    }
                },
                "perform" => {
                    let idx: usize = t[1].parse().unwrap();
                    let p = pending.lock().unwrap().get_mut(idx).and_then(|x| x.take());
                    match p {
                        None => "PERFORM err no-such-pending".into(),
                        Some(p) => match tree.verif_compaction_perform(p) {
                            Ok(()) => "PERFORM ok".into(),
                            Err(e) => format!("PERFORM err {}", err_class(&e)),
                        },
                    }
                }
                "dump" => "DUMPREQ".into(),
                "plant" => {
                    // plant <name under mani/> : a file an earlier process could have left behind
                    match std::fs::write(format!("{root}/mani/{}", t[1]), b"garbage left by a rollover that died\n") {
                        Ok(()) => "PLANT ok".into(),
                        Err(e) => format!("PLANT err {e}"),
                    }
                }
                "ls" => {
                    let mut s = "LS".to_string();
                    for d in ["sst", "mani", "trash"] {
                        let mut names: Vec<String> = match std::fs::read_dir(format!("{root}/{d}")) {
                            Ok(rd) => rd.filter_map(|e| e.ok()).map(|e| e.file_name().to_string_lossy().to_string()).collect(),
                            Err(_) => vec![],
                        };
                        names.sort();
                        s.push_str(&format!(" {d}={}", names.join(",")));
                    }
                    s
                }
                "mani" => {
                    // what a reader of mani/MANIFEST reconstructs (the fold of its edits), as Manifest::open does
                    let p = format!("{root}/mani/MANIFEST");
                    let mut strs: std::collections::BTreeSet<String> = Default::default();
                    match mani::ManifestIterator::open(&p) {
                        Err(_) => "MANI OPENERR".to_string(),
                        Ok(it) => {
                            let mut bad = false;
                            for edit in it {
                                let Ok(edit) = edit else { bad = true; break };
                                for r in edit.rmed() {
                                    strs.remove(r);
                                }
                                for a in edit.added() {
                                    strs.insert(a.clone());
                                }
                            }
                            format!("MANI{} strs={}", if bad { " ERR" } else { "" }, strs.into_iter().collect::<Vec<_>>().join(","))
                        }
                    }
                }
                _ => format!("BADOP {}", t[0]),
            }
        }));
        match r {
            Ok(s) if s == "DUMPREQ" => print_files(&mut out, &root, &tree, &mut seen),
            Ok(s) => writeln!(out, "{s}").unwrap(),
            Err(_) => writeln!(out, "PANIC {}", t[0]).unwrap(),
        }
        out.flush().unwrap();
    }
    out.flush().unwrap();
    std::process::exit(0);
}
