//! C17 harness: the real skipfree::SkipList and listfree::List under recorded / controlled
//! schedules.  One case per stdin line; one output line per case (mode `x`: one line per explored
//! schedule, then `END n`).
//!
//! Input line:   MODE MAXH POLICY | prog / prog / ...
//!   MODE   sk-sched   skiplist, controlled schedule: exactly one thread runs between two gates; a
//!                     gate sits before every atomic operation (hook phase 0), at the allocation
//!                     of the new node and at the start of every operation.  The scheduler picks
//!                     the next thread by POLICY.  The trace is exact by construction.
//!          sk-free    skiplist, free-running threads; the hook takes a global spin lock around
//!                     each atomic operation so that operation + its log record are atomic (the
//!                     recorded order is then the real order; what this cannot show is behaviour
//!                     that needs two atomic operations to overlap in time)
//!          sk-stress  skiplist, free-running threads, hooks off; per-operation begin/end stamps
//!                     from one global counter; the direct oracle is evaluated here
//!          sk-hammer  skiplist, hooks off: many short rounds in which all threads insert into one
//!                     gap at the same time (see `sk_hammer`); body = THREADS ROUNDS KEYS_PER_THREAD
//!          sk-own     skiplist, real threads, registry on: the list is dropped on one thread while
//!                     iterators and iterator clones are alive on others; body = THREADS KEYS
//!          sk-life    skiplist, one thread, node-lifetime registry on: a list and several
//!                     iterators are created and dropped in the given order
//!          ls-sched / ls-free / ls-stress    the same for listfree::List
//!   MAXH   the const generic MAX_HEIGHT (1,2,3,4,5,8,12); ignored by ls-*
//!   POLICY r<seed> uniform random | f<seed> thread 0 alone to its end, then uniform random |
//!          p<seed>:<d> priorities with d change points |
//!          c<i.j.k..> explicit choices (index into the runnable threads, then 0) |
//!          t<a.b.c..> explicit thread ids | x<limit> enumerate all schedules (depth first)
//!   prog   comma separated ops.  skiplist: i<key>:<height> (height 0 = random_height's choice)
//!          c<key> contains, s<key> seek, F seek_to_first, L seek_to_last, N next, P prev.
//!          list: p<data> prepend, T iterate.   sk-life: see `life_case`.
//!
//! Output (sched/free):  R | MAXH | progs with the heights used | schedule | events | outs | final
//!   events  t:b  begin of an operation;  t:! a panic (assertion) inside an operation;
//!           t:a<n>:<h> allocation of node n;  t:g<n>.<l>=<v>;
//!           t:s<n>.<l>=<v>;  t:c<n>.<l>:<before>><after>  (values of the cell around the CAS);
//!           list: t:a<n>  t:h=<v>  t:s<n>=<v>  t:C<before>><after>  t:g<n>=<v>
//!           nodes are numbered in order of allocation (skiplist head = 0), `-` = null
//!   outs    per thread: I<k> | B0 | B1 | K<k> | K- | PANIC ; list: P<d> | L<d.d.d> | L
//!   final   the keys of a full iteration after all threads have finished
use std::cell::{Cell, UnsafeCell};
use std::collections::{BTreeMap, BTreeSet, HashMap, HashSet};
use std::io::{BufRead, Write};
use std::panic::{catch_unwind, AssertUnwindSafe};
use std::sync::atomic::{AtomicBool, AtomicU64, AtomicUsize, Ordering};
use std::sync::{Arc, Barrier};
use std::time::{Duration, Instant};

use listfree::List;
use skipfree::{SkipList, SkipListIterator};

const MAXT: usize = 16;
const NONE: usize = usize::MAX;

thread_local! {
    static TID: Cell<usize> = const { Cell::new(NONE) };
    static HEIGHT: Cell<usize> = const { Cell::new(0) };
    static LAST_HEIGHT: Cell<usize> = const { Cell::new(0) };
}

// 0 = off, 1 = controlled schedule, 2 = free-running with the global lock, 3 = lifetime registry
static MODE: AtomicUsize = AtomicUsize::new(0);
static ARRIVE: [AtomicUsize; MAXT] = [const { AtomicUsize::new(0) }; MAXT];
static GRANT: [AtomicUsize; MAXT] = [const { AtomicUsize::new(0) }; MAXT];
static FIN: [AtomicBool; MAXT] = [const { AtomicBool::new(false) }; MAXT];
static LOCK: AtomicBool = AtomicBool::new(false);
static ABORT: AtomicBool = AtomicBool::new(false);

#[derive(Clone, Copy)]
struct Ev {
    tid: usize,
    kind: u8, // b a g s c | list: a h s C g
    node: usize,
    level: usize,
    before: usize,
    after: usize,
}

#[derive(Default)]
struct Log {
    evs: Vec<Ev>,
    nodes: HashMap<usize, usize>,
    live: HashSet<usize>,
    uaf: Vec<String>,
    pending_before: [usize; MAXT],
}

struct Shared(UnsafeCell<Option<Log>>);
unsafe impl Sync for Shared {}
static SHARED: Shared = Shared(UnsafeCell::new(None));

// Only called by the one thread that holds the turn / the lock / runs alone.
#[allow(clippy::mut_from_ref)]
fn log() -> &'static mut Log {
    unsafe { (*SHARED.0.get()).as_mut().expect("log") }
}

fn reset_log() {
    unsafe {
        *SHARED.0.get() = Some(Log::default());
    }
    for i in 0..MAXT {
        ARRIVE[i].store(0, Ordering::SeqCst);
        GRANT[i].store(0, Ordering::SeqCst);
        FIN[i].store(false, Ordering::SeqCst);
    }
    LOCK.store(false, Ordering::SeqCst);
    ABORT.store(false, Ordering::SeqCst);
}

fn relax(spins: &mut u32) {
    *spins += 1;
    if *spins < 4000 {
        std::hint::spin_loop();
    } else {
        std::thread::yield_now();
    }
}

fn gate(tid: usize) {
    let n = ARRIVE[tid].fetch_add(1, Ordering::SeqCst) + 1;
    let mut spins = 0;
    while GRANT[tid].load(Ordering::Acquire) < n {
        if ABORT.load(Ordering::Relaxed) {
            panic!("aborted");
        }
        relax(&mut spins);
    }
}

fn lock() {
    let mut spins = 0;
    while LOCK.swap(true, Ordering::Acquire) {
        if ABORT.load(Ordering::Relaxed) {
            panic!("aborted");
        }
        relax(&mut spins);
    }
}

fn unlock() {
    LOCK.store(false, Ordering::Release);
}

fn read_cell(cell: usize) -> usize {
    // every AtomicPtr<T> has the layout of an AtomicUsize; the caller holds the exclusion
    unsafe { (*(cell as *const AtomicUsize)).load(Ordering::SeqCst) }
}

/// a step that is not an atomic operation of the library: begin of an operation, allocation
fn plain_step(kind: u8, node: usize, level: usize) {
    let tid = TID.with(|t| t.get());
    match MODE.load(Ordering::Relaxed) {
        1 if tid != NONE => {
            gate(tid);
            log().evs.push(Ev { tid, kind, node, level, before: 0, after: 0 });
        }
        2 if tid != NONE => {
            lock();
            log().evs.push(Ev { tid, kind, node, level, before: 0, after: 0 });
            unlock();
        }
        _ => {}
    }
}

fn register_node(addr: usize) {
    // the caller holds the exclusion
    let l = log();
    let n = l.nodes.len();
    l.nodes.insert(addr, n);
    l.live.insert(addr);
}

fn check_live(addr: usize, what: &str) {
    if MODE.load(Ordering::Relaxed) == 3 {
        // the registry may be used by several threads (sk-own): serialise it
        lock();
        let l = log();
        let dead = !l.live.contains(&addr);
        if dead {
            let n = l.nodes.get(&addr).copied();
            l.uaf.push(format!("{}:{:?}", what, n));
        }
        unlock();
        if dead {
            // stop before the access happens
            panic!("use after free");
        }
    }
}

// --------------------------------------------------------------------------- skipfree hook
fn sk_hook(phase: usize, kind: usize, node: usize, level: usize, cell: usize) {
    use skipfree::verif as v;
    let mode = MODE.load(Ordering::Relaxed);
    if mode == 0 {
        return;
    }
    let tid = TID.with(|t| t.get());
    if phase == 2 {
        match kind {
            v::ALLOC => {
                LAST_HEIGHT.with(|h| h.set(level));
                if tid == NONE || mode == 3 {
                    if mode == 3 {
                        lock();
                    }
                    register_node(node);
                    if mode == 3 {
                        unlock();
                    }
                } else {
                    if mode == 1 {
                        gate(tid);
                    } else {
                        lock();
                    }
                    register_node(node);
                    log().evs.push(Ev { tid, kind: b'a', node, level, before: 0, after: 0 });
                    if mode == 2 {
                        unlock();
                    }
                }
            }
            v::FREE => {
                if mode == 3 {
                    lock();
                    log().live.remove(&node);
                    unlock();
                }
            }
            v::DEREF => check_live(node, "deref"),
            _ => {}
        }
        return;
    }
    if tid == NONE || mode == 3 {
        return;
    }
    if phase == 0 {
        if mode == 1 {
            gate(tid);
        } else {
            lock();
        }
        log().pending_before[tid] = read_cell(cell);
    } else {
        let k = match kind {
            v::GET => b'g',
            v::SET => b's',
            _ => b'c',
        };
        let l = log();
        let before = l.pending_before[tid];
        l.evs.push(Ev { tid, kind: k, node, level, before, after: read_cell(cell) });
        if mode == 2 {
            unlock();
        }
    }
}

fn sk_height(_max: usize) -> usize {
    HEIGHT.with(|h| h.get())
}

// --------------------------------------------------------------------------- listfree hook
fn ls_hook(phase: usize, kind: usize, node: usize, cell: usize) {
    use listfree::verif as v;
    let mode = MODE.load(Ordering::Relaxed);
    if mode == 0 {
        return;
    }
    let tid = TID.with(|t| t.get());
    if phase == 2 {
        match kind {
            v::ALLOC => {
                if tid == NONE || mode == 3 {
                    if mode == 3 {
                        lock();
                    }
                    register_node(node);
                    if mode == 3 {
                        unlock();
                    }
                } else {
                    if mode == 1 {
                        gate(tid);
                    } else {
                        lock();
                    }
                    register_node(node);
                    log().evs.push(Ev { tid, kind: b'a', node, level: 0, before: 0, after: 0 });
                    if mode == 2 {
                        unlock();
                    }
                }
            }
            v::FREE => {
                if mode == 3 {
                    lock();
                    log().live.remove(&node);
                    unlock();
                }
            }
            v::DEREF => check_live(node, "deref"),
            _ => {}
        }
        return;
    }
    if tid == NONE || mode == 3 {
        return;
    }
    if phase == 0 {
        if mode == 1 {
            gate(tid);
        } else {
            lock();
        }
        log().pending_before[tid] = read_cell(cell);
    } else {
        let k = match kind {
            v::GET => b'g',
            v::SET => b's',
            v::HEAD_GET => b'h',
            _ => b'C',
        };
        let l = log();
        let before = l.pending_before[tid];
        l.evs.push(Ev { tid, kind: k, node, level: 0, before, after: read_cell(cell) });
        if mode == 2 {
            unlock();
        }
    }
}

// --------------------------------------------------------------------------- PRNG
struct Rng(u64);
impl Rng {
    fn u64(&mut self) -> u64 {
        self.0 = self.0.wrapping_add(0x9E3779B97F4A7C15);
        let mut z = self.0;
        z = (z ^ (z >> 30)).wrapping_mul(0xBF58476D1CE4E5B9);
        z = (z ^ (z >> 27)).wrapping_mul(0x94D049BB133111EB);
        z ^ (z >> 31)
    }
    fn below(&mut self, n: u64) -> u64 {
        if n == 0 { 0 } else { self.u64() % n }
    }
}

// --------------------------------------------------------------------------- scheduler
enum Policy {
    Random(Rng),
    FirstThen(Rng),
    Pct { prio: Vec<u64>, changes: Vec<usize>, low: u64 },
    Choices(Vec<usize>),
    Tids(Vec<usize>),
}

fn parse_policy(s: &str, nthreads: usize, est_steps: usize) -> Policy {
    let body = &s[1..];
    match &s[..1] {
        "r" => Policy::Random(Rng(body.parse().unwrap())),
        "f" => Policy::FirstThen(Rng(body.parse().unwrap())),
        "p" => {
            let mut it = body.split(':');
            let seed: u64 = it.next().unwrap().parse().unwrap();
            let d: usize = it.next().map(|x| x.parse().unwrap()).unwrap_or(2);
            let mut rng = Rng(seed);
            let prio = (0..nthreads).map(|_| 1_000_000 + rng.below(1_000_000)).collect();
            let changes = (0..d).map(|_| rng.below(est_steps.max(1) as u64) as usize).collect();
            Policy::Pct { prio, changes, low: 1_000_000 }
        }
        "c" => Policy::Choices(body.split('.').filter(|x| !x.is_empty()).map(|x| x.parse().unwrap()).collect()),
        "x" => Policy::Choices(vec![]),
        "t" => Policy::Tids(body.split('.').filter(|x| !x.is_empty()).map(|x| x.parse().unwrap()).collect()),
        _ => panic!("bad policy {}", s),
    }
}

struct SchedResult {
    sched: Vec<usize>,
    choices: Vec<usize>,
    options: Vec<usize>,
    diverged: bool,
}

fn wait_arrival(t: usize, granted: usize) -> bool {
    // true once thread t is at its next gate or has finished; false on watchdog expiry
    let t0 = Instant::now();
    let mut spins = 0u32;
    loop {
        if ARRIVE[t].load(Ordering::Acquire) == granted + 1 || FIN[t].load(Ordering::Acquire) {
            return true;
        }
        relax(&mut spins);
        if spins % 100_000 == 0 && t0.elapsed() > Duration::from_secs(20) {
            return false;
        }
    }
}

fn schedule(nthreads: usize, policy: &mut Policy, max_steps: usize) -> SchedResult {
    let mut granted = vec![0usize; nthreads];
    let mut res = SchedResult { sched: vec![], choices: vec![], options: vec![], diverged: false };
    for t in 0..nthreads {
        if !wait_arrival(t, 0) {
            res.diverged = true;
            return res;
        }
    }
    let mut step = 0usize;
    loop {
        let runnable: Vec<usize> = (0..nthreads).filter(|&t| !FIN[t].load(Ordering::Acquire)).collect();
        if runnable.is_empty() {
            break;
        }
        let (idx, t) = match policy {
            Policy::Random(rng) => {
                let i = rng.below(runnable.len() as u64) as usize;
                (i, runnable[i])
            }
            Policy::FirstThen(rng) => {
                if runnable[0] == 0 {
                    (0, 0)
                } else {
                    let i = rng.below(runnable.len() as u64) as usize;
                    (i, runnable[i])
                }
            }
            Policy::Pct { prio, changes, low } => {
                let (mut bi, mut bt) = (0, runnable[0]);
                for (i, &t) in runnable.iter().enumerate() {
                    if prio[t] > prio[bt] {
                        bi = i;
                        bt = t;
                    }
                }
                if changes.contains(&step) {
                    *low -= 1;
                    prio[bt] = *low;
                }
                (bi, bt)
            }
            Policy::Choices(cv) => {
                let i = if step < cv.len() { cv[step] % runnable.len() } else { 0 };
                (i, runnable[i])
            }
            Policy::Tids(tv) => {
                let t = if step < tv.len() { tv[step] } else { runnable[0] };
                match runnable.iter().position(|&x| x == t) {
                    Some(i) => (i, t),
                    None => (0, runnable[0]),
                }
            }
        };
        res.sched.push(t);
        res.choices.push(idx);
        res.options.push(runnable.len());
        granted[t] += 1;
        GRANT[t].store(granted[t], Ordering::Release);
        if !wait_arrival(t, granted[t]) {
            res.diverged = true;
            break;
        }
        step += 1;
        if step > max_steps {
            res.diverged = true;
            break;
        }
    }
    if res.diverged {
        ABORT.store(true, Ordering::SeqCst);
    }
    res
}

// --------------------------------------------------------------------------- skiplist cases
#[derive(Clone, Debug)]
enum Op {
    Insert(u64, usize),
    Contains(u64),
    Seek(u64),
    First,
    Last,
    Next,
    Prev,
}

fn parse_prog(s: &str) -> Vec<Op> {
    s.split(',')
        .map(|x| x.trim())
        .filter(|x| !x.is_empty())
        .map(|x| match &x[..1] {
            "i" => {
                let mut it = x[1..].split(':');
                let k = it.next().unwrap().parse().unwrap();
                let h = it.next().map(|h| h.parse().unwrap()).unwrap_or(0);
                Op::Insert(k, h)
            }
            "c" => Op::Contains(x[1..].parse().unwrap()),
            "s" => Op::Seek(x[1..].parse().unwrap()),
            "F" => Op::First,
            "L" => Op::Last,
            "N" => Op::Next,
            "P" => Op::Prev,
            _ => panic!("bad op {}", x),
        })
        .collect()
}

fn show_prog(p: &[Op]) -> String {
    p.iter()
        .map(|o| match o {
            Op::Insert(k, h) => format!("i{}:{}", k, h),
            Op::Contains(k) => format!("c{}", k),
            Op::Seek(k) => format!("s{}", k),
            Op::First => "F".into(),
            Op::Last => "L".into(),
            Op::Next => "N".into(),
            Op::Prev => "P".into(),
        })
        .collect::<Vec<_>>()
        .join(",")
}

fn val_of(k: u64) -> u64 {
    !k ^ 0x5a5a
}

fn pos<const M: usize>(it: &SkipListIterator<u64, u64, M>) -> String {
    if it.is_valid() {
        let k = *it.key();
        if *it.value() != val_of(k) {
            return format!("K{}!badvalue", k);
        }
        format!("K{}", k)
    } else {
        "K-".to_string()
    }
}

/// sk-iso: one thread, hooks off.  The same program (keys are SIGNED decimals here: i<k> c<k> s<k> F L N P) runs on
/// a SkipList<i64, ..> with the keys as given - some of them order BELOW K::default() - and on a
/// SkipList<u64, ..> with every key shifted by 2^63 (an order isomorphism onto keys that are all >=
/// the default, which is the instantiation the model's event traces cover).  Output: the two output
/// lists (keys printed as the signed originals) and the two final iterations; they must be equal.
fn iso_run<K: Eq + Ord + Default + Copy, const M: usize>(body: &str, to: impl Fn(i64) -> K, from: impl Fn(K) -> i64) -> String {
    let r = catch_unwind(AssertUnwindSafe(|| {
        let sl: SkipList<K, u64, M> = SkipList::default();
        let mut it = sl.iter();
        let mut outs: Vec<String> = vec![];
        let show = |it: &SkipListIterator<K, u64, M>| {
            if it.is_valid() {
                let k = from(*it.key());
                if *it.value() != (k as u64).wrapping_mul(3) { format!("K{}!badvalue", k) } else { format!("K{}", k) }
            } else {
                "K-".to_string()
            }
        };
        for t in body.split(',').map(|x| x.trim()).filter(|x| !x.is_empty()) {
            let arg = |t: &str| -> i64 { t[1..].parse().expect("iso key") };
            match t.as_bytes()[0] {
                b'i' => {
                    let k = arg(t);
                    sl.insert(to(k), (k as u64).wrapping_mul(3));
                    outs.push(format!("I{}", k));
                }
                b'c' => outs.push(format!("B{}", sl.contains(&to(arg(t))) as u8)),
                b's' => {
                    it.seek(&to(arg(t)));
                    outs.push(show(&it));
                }
                b'F' => {
                    it.seek_to_first();
                    outs.push(show(&it));
                }
                b'L' => {
                    it.seek_to_last();
                    outs.push(show(&it));
                }
                b'N' => {
                    it.next();
                    outs.push(show(&it));
                }
                b'P' => {
                    it.prev();
                    outs.push(show(&it));
                }
                _ => panic!("bad iso op"),
            }
        }
        let mut fin = vec![];
        let mut it2 = sl.iter();
        it2.seek_to_first();
        while it2.is_valid() && fin.len() < 100000 {
            fin.push(from(*it2.key()).to_string());
            it2.next();
        }
        format!("{} = {}", outs.join(","), fin.join(","))
    }));
    r.unwrap_or_else(|_| "PANIC".to_string())
}

fn iso_case<const M: usize>(body: &str) -> String {
    MODE.store(0, Ordering::SeqCst);
    let a = iso_run::<i64, M>(body, |k| k, |k| k);
    let b = iso_run::<u64, M>(body, |k| (k as i128 + (1i128 << 63)) as u64, |k| (k as i128 - (1i128 << 63)) as i64);
    format!("ISO i64[ {} ] u64[ {} ]", a, b)
}

struct Done(usize);
impl Drop for Done {
    fn drop(&mut self) {
        FIN[self.0].store(true, Ordering::Release);
    }
}

/// the body of one thread of a traced run; returns the outputs and the heights used
fn sk_worker<const M: usize>(tid: usize, sl: Arc<SkipList<u64, u64, M>>, prog: Vec<Op>) -> (Vec<String>, Vec<Op>) {
    TID.with(|t| t.set(tid));
    let _done = Done(tid);
    let mut outs = vec![];
    let mut used = vec![];
    let r = catch_unwind(AssertUnwindSafe(|| {
        let mut it = sl.iter();
        for op in prog.iter() {
            used.push(op.clone());
            plain_step(b'b', 0, 0);
            match op {
                Op::Insert(k, h) => {
                    HEIGHT.with(|x| x.set(*h));
                    LAST_HEIGHT.with(|x| x.set(*h));
                    sl.insert(*k, val_of(*k));
                    let hh = LAST_HEIGHT.with(|x| x.get());
                    *used.last_mut().unwrap() = Op::Insert(*k, hh);
                    outs.push(format!("I{}", k));
                }
                Op::Contains(k) => outs.push(format!("B{}", sl.contains(k) as u8)),
                Op::Seek(k) => {
                    it.seek(k);
                    outs.push(pos(&it));
                }
                Op::First => {
                    it.seek_to_first();
                    outs.push(pos(&it));
                }
                Op::Last => {
                    it.seek_to_last();
                    outs.push(pos(&it));
                }
                Op::Next => {
                    it.next();
                    outs.push(pos(&it));
                }
                Op::Prev => {
                    it.prev();
                    outs.push(pos(&it));
                }
            }
        }
    }));
    if r.is_err() {
        // the panic is a step of its own (the model's assert), recorded as event `!`
        if !ABORT.load(Ordering::Relaxed) {
            let _ = catch_unwind(AssertUnwindSafe(|| plain_step(b'!', 0, 0)));
        }
        outs.push("PANIC".to_string());
    }
    TID.with(|t| t.set(NONE));
    (outs, used)
}

fn ptr_s(l: &Log, v: usize) -> String {
    if v == 0 {
        "-".to_string()
    } else {
        match l.nodes.get(&v) {
            Some(n) => n.to_string(),
            None => format!("?{:x}", v),
        }
    }
}

fn show_events_sk(l: &Log) -> String {
    let mut out = Vec::with_capacity(l.evs.len());
    for e in l.evs.iter() {
        let n = ptr_s(l, e.node);
        out.push(match e.kind {
            b'b' => format!("{}:b", e.tid),
            b'!' => format!("{}:!", e.tid),
            b'a' => format!("{}:a{}:{}", e.tid, n, e.level),
            b'g' => format!("{}:g{}.{}={}", e.tid, n, e.level, ptr_s(l, e.after)),
            b's' => format!("{}:s{}.{}={}", e.tid, n, e.level, ptr_s(l, e.after)),
            _ => format!("{}:c{}.{}:{}>{}", e.tid, n, e.level, ptr_s(l, e.before), ptr_s(l, e.after)),
        });
    }
    out.join(" ")
}

fn sk_final<const M: usize>(sl: &SkipList<u64, u64, M>) -> String {
    let mut it = sl.iter();
    it.seek_to_first();
    let mut ks = vec![];
    while it.is_valid() {
        ks.push(it.key().to_string());
        it.next();
        if ks.len() > 10_000_000 {
            ks.push("LOOP".to_string());
            break;
        }
    }
    ks.join(",")
}

fn est_steps(progs: &[Vec<Op>], maxh: usize) -> usize {
    progs.iter().map(|p| p.len() * (maxh + 8)).sum::<usize>().max(8)
}

/// one traced run (mode 1 = controlled, 2 = free with lock); returns the output line and, for
/// the enumeration, the choices/options vectors
fn sk_run<const M: usize>(mode: usize, policy: &mut Policy, progs: &[Vec<Op>]) -> (String, SchedResult) {
    reset_log();
    MODE.store(mode, Ordering::SeqCst);
    let sl: Arc<SkipList<u64, u64, M>> = Arc::new(SkipList::default());
    let n = progs.len();
    let barrier = Arc::new(Barrier::new(n + 1));
    let mut handles = vec![];
    for (tid, p) in progs.iter().enumerate() {
        let sl = Arc::clone(&sl);
        let p = p.clone();
        let b = Arc::clone(&barrier);
        handles.push(std::thread::spawn(move || {
            b.wait();
            sk_worker::<M>(tid, sl, p)
        }));
    }
    barrier.wait();
    let sr = if mode == 1 {
        schedule(n, policy, 200 * est_steps(progs, M) + 1000)
    } else {
        // watchdog for free-running threads
        let t0 = Instant::now();
        let mut diverged = false;
        while !(0..n).all(|t| FIN[t].load(Ordering::Acquire)) {
            std::thread::sleep(Duration::from_micros(200));
            if t0.elapsed() > Duration::from_secs(15) {
                diverged = true;
                ABORT.store(true, Ordering::SeqCst);
                break;
            }
        }
        SchedResult { sched: vec![], choices: vec![], options: vec![], diverged }
    };
    if sr.diverged {
        // threads may be stuck inside the library: do not join, the process is about to exit
        return ("DIVERGED".to_string(), sr);
    }
    let mut outs = vec![];
    let mut used = vec![];
    for h in handles {
        let (o, u) = h.join().unwrap();
        outs.push(o.join(","));
        used.push(show_prog(&u));
    }
    MODE.store(0, Ordering::SeqCst);
    let l = log();
    let sched: Vec<String> = l.evs.iter().map(|e| e.tid.to_string()).collect();
    // programs as executed: an op that was never started (panic before) keeps its given height
    let mut progs_s = vec![];
    for (i, p) in progs.iter().enumerate() {
        let u: Vec<&str> = if used[i].is_empty() { vec![] } else { used[i].split(',').collect() };
        let given = show_prog(p);
        let g: Vec<&str> = if given.is_empty() { vec![] } else { given.split(',').collect() };
        let mut v: Vec<String> = u.iter().map(|x| x.to_string()).collect();
        for x in g.iter().skip(u.len()) {
            v.push(x.to_string());
        }
        progs_s.push(v.join(","));
    }
    let line = format!(
        "R | {} | {} | {} | {} | {} | {}",
        M,
        progs_s.join(" / "),
        sched.join(" "),
        show_events_sk(l),
        outs.join(" / "),
        sk_final(&sl)
    );
    (line, sr)
}

// --------------------------------------------------------------------------- direct oracle (stress)
#[derive(Clone, Debug)]
struct Obs {
    begin: u64,
    end: u64,
    op: Op,
    from: Option<Option<u64>>, // iterator position before the op (None = not tracked)
    res: Option<u64>,          // key at the position, or for contains 1/0
}

static STAMP: AtomicU64 = AtomicU64::new(1);
fn stamp() -> u64 {
    STAMP.fetch_add(1, Ordering::SeqCst)
}

/// Evaluate the property itself on a history: `ins` maps key -> (begin, end) of its insert.
/// completed-before(t) = inserts with end < t; started-before(t) = inserts with begin < t.
fn oracle(ins: &BTreeMap<u64, (u64, u64)>, obs: &[Vec<Obs>]) -> Result<usize, String> {
    let mut checked = 0;
    let must = |k: u64, t: u64| ins.get(&k).map(|&(_, e)| e < t).unwrap_or(false);
    let may = |k: u64, t: u64| ins.get(&k).map(|&(b, _)| b < t).unwrap_or(false);
    for th in obs.iter() {
        // full iterations: a First followed by Next until invalid
        let mut i = 0;
        while i < th.len() {
            if let Op::First = th[i].op {
                let start = th[i].begin;
                let mut ys = vec![];
                let mut j = i;
                let mut complete = false;
                loop {
                    match th[j].res {
                        Some(k) => ys.push(k),
                        None => {
                            complete = true;
                            break;
                        }
                    }
                    if j + 1 < th.len() && matches!(th[j + 1].op, Op::Next) {
                        j += 1;
                    } else {
                        break;
                    }
                }
                for w in ys.windows(2) {
                    if w[0] >= w[1] {
                        return Err(format!("iteration not strictly increasing: {} then {}", w[0], w[1]));
                    }
                }
                if complete {
                    let set: BTreeSet<u64> = ys.iter().copied().collect();
                    for (&k, &(_, e)) in ins.iter() {
                        if e < start && !set.contains(&k) {
                            return Err(format!("full iteration begun at {} misses key {} inserted by {}", start, k, e));
                        }
                    }
                    checked += 1;
                }
                i = j + 1;
            } else {
                i += 1;
            }
        }
        for o in th.iter() {
            checked += 1;
            match (&o.op, o.res) {
                (Op::Contains(k), r) => {
                    let r = r == Some(1);
                    if must(*k, o.begin) && !r {
                        return Err(format!("contains({}) = false at [{},{}] after its insert returned", k, o.begin, o.end));
                    }
                    if !may(*k, o.end) && r {
                        return Err(format!("contains({}) = true before it was inserted", k));
                    }
                }
                (Op::Insert(..), _) | (Op::Last, _) => {}
                (op, r) => {
                    // lo..hi: the open/closed interval of keys that would have been nearer
                    if let Some(y) = r {
                        if !may(y, o.end) {
                            return Err(format!("{:?} yielded key {} that was never inserted", op, y));
                        }
                    }
                    let (lo, hi): (Option<u64>, Option<u64>) = match (op, o.from) {
                        (Op::Seek(k), _) => {
                            if let Some(y) = r {
                                if y < *k {
                                    return Err(format!("seek({}) landed on smaller key {}", k, y));
                                }
                            }
                            (if *k == 0 { None } else { Some(*k - 1) }, r)
                        }
                        (Op::First, _) => (None, r),
                        (Op::Next, Some(Some(a))) => {
                            if let Some(y) = r {
                                if y <= a {
                                    return Err(format!("next from {} went to {}", a, y));
                                }
                            }
                            (Some(a), r)
                        }
                        (Op::Prev, Some(Some(a))) => {
                            if let Some(y) = r {
                                if y >= a {
                                    return Err(format!("prev from {} went to {}", a, y));
                                }
                            }
                            // keys strictly between r and a
                            for (&k, &(_, e)) in ins.range(..a).rev() {
                                if Some(k) <= r {
                                    break;
                                }
                                if e < o.begin {
                                    return Err(format!("prev from {} = {:?} skipped key {} inserted earlier", a, r, k));
                                }
                            }
                            continue;
                        }
                        _ => continue,
                    };
                    // keys strictly above lo and strictly below hi must not have been completed before
                    let lo_b = match lo {
                        None => std::ops::Bound::Unbounded,
                        Some(a) => std::ops::Bound::Excluded(a),
                    };
                    let hi_b = match hi {
                        None => std::ops::Bound::Unbounded,
                        Some(b) => std::ops::Bound::Excluded(b),
                    };
                    if let (Some(a), Some(b)) = (lo, hi) {
                        if a >= b {
                            continue;
                        }
                    }
                    for (&k, &(_, e)) in ins.range((lo_b, hi_b)) {
                        if e < o.begin {
                            return Err(format!("{:?} from {:?} = {:?} skipped key {} inserted earlier", op, o.from, r, k));
                        }
                    }
                }
            }
        }
    }
    Ok(checked)
}

fn sk_stress<const M: usize>(progs: &[Vec<Op>]) -> String {
    MODE.store(0, Ordering::SeqCst);
    {
        // the property (and the oracle) is about distinct keys
        let mut seen = HashSet::new();
        for p in progs.iter() {
            for o in p.iter() {
                if let Op::Insert(k, _) = o {
                    if !seen.insert(*k) {
                        return "SKIP duplicate keys".to_string();
                    }
                }
            }
        }
    }
    let sl: Arc<SkipList<u64, u64, M>> = Arc::new(SkipList::default());
    let n = progs.len();
    let barrier = Arc::new(Barrier::new(n));
    let mut handles = vec![];
    for p in progs.iter() {
        let sl = Arc::clone(&sl);
        let p = p.clone();
        let b = Arc::clone(&barrier);
        handles.push(std::thread::spawn(move || {
            let mut obs = Vec::with_capacity(p.len());
            let mut it = sl.iter();
            let mut cur: Option<Option<u64>> = Some(None);
            b.wait();
            for op in p.iter() {
                let from = cur;
                let begin = stamp();
                let res = match op {
                    Op::Insert(k, h) => {
                        HEIGHT.with(|x| x.set(*h));
                        sl.insert(*k, val_of(*k));
                        None
                    }
                    Op::Contains(k) => Some(sl.contains(k) as u64),
                    Op::Seek(k) => {
                        it.seek(k);
                        None
                    }
                    Op::First => {
                        it.seek_to_first();
                        None
                    }
                    Op::Last => {
                        it.seek_to_last();
                        None
                    }
                    Op::Next => {
                        it.next();
                        None
                    }
                    Op::Prev => {
                        it.prev();
                        None
                    }
                };
                let end = stamp();
                let res = match op {
                    Op::Insert(..) | Op::Contains(_) => res,
                    _ => {
                        let r = if it.is_valid() { Some(*it.key()) } else { None };
                        // "from" is only meaningful when the iterator stands on a key
                        cur = Some(r);
                        r
                    }
                };
                let from = match op {
                    Op::Next | Op::Prev => match from {
                        Some(Some(a)) => Some(Some(a)),
                        _ => None,
                    },
                    _ => None,
                };
                obs.push(Obs { begin, end, op: op.clone(), from, res });
            }
            obs
        }));
    }
    // watchdog: threads that never finish (a livelock in the library) cannot be joined
    let t0 = Instant::now();
    while !handles.iter().all(|h| h.is_finished()) {
        std::thread::sleep(Duration::from_millis(1));
        if t0.elapsed() > Duration::from_secs(25) {
            return "DIVERGED".to_string();
        }
    }
    let mut all = vec![];
    for h in handles {
        all.push(h.join().map_err(|_| "PANIC"));
    }
    if all.iter().any(|x| x.is_err()) {
        return "BAD a thread panicked".to_string();
    }
    let all: Vec<Vec<Obs>> = all.into_iter().map(|x| x.unwrap()).collect();
    let mut ins = BTreeMap::new();
    let mut dup = false;
    for th in all.iter() {
        for o in th.iter() {
            if let Op::Insert(k, _) = o.op {
                if ins.insert(k, (o.begin, o.end)).is_some() {
                    dup = true;
                }
            }
        }
    }
    if dup {
        return "SKIP duplicate keys".to_string();
    }
    // final content = exactly the inserted keys, in order
    let fin = sk_final(&sl);
    let want = ins.keys().map(|k| k.to_string()).collect::<Vec<_>>().join(",");
    if fin != want {
        return format!("BAD final iteration differs from the inserted keys: got {} keys, want {}", fin.split(',').count(), ins.len());
    }
    match oracle(&ins, &all) {
        Ok(c) => format!("OK {} observations {} keys", c, ins.len()),
        Err(e) => format!("BAD {}", e),
    }
}

// --------------------------------------------------------------------------- hammer
/// `sk-hammer MAXH r<seed> | T R K`:  R short rounds on fresh lists with hooks OFF (real threads,
/// real memory ordering).  In every round T persistent threads, released together by a spin
/// barrier, insert K keys each INTO THE SAME GAP between two pre-inserted boundary keys: thread i
/// takes lo+1+i, lo+1+i+T, ... (ascending in even rounds, descending in odd rounds), so that at
/// every moment all threads compete for the same predecessor at level 0 (and, with the heights
/// random_height picks or a forced tall tower, above).  After the round: every inserted key must
/// be found by contains and seek, and a full iteration must be exactly boundary + inserted keys.
/// A reader thread (if T >= 3, the last one) iterates instead of inserting and must see sorted keys
/// that are all legitimate.
fn sk_hammer<const M: usize>(seed: u64, t: usize, rounds: usize, k: usize) -> String {
    MODE.store(0, Ordering::SeqCst);
    let t = t.clamp(2, 12);
    let nread = if t >= 3 { 1 } else { 0 };
    let nw = t - nread;
    let lists: Arc<Vec<SkipList<u64, u64, M>>> = Arc::new((0..rounds).map(|_| SkipList::default()).collect());
    let mut rng = Rng(seed);
    let bases: Arc<Vec<(u64, usize)>> = Arc::new(
        (0..rounds)
            .map(|r| {
                let base = match rng.below(4) {
                    0 => 0,
                    1 => u64::MAX - (nw * k + 4) as u64,
                    _ => rng.below(1 << 40) * 1000,
                };
                // height policy of the round: 0 = random_height, otherwise all towers this tall
                let h = match r % 4 {
                    0 | 1 => 0,
                    2 => 1,
                    _ => M.min(1 + rng.below(M as u64) as usize),
                };
                (base, h)
            })
            .collect(),
    );
    for (r, l) in lists.iter().enumerate() {
        let (base, _) = bases[r];
        HEIGHT.with(|x| x.set(0));
        l.insert(base, val_of(base));
        l.insert(base + (nw * k) as u64 + 2, val_of(base + (nw * k) as u64 + 2));
    }
    let arrive = Arc::new(AtomicUsize::new(0));
    let bad: Arc<std::sync::Mutex<Option<String>>> = Arc::new(std::sync::Mutex::new(None));
    let mut handles = vec![];
    for tid in 0..t {
        let lists = Arc::clone(&lists);
        let bases = Arc::clone(&bases);
        let arrive = Arc::clone(&arrive);
        let bad = Arc::clone(&bad);
        handles.push(std::thread::spawn(move || {
            for r in 0..rounds {
                // spin barrier: everybody starts the round together
                arrive.fetch_add(1, Ordering::SeqCst);
                let mut spins = 0u32;
                while arrive.load(Ordering::Acquire) < (r + 1) * t {
                    relax(&mut spins);
                }
                let (base, h) = bases[r];
                let l = &lists[r];
                if tid < nw {
                    HEIGHT.with(|x| x.set(h));
                    for j in 0..k {
                        let jj = if r % 2 == 0 { j } else { k - 1 - j };
                        let key = base + 1 + (jj * nw + tid) as u64;
                        l.insert(key, val_of(key));
                    }
                } else {
                    let hi = base + (nw * k) as u64 + 2;
                    for _ in 0..3 {
                        let mut it = l.iter();
                        it.seek_to_first();
                        let mut prev: Option<u64> = None;
                        while it.is_valid() {
                            let key = *it.key();
                            if prev.map(|p| p >= key).unwrap_or(false) || key < base || key > hi {
                                let mut b = bad.lock().unwrap();
                                if b.is_none() {
                                    *b = Some(format!("round {}: concurrent iteration saw {:?} then {}", r, prev, key));
                                }
                            }
                            prev = Some(key);
                            it.next();
                        }
                    }
                }
            }
        }));
    }
    let t0 = Instant::now();
    while !handles.iter().all(|h| h.is_finished()) {
        std::thread::sleep(Duration::from_millis(1));
        if t0.elapsed() > Duration::from_secs(40) {
            return "DIVERGED".to_string();
        }
    }
    for h in handles {
        if h.join().is_err() {
            return "BAD a thread panicked".to_string();
        }
    }
    if let Some(b) = bad.lock().unwrap().take() {
        return format!("BAD {}", b);
    }
    let mut checked = 0usize;
    for (r, l) in lists.iter().enumerate() {
        let (base, h) = bases[r];
        let hi = base + (nw * k) as u64 + 2;
        let mut want: Vec<u64> = vec![base];
        want.extend((0..(nw * k) as u64).map(|i| base + 1 + i));
        want.push(hi);
        let mut got = vec![];
        let mut it = l.iter();
        it.seek_to_first();
        while it.is_valid() {
            got.push(*it.key());
            it.next();
            if got.len() > want.len() + 8 {
                break;
            }
        }
        if got != want {
            let missing: Vec<u64> = want.iter().copied().filter(|x| !got.contains(x)).take(6).collect();
            return format!(
                "BAD round {} (threads {} keys/thread {} base {} height-policy {}): full iteration has {} keys, want {}; returned inserts missing from it: {:?}",
                r, nw, k, base, h, got.len(), want.len(), missing
            );
        }
        for &key in want.iter() {
            if !l.contains(&key) {
                return format!("BAD round {}: contains({}) = false after its insert returned", r, key);
            }
            let mut it = l.iter();
            it.seek(&key);
            if !it.is_valid() || *it.key() != key {
                return format!("BAD round {}: seek({}) did not land on it", r, key);
            }
        }
        // backwards
        let mut it = l.iter();
        it.seek_to_last();
        let mut back = vec![];
        loop {
            it.prev();
            if !it.is_valid() {
                break;
            }
            back.push(*it.key());
            if back.len() > want.len() + 8 {
                break;
            }
        }
        back.reverse();
        if back != want {
            return format!("BAD round {}: backward iteration has {} keys, want {}", r, back.len(), want.len());
        }
        checked += want.len();
    }
    format!("OK {} rounds {} keys", rounds, checked)
}

// --------------------------------------------------------------------------- lifetime
/// ops (space separated):  i<k> insert | I<j> iterator j = list.iter() | C<j>:<i> iterator j =
/// iterator i .clone() | D drop the list | d<j> drop iterator j | F<j> L<j> N<j> P<j> S<j>:<k>
/// iterator ops.  Output: positions after iterator ops, `UAF` as soon as the registry sees a
/// freed node dereferenced (the case stops there), then `| live=<n>` nodes not freed at the end.
fn life_case<const M: usize>(rest: &str) -> String {
    reset_log();
    MODE.store(3, Ordering::SeqCst);
    let mut outs: Vec<String> = vec![];
    let r = catch_unwind(AssertUnwindSafe(|| {
        let mut sl: Option<SkipList<u64, u64, M>> = Some(SkipList::default());
        let mut its: HashMap<usize, SkipListIterator<u64, u64, M>> = HashMap::new();
        for tok in rest.split_whitespace() {
            let (c, a) = tok.split_at(1);
            let mut args = a.split(':');
            let j: usize = args.next().filter(|x| !x.is_empty()).map(|x| x.parse().unwrap()).unwrap_or(0);
            match c {
                "i" => {
                    if let Some(l) = sl.as_ref() {
                        HEIGHT.with(|x| x.set(0));
                        l.insert(j as u64, val_of(j as u64));
                    }
                }
                "I" => {
                    if let Some(l) = sl.as_ref() {
                        its.insert(j, l.iter());
                    }
                }
                "C" => {
                    let i: usize = args.next().unwrap().parse().unwrap();
                    if let Some(x) = its.get(&i) {
                        let y = x.clone();
                        its.insert(j, y);
                    }
                }
                "D" => {
                    sl = None;
                }
                "d" => {
                    its.remove(&j);
                }
                "F" | "L" | "N" | "P" | "S" => {
                    if let Some(it) = its.get_mut(&j) {
                        match c {
                            "F" => it.seek_to_first(),
                            "L" => it.seek_to_last(),
                            "N" => it.next(),
                            "P" => it.prev(),
                            _ => {
                                let k: u64 = args.next().unwrap().parse().unwrap();
                                it.seek(&k)
                            }
                        }
                        outs.push(pos(it));
                    } else {
                        outs.push("noiter".to_string());
                    }
                }
                _ => panic!("bad life op {}", tok),
            }
        }
        drop(its);
        drop(sl);
    }));
    let l = log();
    if !l.uaf.is_empty() {
        outs.push(format!("UAF({})", l.uaf.join(";")));
    } else if r.is_err() {
        outs.push("PANIC".to_string());
    }
    let live = l.live.len();
    MODE.store(0, Ordering::SeqCst);
    format!("{} | live={}", outs.join(" "), live)
}

/// `sk-own MAXH r<seed> | T N`:  real threads, node-lifetime registry on.  The main thread builds a
/// list of N keys and hands an `Arc<SkipList>` to T threads, then lets its own go.  Every thread
/// opens an iterator (and sometimes clones it), lets ITS `Arc<SkipList>` go at a random moment —
/// so `SkipList::drop` runs on some thread while iterators are alive on the others — and keeps
/// walking forwards and backwards with the iterators it still holds, which must show exactly the N
/// keys.  Any dereference of a freed node is reported by the registry.
fn sk_own<const M: usize>(seed: u64, t: usize, n: usize) -> String {
    reset_log();
    MODE.store(3, Ordering::SeqCst);
    let t = t.clamp(1, 12);
    let sl: Arc<SkipList<u64, u64, M>> = Arc::new(SkipList::default());
    HEIGHT.with(|x| x.set(0));
    for k in 0..n as u64 {
        sl.insert(k * 3 + 1, val_of(k * 3 + 1));
    }
    let want: Vec<u64> = (0..n as u64).map(|k| k * 3 + 1).collect();
    let mut handles = vec![];
    for tid in 0..t {
        let mine = Arc::clone(&sl);
        let want = want.clone();
        let mut rng = Rng(seed.wrapping_add(tid as u64 * 7919));
        handles.push(std::thread::spawn(move || -> Result<(), String> {
            let r = catch_unwind(AssertUnwindSafe(|| -> Result<(), String> {
                let mut it = mine.iter();
                let mut list: Option<Arc<SkipList<u64, u64, M>>> = Some(mine);
                let drop_at = rng.below(6);
                let mut clones: Vec<SkipListIterator<u64, u64, M>> = vec![];
                for round in 0..6u64 {
                    if round == drop_at {
                        list = None; // possibly the last Arc<SkipList>: SkipList::drop runs here
                    }
                    if rng.below(3) == 0 {
                        clones.push(it.clone());
                    }
                    let mut got = vec![];
                    if round % 2 == 0 {
                        it.seek_to_first();
                        while it.is_valid() {
                            got.push(*it.key());
                            it.next();
                        }
                    } else {
                        it.seek_to_last();
                        loop {
                            it.prev();
                            if !it.is_valid() {
                                break;
                            }
                            got.push(*it.key());
                        }
                        got.reverse();
                    }
                    if got != want {
                        return Err(format!("thread {} round {}: iterator shows {} keys, want {}", tid, round, got.len(), want.len()));
                    }
                    if let Some(c) = clones.last_mut() {
                        let k = want[rng.below(want.len() as u64) as usize];
                        c.seek(&k);
                        if !c.is_valid() || *c.key() != k || *c.value() != val_of(k) {
                            return Err(format!("thread {}: cloned iterator seek({}) failed", tid, k));
                        }
                    }
                    std::thread::yield_now();
                }
                drop(list);
                drop(it);
                drop(clones);
                Ok(())
            }));
            match r {
                Ok(x) => x,
                Err(_) => Err(format!("thread {} panicked", tid)),
            }
        }));
    }
    drop(sl);
    let t0 = Instant::now();
    while !handles.iter().all(|h| h.is_finished()) {
        std::thread::sleep(Duration::from_millis(1));
        if t0.elapsed() > Duration::from_secs(40) {
            return "DIVERGED".to_string();
        }
    }
    let mut errs = vec![];
    for h in handles {
        match h.join() {
            Ok(Ok(())) => {}
            Ok(Err(e)) => errs.push(e),
            Err(_) => errs.push("a thread panicked".to_string()),
        }
    }
    let l = log();
    let live = l.live.len();
    let uaf = l.uaf.clone();
    MODE.store(0, Ordering::SeqCst);
    if !uaf.is_empty() {
        return format!("BAD use after free ({}) {}", uaf.join(";"), errs.join("; "));
    }
    if !errs.is_empty() {
        return format!("BAD {}", errs.join("; "));
    }
    if live != 0 {
        return format!("BAD {} nodes were never freed although every handle is gone", live);
    }
    format!("OK {} threads {} keys", t, n)
}

// --------------------------------------------------------------------------- list cases
#[derive(Clone, Debug)]
enum LOp {
    Prepend(u64),
    Iter,
}

fn parse_lprog(s: &str) -> Vec<LOp> {
    s.split(',')
        .map(|x| x.trim())
        .filter(|x| !x.is_empty())
        .map(|x| match &x[..1] {
            "p" => LOp::Prepend(x[1..].parse().unwrap()),
            "T" => LOp::Iter,
            _ => panic!("bad list op {}", x),
        })
        .collect()
}

fn ls_worker(tid: usize, list: Arc<List<u64>>, prog: Vec<LOp>) -> Vec<String> {
    TID.with(|t| t.set(tid));
    let _done = Done(tid);
    let mut outs = vec![];
    let r = catch_unwind(AssertUnwindSafe(|| {
        for op in prog.iter() {
            plain_step(b'b', 0, 0);
            match op {
                LOp::Prepend(d) => {
                    list.prepend(*d);
                    outs.push(format!("P{}", d));
                }
                LOp::Iter => {
                    let v: Vec<String> = list.iter().map(|x| x.to_string()).collect();
                    outs.push(format!("L{}", v.join(".")));
                }
            }
        }
    }));
    if r.is_err() {
        outs.push("PANIC".to_string());
    }
    TID.with(|t| t.set(NONE));
    outs
}

fn show_events_ls(l: &Log) -> String {
    let mut out = Vec::with_capacity(l.evs.len());
    for e in l.evs.iter() {
        let n = ptr_s(l, e.node);
        out.push(match e.kind {
            b'b' => format!("{}:b", e.tid),
            b'a' => format!("{}:a{}", e.tid, n),
            b'h' => format!("{}:h={}", e.tid, ptr_s(l, e.after)),
            b'g' => format!("{}:g{}={}", e.tid, n, ptr_s(l, e.after)),
            b's' => format!("{}:s{}={}", e.tid, n, ptr_s(l, e.after)),
            _ => format!("{}:C{}>{}", e.tid, ptr_s(l, e.before), ptr_s(l, e.after)),
        });
    }
    out.join(" ")
}

fn ls_run(mode: usize, policy: &mut Policy, progs: &[Vec<LOp>]) -> (String, SchedResult) {
    reset_log();
    MODE.store(mode, Ordering::SeqCst);
    let list: Arc<List<u64>> = Arc::new(List::default());
    let n = progs.len();
    let barrier = Arc::new(Barrier::new(n + 1));
    let mut handles = vec![];
    for (tid, p) in progs.iter().enumerate() {
        let list = Arc::clone(&list);
        let p = p.clone();
        let b = Arc::clone(&barrier);
        handles.push(std::thread::spawn(move || {
            b.wait();
            ls_worker(tid, list, p)
        }));
    }
    barrier.wait();
    let est: usize = progs.iter().map(|p| p.len() * 8).sum::<usize>().max(8);
    let sr = if mode == 1 {
        schedule(n, policy, 400 * est + 1000)
    } else {
        let t0 = Instant::now();
        let mut diverged = false;
        while !(0..n).all(|t| FIN[t].load(Ordering::Acquire)) {
            std::thread::sleep(Duration::from_micros(200));
            if t0.elapsed() > Duration::from_secs(15) {
                diverged = true;
                ABORT.store(true, Ordering::SeqCst);
                break;
            }
        }
        SchedResult { sched: vec![], choices: vec![], options: vec![], diverged }
    };
    if sr.diverged {
        return ("DIVERGED".to_string(), sr);
    }
    let mut outs = vec![];
    for h in handles {
        outs.push(h.join().unwrap().join(","));
    }
    MODE.store(0, Ordering::SeqCst);
    let l = log();
    let sched: Vec<String> = l.evs.iter().map(|e| e.tid.to_string()).collect();
    let fin: Vec<String> = list.iter().map(|x| x.to_string()).collect();
    let progs_s: Vec<String> = progs
        .iter()
        .map(|p| {
            p.iter()
                .map(|o| match o {
                    LOp::Prepend(d) => format!("p{}", d),
                    LOp::Iter => "T".to_string(),
                })
                .collect::<Vec<_>>()
                .join(",")
        })
        .collect();
    let line = format!(
        "R | 0 | {} | {} | {} | {} | {}",
        progs_s.join(" / "),
        sched.join(" "),
        show_events_ls(l),
        outs.join(" / "),
        fin.join(",")
    );
    (line, sr)
}

/// list stress: hooks off; oracle evaluated here.  every element prepended before an iteration
/// began appears in it exactly once; nothing appears twice; nothing appears that was not begun
/// before the iteration ended; if prepend(a) returned before prepend(b) began, b comes before a
fn ls_stress(progs: &[Vec<LOp>]) -> String {
    MODE.store(0, Ordering::SeqCst);
    let list: Arc<List<u64>> = Arc::new(List::default());
    let n = progs.len();
    let barrier = Arc::new(Barrier::new(n));
    let mut handles = vec![];
    for p in progs.iter() {
        let list = Arc::clone(&list);
        let p = p.clone();
        let b = Arc::clone(&barrier);
        handles.push(std::thread::spawn(move || {
            let mut pre = vec![];
            let mut its = vec![];
            b.wait();
            for op in p.iter() {
                let begin = stamp();
                match op {
                    LOp::Prepend(d) => {
                        list.prepend(*d);
                        pre.push((*d, begin, stamp()));
                    }
                    LOp::Iter => {
                        let v: Vec<u64> = list.iter().copied().collect();
                        its.push((begin, stamp(), v));
                    }
                }
            }
            (pre, its)
        }));
    }
    let t0 = Instant::now();
    while !handles.iter().all(|h| h.is_finished()) {
        std::thread::sleep(Duration::from_millis(1));
        if t0.elapsed() > Duration::from_secs(25) {
            return "DIVERGED".to_string();
        }
    }
    let mut pre = HashMap::new();
    let mut its = vec![];
    for h in handles {
        match h.join() {
            Ok((p, i)) => {
                for (d, b, e) in p {
                    if pre.insert(d, (b, e)).is_some() {
                        return "SKIP duplicate data".to_string();
                    }
                }
                its.extend(i);
            }
            Err(_) => return "BAD a thread panicked".to_string(),
        }
    }
    let fin: Vec<u64> = list.iter().copied().collect();
    its.push((stamp(), stamp(), fin.clone()));
    if fin.len() != pre.len() {
        return format!("BAD final length {} for {} prepends", fin.len(), pre.len());
    }
    let mut checked = 0;
    for (b, e, v) in its.iter() {
        let mut seen = HashSet::new();
        for d in v.iter() {
            if !seen.insert(*d) {
                return format!("BAD element {} appears twice in one iteration", d);
            }
            match pre.get(d) {
                Some(&(pb, _)) if pb < *e => {}
                _ => return format!("BAD element {} iterated but never prepended", d),
            }
        }
        for (d, &(_, pe)) in pre.iter() {
            if pe < *b && !seen.contains(d) {
                return format!("BAD iteration begun at {} misses element {} prepended by {}", b, d, pe);
            }
        }
        // newest first
        for w in v.windows(2) {
            let (_, e_first) = pre[&w[0]];
            let (b_second, _) = pre[&w[1]];
            if e_first < b_second {
                return format!("BAD {} precedes {} although its prepend returned before the other began", w[0], w[1]);
            }
        }
        checked += 1;
    }
    format!("OK {} iterations {} elements", checked, pre.len())
}

/// `ls-hammer 0 r<seed> | T R K`: R short rounds, hooks off: T threads released together prepend
/// K elements each to a fresh list; afterwards the list must hold every element exactly once and
/// the elements of one thread must appear newest first.
fn ls_hammer(t: usize, rounds: usize, k: usize) -> String {
    MODE.store(0, Ordering::SeqCst);
    let t = t.clamp(2, 12);
    let lists: Arc<Vec<List<u64>>> = Arc::new((0..rounds).map(|_| List::default()).collect());
    let arrive = Arc::new(AtomicUsize::new(0));
    let mut handles = vec![];
    for tid in 0..t {
        let lists = Arc::clone(&lists);
        let arrive = Arc::clone(&arrive);
        handles.push(std::thread::spawn(move || {
            for r in 0..rounds {
                arrive.fetch_add(1, Ordering::SeqCst);
                let mut spins = 0u32;
                while arrive.load(Ordering::Acquire) < (r + 1) * t {
                    relax(&mut spins);
                }
                for j in 0..k {
                    lists[r].prepend((tid * k + j) as u64);
                }
            }
        }));
    }
    let t0 = Instant::now();
    while !handles.iter().all(|h| h.is_finished()) {
        std::thread::sleep(Duration::from_millis(1));
        if t0.elapsed() > Duration::from_secs(40) {
            return "DIVERGED".to_string();
        }
    }
    for h in handles {
        if h.join().is_err() {
            return "BAD a thread panicked".to_string();
        }
    }
    for (r, l) in lists.iter().enumerate() {
        let got: Vec<u64> = l.iter().copied().collect();
        let mut sorted = got.clone();
        sorted.sort();
        let want: Vec<u64> = (0..(t * k) as u64).collect();
        if sorted != want {
            let missing: Vec<u64> = want.iter().copied().filter(|x| !got.contains(x)).take(6).collect();
            return format!("BAD round {} (threads {} elements/thread {}): the list holds {} elements, want {}; returned prepends missing: {:?}", r, t, k, got.len(), want.len(), missing);
        }
        for tid in 0..t {
            let mine: Vec<u64> = got.iter().copied().filter(|x| (*x as usize) / k == tid).collect();
            if mine.windows(2).any(|w| w[0] < w[1]) {
                return format!("BAD round {}: the elements of thread {} are not newest first: {:?}", r, tid, mine);
            }
        }
    }
    format!("OK {} rounds {} elements", rounds, rounds * t * k)
}

// --------------------------------------------------------------------------- main
macro_rules! with_maxh {
    ($m:expr, $f:ident, $($a:expr),*) => {
        match $m {
            1 => $f::<1>($($a),*),
            2 => $f::<2>($($a),*),
            3 => $f::<3>($($a),*),
            4 => $f::<4>($($a),*),
            5 => $f::<5>($($a),*),
            8 => $f::<8>($($a),*),
            12 => $f::<12>($($a),*),
            _ => panic!("unsupported MAX_HEIGHT"),
        }
    };
}

fn next_choices(sr: &SchedResult) -> Option<Vec<usize>> {
    let mut i = sr.choices.len();
    while i > 0 {
        i -= 1;
        if sr.choices[i] + 1 < sr.options[i] {
            let mut cv = sr.choices[..i].to_vec();
            cv.push(sr.choices[i] + 1);
            return Some(cv);
        }
    }
    None
}

fn main() {
    hx::quiet_panics();
    skipfree::verif::set_hook(Some(sk_hook));
    skipfree::verif::set_height_hook(Some(sk_height));
    listfree::verif::set_hook(Some(ls_hook));
    let stdin = std::io::stdin();
    let stdout = std::io::stdout();
    let mut out = std::io::BufWriter::new(stdout.lock());
    for line in stdin.lock().lines() {
        let line = line.unwrap();
        let (head, body) = match line.split_once('|') {
            Some((h, b)) => (h.trim().to_string(), b.trim().to_string()),
            None => (line.trim().to_string(), String::new()),
        };
        let hw: Vec<&str> = head.split_whitespace().collect();
        if hw.is_empty() {
            writeln!(out).unwrap();
            continue;
        }
        let mode = hw[0];
        let maxh: usize = hw.get(1).map(|x| x.parse().unwrap()).unwrap_or(12);
        let pol = hw.get(2).copied().unwrap_or("r1");
        let mut fatal = false;
        match mode {
            "sk-sched" | "sk-free" => {
                let progs: Vec<Vec<Op>> = body.split('/').map(parse_prog).collect();
                let m = if mode == "sk-sched" { 1 } else { 2 };
                if pol.starts_with('x') && m == 1 {
                    let limit: usize = pol[1..].parse().unwrap_or(100000);
                    let mut cv: Vec<usize> = vec![];
                    let mut count = 0;
                    loop {
                        let mut p = Policy::Choices(cv.clone());
                        let (l, sr) = with_maxh!(maxh, sk_run, m, &mut p, &progs);
                        writeln!(out, "{}", l).unwrap();
                        count += 1;
                        if sr.diverged {
                            fatal = true;
                            break;
                        }
                        match next_choices(&sr) {
                            Some(n) if count < limit => cv = n,
                            Some(_) => {
                                writeln!(out, "END {} truncated", count).unwrap();
                                break;
                            }
                            None => {
                                writeln!(out, "END {} complete", count).unwrap();
                                break;
                            }
                        }
                    }
                } else {
                    let mut p = parse_policy(pol, progs.len(), est_steps(&progs, maxh));
                    let (l, sr) = with_maxh!(maxh, sk_run, m, &mut p, &progs);
                    writeln!(out, "{}", l).unwrap();
                    fatal = sr.diverged;
                }
            }
            "sk-stress" => {
                let progs: Vec<Vec<Op>> = body.split('/').map(parse_prog).collect();
                let l = with_maxh!(maxh, sk_stress, &progs);
                fatal = l == "DIVERGED";
                writeln!(out, "{}", l).unwrap();
            }
            "sk-hammer" => {
                let a: Vec<usize> = body.split_whitespace().map(|x| x.parse().unwrap()).collect();
                let seed: u64 = pol[1..].parse().unwrap_or(1);
                let l = with_maxh!(maxh, sk_hammer, seed, a[0], a[1], a[2]);
                fatal = l == "DIVERGED";
                writeln!(out, "{}", l).unwrap();
            }
            "sk-own" => {
                let a: Vec<usize> = body.split_whitespace().map(|x| x.parse().unwrap()).collect();
                let seed: u64 = pol[1..].parse().unwrap_or(1);
                let l = with_maxh!(maxh, sk_own, seed, a[0], a[1]);
                fatal = l == "DIVERGED";
                writeln!(out, "{}", l).unwrap();
            }
            "sk-life" => {
                let l = with_maxh!(maxh, life_case, &body);
                writeln!(out, "{}", l).unwrap();
            }
            "sk-iso" => {
                let l = with_maxh!(maxh, iso_case, &body);
                writeln!(out, "{}", l).unwrap();
            }
            "ls-sched" | "ls-free" => {
                let progs: Vec<Vec<LOp>> = body.split('/').map(parse_lprog).collect();
                let m = if mode == "ls-sched" { 1 } else { 2 };
                if pol.starts_with('x') && m == 1 {
                    let limit: usize = pol[1..].parse().unwrap_or(100000);
                    let mut cv: Vec<usize> = vec![];
                    let mut count = 0;
                    loop {
                        let mut p = Policy::Choices(cv.clone());
                        let (l, sr) = ls_run(m, &mut p, &progs);
                        writeln!(out, "{}", l).unwrap();
                        count += 1;
                        if sr.diverged {
                            fatal = true;
                            break;
                        }
                        match next_choices(&sr) {
                            Some(n) if count < limit => cv = n,
                            Some(_) => {
                                writeln!(out, "END {} truncated", count).unwrap();
                                break;
                            }
                            None => {
                                writeln!(out, "END {} complete", count).unwrap();
                                break;
                            }
                        }
                    }
                } else {
                    let est: usize = progs.iter().map(|p| p.len() * 8).sum();
                    let mut p = parse_policy(pol, progs.len(), est);
                    let (l, sr) = ls_run(m, &mut p, &progs);
                    writeln!(out, "{}", l).unwrap();
                    fatal = sr.diverged;
                }
            }
            "ls-hammer" => {
                let a: Vec<usize> = body.split_whitespace().map(|x| x.parse().unwrap()).collect();
                let l = ls_hammer(a[0], a[1], a[2]);
                fatal = l == "DIVERGED";
                writeln!(out, "{}", l).unwrap();
            }
            "ls-stress" => {
                let progs: Vec<Vec<LOp>> = body.split('/').map(parse_lprog).collect();
                let l = ls_stress(&progs);
                fatal = l == "DIVERGED";
                writeln!(out, "{}", l).unwrap();
            }
            _ => writeln!(out, "BADMODE").unwrap(),
        }
        out.flush().unwrap();
        if fatal {
            // threads are stuck inside the library; nothing more can be run in this process
            std::process::exit(3);
        }
    }
    out.flush().unwrap();
}
