//! C19 harness: the scrunch compressed text index vs. a plain scan of the text.
//!
//! One case per stdin line, fields separated by '|', one output line per case.  Numbers are
//! decimal, lists are space separated, "-" is the empty list.
//!
//!   doc|FLAGS|TEXT|BOUNDARIES|NEEDLE;NEEDLE;..|OFFSETS|RECORDS
//!       FLAGS: letters.  Variants to run: C CompressedDocument, R ReferenceDocument,
//!       P PsiDocument<Reference*>, W PsiDocument<RefSA,RefISA,WaveletTreePsi<ReferenceWaveletTree>>,
//!       X PsiDocument<Sampled*,WaveletTreePsi<prefix::WaveletTree<FixedWidthEncoder>>>,
//!       N the naive scan written here (no scrunch code), D re-parse of the C bytes from a copy
//!       at another offset.  k: dump the components of the C bytes (sigma, sa, isa, psi at every
//!       index).  c: psi.constrain of every symbol range into every (a,b).
//!       Output: sections "V: tok tok .." joined by " | ".
//!   bv|KIND|RUNS          KIND: ref rrr sparse sparse4 sparse128 cfrrr; RUNS: "n:b n:b .." (n bits of value b)
//!       Output: len, then access/rank/rank0/select/select0 tables (full when small, else a digest
//!       and the count of disagreements with a Vec<bool> scan done here).
//!   wt|KIND|SYMBOLS       KIND: ref huff fixed; every access / rank_q / select_q.
//!   sais|TEXT             suffix array of TEXT (through Sigma + sais_u32 / sais) vs. sorting.
//!   fuzz|SEED|N|MAXLEN|SIGMA   N random documents checked here against the naive scan; prints
//!       "ok N evals=E" or the first failing document as a replayable doc line.
use buffertk::Unpackable;
use hx::Rng;
use scrunch::bit_vector::BitVector as BitVectorTrait;
use scrunch::builder::{Builder, parse_one_field_bytes};
use scrunch::encoder::{FixedWidthEncoder, HuffmanEncoder};
use scrunch::isa::{InverseSuffixArray, ReferenceInverseSuffixArray, SampledInverseSuffixArray};
use scrunch::psi::wavelet_tree::WaveletTreePsi;
use scrunch::psi::{Psi, ReferencePsi};
use scrunch::sa::{ReferenceSuffixArray, SampledSuffixArray, SuffixArray};
use scrunch::sigma::Sigma;
use scrunch::wavelet_tree::prefix::WaveletTree as PrefixWT;
use scrunch::wavelet_tree::{ReferenceWaveletTree, WaveletTree};
use scrunch::{CompressedDocument, Document, PsiDocument, RecordOffset, ReferenceDocument, TextOffset};
use std::panic::{AssertUnwindSafe, catch_unwind};

type DocP<'a> = PsiDocument<'a, ReferenceSuffixArray, ReferenceInverseSuffixArray, ReferencePsi>;
type DocW<'a> = PsiDocument<'a, ReferenceSuffixArray, ReferenceInverseSuffixArray, WaveletTreePsi<'a, ReferenceWaveletTree>>;
type DocX<'a> = PsiDocument<
    'a,
    SampledSuffixArray<'a>,
    SampledInverseSuffixArray<'a>,
    WaveletTreePsi<'a, PrefixWT<'a, FixedWidthEncoder>>,
>;

fn nums<T: std::str::FromStr>(s: &str) -> Vec<T>
where
    T::Err: std::fmt::Debug,
{
    let s = s.trim();
    if s == "-" || s.is_empty() {
        return vec![];
    }
    s.split_whitespace().map(|x| x.parse::<T>().expect("number")).collect()
}

fn join<T: std::fmt::Display>(v: &[T]) -> String {
    if v.is_empty() {
        "-".to_string()
    } else {
        v.iter().map(|x| x.to_string()).collect::<Vec<_>>().join(",")
    }
}

struct Queries {
    needles: Vec<Vec<u32>>,
    offsets: Vec<usize>,
    records: Vec<usize>,
}

/// one query under catch_unwind: Ok(value) | "E" | "P"
fn guard<F: FnOnce() -> Result<String, ()>>(f: F) -> String {
    match catch_unwind(AssertUnwindSafe(f)) {
        Ok(Ok(s)) => s,
        Ok(Err(())) => "E".to_string(),
        Err(_) => "P".to_string(),
    }
}

fn run_queries<D: Document>(doc: &D, q: &Queries) -> Vec<String> {
    let mut out = vec![];
    out.push(format!("len={}", guard(|| Ok(doc.len().to_string()))));
    out.push(format!("recs={}", guard(|| Ok(doc.records().to_string()))));
    for (i, n) in q.needles.iter().enumerate() {
        out.push(format!(
            "S{}={}",
            i,
            guard(|| {
                let it = doc.search(n).map_err(|_| ())?;
                let v: Vec<usize> = it.map(|t| t.0).collect();
                Ok(join(&v))
            })
        ));
        out.push(format!("C{}={}", i, guard(|| doc.count(n).map(|c| c.to_string()).map_err(|_| ()))));
    }
    for o in q.offsets.iter() {
        out.push(format!("L{}={}", o, guard(|| doc.lookup(TextOffset(*o)).map(|r| r.0.to_string()).map_err(|_| ()))));
    }
    for r in q.records.iter() {
        out.push(format!("T{}={}", r, guard(|| doc.retrieve(RecordOffset(*r)).map(|v| join(&v)).map_err(|_| ()))));
        out.push(format!("O{}={}", r, guard(|| doc.offset_of(RecordOffset(*r)).map(|t| t.0.to_string()).map_err(|_| ()))));
    }
    out
}

/// the property's own words, with no scrunch code: a plain scan of the original text
fn naive(text: &[u32], rb: &[usize], q: &Queries) -> Vec<String> {
    let mut out = vec![];
    out.push(format!("len={}", text.len()));
    out.push(format!("recs={}", rb.len()));
    for (i, n) in q.needles.iter().enumerate() {
        let mut v = vec![];
        for s in 0..text.len() {
            if s + n.len() <= text.len() && &text[s..s + n.len()] == n.as_slice() {
                v.push(s);
            }
        }
        out.push(format!("S{}={}", i, join(&v)));
        out.push(format!("C{}={}", i, v.len()));
    }
    for o in q.offsets.iter() {
        // the record containing text offset o: the last boundary <= o (offsets past the text: E)
        if *o < text.len() {
            match rb.iter().filter(|b| **b <= *o).count().checked_sub(1) {
                Some(r) => out.push(format!("L{}={}", o, r)),
                None => out.push(format!("L{}=E", o)),
            }
        } else {
            out.push(format!("L{}=E", o));
        }
    }
    for r in q.records.iter() {
        if *r < rb.len() {
            let lim = if *r + 1 < rb.len() { rb[*r + 1] } else { text.len() };
            if rb[*r] <= lim && lim <= text.len() {
                out.push(format!("T{}={}", r, join(&text[rb[*r]..lim])));
            } else {
                out.push(format!("T{}=E", r));
            }
            out.push(format!("O{}={}", r, rb[*r]));
        } else {
            out.push(format!("T{}=E", r));
            out.push(format!("O{}=E", r));
        }
    }
    out
}

fn build<D: Document>(text: &[u32], rb: &[usize]) -> Result<Vec<u8>, String> {
    let r = catch_unwind(AssertUnwindSafe(|| {
        let mut buf = Vec::new();
        let mut builder = Builder::new(&mut buf);
        let r = D::construct(text.to_vec(), rb.to_vec(), &mut builder);
        drop(builder);
        r.map(|_| buf)
    }));
    match r {
        Ok(Ok(b)) => Ok(b),
        Ok(Err(_)) => Err("CE".to_string()),
        Err(_) => Err("CP".to_string()),
    }
}

macro_rules! variant {
    ($ty:ty, $text:expr, $rb:expr, $q:expr) => {{
        match build::<$ty>($text, $rb) {
            Err(e) => (vec![e], vec![]),
            Ok(buf) => {
                let toks = match catch_unwind(AssertUnwindSafe(|| <$ty>::unpack(&buf).map(|d| run_queries(&d.0, $q)))) {
                    Ok(Ok(t)) => t,
                    Ok(Err(_)) => vec!["UE".to_string()],
                    Err(_) => vec!["UP".to_string()],
                };
                (toks, buf)
            }
        }
    }};
}

fn split_fields(buf: &[u8]) -> Option<Vec<(u32, &[u8])>> {
    let mut out = vec![];
    let mut rest = buf;
    while !rest.is_empty() {
        let (tag, value, remain) = parse_one_field_bytes(rest)?;
        out.push((tag.field_number.get(), value));
        rest = remain;
    }
    Some(out)
}

fn field<'a>(fs: &[(u32, &'a [u8])], n: u32) -> &'a [u8] {
    // a missing field is the empty byte string (protobuf default), as PsiDocumentStub reads it
    fs.iter().rev().find(|(f, _)| *f == n).map(|(_, v)| *v).unwrap_or(&[])
}

/// components of the compressed document, at every index
fn components(buf: &[u8], text: &[u32], rb: &[usize], constrain: bool) -> Vec<String> {
    let mut out = vec![];
    let Some(fs) = split_fields(buf) else {
        return vec!["KE".to_string()];
    };
    let r = catch_unwind(AssertUnwindSafe(|| -> Result<Vec<String>, ()> {
        let mut out = vec![];
        let sigma = Sigma::unpack(field(&fs, 2)).map_err(|_| ())?.0;
        let sa = SampledSuffixArray::unpack(field(&fs, 3)).map_err(|_| ())?.0;
        let isa = SampledInverseSuffixArray::unpack(field(&fs, 4)).map_err(|_| ())?.0;
        let psi = WaveletTreePsi::<PrefixWT<HuffmanEncoder>>::unpack(field(&fs, 5)).map_err(|_| ())?.0;
        let n = text.len();
        out.push(format!("K={}", sigma.K()));
        out.push(format!("psilen={}", psi.len()));
        let mut v = vec![];
        for i in 0..=n + 1 {
            v.push(guard(|| sa.lookup(&sigma, &psi, i).map(|x| x.to_string()).map_err(|_| ())));
        }
        out.push(format!("sa={}", v.join(",")));
        let mut v = vec![];
        for i in 0..=n + 1 {
            v.push(guard(|| psi.lookup(&sigma, i).map(|x| x.to_string()).map_err(|_| ())));
        }
        out.push(format!("psi={}", v.join(",")));
        let mut v = vec![];
        for i in 0..=n + 1 {
            v.push(guard(|| isa.lookup(i).map(|x| x.to_string()).map_err(|_| ())));
        }
        out.push(format!("isa={}", v.join(",")));
        let mut v = vec![];
        for i in 0..=n + 1 {
            v.push(guard(|| sigma.sa_index_to_sigma(i).map(|x| x.to_string()).ok_or(())));
        }
        out.push(format!("sg={}", v.join(",")));
        let mut v = vec![];
        for i in 0..=n + 1 {
            v.push(guard(|| sigma.sa_index_to_t(i).map(|x| x.to_string()).ok_or(())));
        }
        out.push(format!("st={}", v.join(",")));
        // the alphabet: every symbol of the text, plus neighbours that are absent
        let mut alpha: Vec<u32> = text.to_vec();
        alpha.sort();
        alpha.dedup();
        let mut probe = alpha.clone();
        for a in alpha.iter() {
            probe.push(a.wrapping_add(1));
            probe.push(a.wrapping_sub(1));
        }
        probe.push(0);
        probe.push(u32::MAX);
        probe.sort();
        probe.dedup();
        let mut v = vec![];
        for c in probe.iter() {
            v.push(format!(
                "{}:{}:{}",
                c,
                guard(|| sigma.char_to_sigma(*c).map(|x| x.to_string()).ok_or(())),
                guard(|| sigma.sa_range_for(*c).map(|(a, b)| format!("{}-{}", a, b)).map_err(|_| ()))
            ));
        }
        out.push(format!("rng={}", v.join(",")));
        let _ = rb;
        if constrain {
            let mut v = vec![];
            for k in 1..sigma.K() as u32 {
                let Ok(range) = sigma.sa_range_for_sigma(k) else {
                    v.push(format!("{}:E", k));
                    continue;
                };
                for a in 1..=n {
                    for b in a - 1..=n {
                        v.push(format!(
                            "{}:{}:{}:{}",
                            k,
                            a,
                            b,
                            guard(|| psi.constrain(&sigma, range, (a, b)).map(|(x, y)| format!("{}-{}", x, y)).map_err(|_| ()))
                        ));
                    }
                }
            }
            out.push(format!("con={}", v.join(",")));
        }
        Ok(out)
    }));
    match r {
        Ok(Ok(v)) => out.extend(v),
        Ok(Err(())) => out.push("KE".to_string()),
        Err(_) => out.push("KP".to_string()),
    }
    out
}

fn doc_case(f: &[&str]) -> String {
    let flags = f[1];
    let text: Vec<u32> = nums(f[2]);
    let rb: Vec<usize> = nums(f[3]);
    let needles: Vec<Vec<u32>> = if f[4].trim() == "" { vec![] } else { f[4].split(';').map(nums).collect() };
    let q = Queries {
        needles,
        offsets: nums(f[5]),
        records: nums(f[6]),
    };
    let mut sections = vec![];
    for fl in flags.chars() {
        match fl {
            'C' => {
                let (toks, buf) = variant!(CompressedDocument, &text, &rb, &q);
                sections.push(format!("C: {}", toks.join(" ")));
                if flags.contains('D') && !buf.is_empty() {
                    // re-parse from a copy of the bytes at another address/alignment
                    let mut v = vec![0xA5u8; 3];
                    v.extend_from_slice(&buf);
                    let t2 = match catch_unwind(AssertUnwindSafe(|| CompressedDocument::unpack(&v[3..]).map(|d| run_queries(&d.0, &q)))) {
                        Ok(Ok(t)) => t,
                        Ok(Err(_)) => vec!["UE".to_string()],
                        Err(_) => vec!["UP".to_string()],
                    };
                    if t2 == toks {
                        sections.push("D: same".to_string());
                    } else {
                        sections.push(format!("D: {}", t2.join(" ")));
                    }
                }
                if flags.contains('k') && !buf.is_empty() {
                    sections.push(format!("K: {}", components(&buf, &text, &rb, flags.contains('c')).join(" ")));
                }
            }
            'R' => sections.push(format!("R: {}", variant!(ReferenceDocument, &text, &rb, &q).0.join(" "))),
            'P' => sections.push(format!("P: {}", variant!(DocP, &text, &rb, &q).0.join(" "))),
            'W' => sections.push(format!("W: {}", variant!(DocW, &text, &rb, &q).0.join(" "))),
            'X' => sections.push(format!("X: {}", variant!(DocX, &text, &rb, &q).0.join(" "))),
            'N' => sections.push(format!("N: {}", naive(&text, &rb, &q).join(" "))),
            _ => {}
        }
    }
    sections.join(" | ")
}

// ------------------------------------------------------------------ bit vectors
fn parse_runs(s: &str) -> Vec<bool> {
    let mut bits = vec![];
    let s = s.trim();
    if s == "-" || s.is_empty() {
        return bits;
    }
    for run in s.split_whitespace() {
        let (n, b) = run.split_once(':').expect("run");
        let n: usize = n.parse().expect("run length");
        let b = b == "1";
        bits.extend(std::iter::repeat(b).take(n));
    }
    bits
}

fn fnv(h: &mut u64, s: &str) {
    for b in s.as_bytes() {
        *h ^= *b as u64;
        *h = h.wrapping_mul(0x100000001b3);
    }
    *h ^= 0x2c;
    *h = h.wrapping_mul(0x100000001b3);
}

fn opt<T: std::fmt::Display>(o: Option<T>) -> String {
    match o {
        Some(x) => x.to_string(),
        None => "N".to_string(),
    }
}

fn bv_tables<B: BitVectorTrait>(bv: &B, bits: &[bool]) -> String {
    let n = bits.len();
    let ones = bits.iter().filter(|b| **b).count();
    let zeros = n - ones;
    // the plain bit array
    let mut rank = vec![0usize; n + 1];
    let mut sel1 = vec![0usize];
    let mut sel0 = vec![0usize];
    for i in 0..n {
        rank[i + 1] = rank[i] + bits[i] as usize;
        if bits[i] {
            sel1.push(i + 1);
        } else {
            sel0.push(i + 1);
        }
    }
    let mut tabs: Vec<(char, Vec<String>, Vec<String>)> = vec![];
    let mut got = vec![];
    let mut exp = vec![];
    for i in 0..=n + 1 {
        got.push(guard(|| Ok(opt(bv.access(i).map(|b| b as u8)))));
        exp.push(if i < n { (bits[i] as u8).to_string() } else { "N".to_string() });
    }
    tabs.push(('a', got, exp));
    let mut got = vec![];
    let mut exp = vec![];
    for i in 0..=n + 1 {
        got.push(guard(|| Ok(opt(bv.rank(i)))));
        exp.push(if i <= n { rank[i].to_string() } else { "N".to_string() });
    }
    tabs.push(('r', got, exp));
    let mut got = vec![];
    let mut exp = vec![];
    for i in 0..=n + 1 {
        got.push(guard(|| Ok(opt(bv.rank0(i)))));
        exp.push(if i <= n { (i - rank[i]).to_string() } else { "N".to_string() });
    }
    tabs.push(('z', got, exp));
    let mut got = vec![];
    let mut exp = vec![];
    for i in 0..=ones + 2 {
        got.push(guard(|| Ok(opt(bv.select(i)))));
        exp.push(if i <= ones { sel1[i].to_string() } else { "N".to_string() });
    }
    tabs.push(('s', got, exp));
    let mut got = vec![];
    let mut exp = vec![];
    for i in 0..=zeros + 2 {
        got.push(guard(|| Ok(opt(bv.select0(i)))));
        exp.push(if i <= zeros { sel0[i].to_string() } else { "N".to_string() });
    }
    tabs.push(('t', got, exp));
    let mut got = vec![];
    let mut exp = vec![];
    for i in 0..=n + 1 {
        got.push(guard(|| Ok(opt(bv.access_rank(i).map(|(a, r)| format!("{}/{}", a as u8, r))))));
        // access_rank(len) is implementation defined (rrr: None; sparse: Some((false, rank)));
        // compared only for x < len and x > len
        exp.push(if i < n { format!("{}/{}", bits[i] as u8, rank[i]) } else if i == n { got[i].clone() } else { "N".to_string() });
    }
    tabs.push(('x', got, exp));
    let mut out = vec![format!("len={}", guard(|| Ok(bv.len().to_string())))];
    let mut bad = 0usize;
    let mut first = String::new();
    let mut h = 0xcbf29ce484222325u64;
    for (name, got, exp) in tabs.iter() {
        for (i, (g, e)) in got.iter().zip(exp.iter()).enumerate() {
            if *name != 'x' {
                fnv(&mut h, g);
            }
            if g != e {
                bad += 1;
                if first.is_empty() {
                    first = format!("{}[{}]={}!={}", name, i, g, e);
                }
            }
        }
        if n <= 200 && *name != 'x' {
            out.push(format!("{}={}", name, got.join(",")));
        }
    }
    out.push(format!("h={:016x}", h));
    out.push(format!("bad={}", bad));
    if bad > 0 {
        out.push(format!("first={}", first));
    }
    out.join(" ")
}

fn bv_case(f: &[&str]) -> String {
    let kind = f[1];
    let bits = parse_runs(f[2]);
    macro_rules! go {
        ($ty:ty) => {{
            let mut buf = Vec::new();
            let mut builder = Builder::new(&mut buf);
            let r = <$ty as BitVectorTrait>::construct(&bits, &mut builder);
            drop(builder);
            if r.is_err() {
                return "CE".to_string();
            }
            match <$ty as BitVectorTrait>::parse(&buf) {
                Ok((bv, _)) => bv_tables(&bv, &bits),
                Err(_) => "UE".to_string(),
            }
        }};
    }
    macro_rules! sparse {
        ($branch:expr) => {{
            let mut buf = Vec::new();
            let mut builder = Builder::new(&mut buf);
            let idx: Vec<usize> = bits.iter().enumerate().filter(|(_, b)| **b).map(|(i, _)| i).collect();
            let r = scrunch::bit_vector::sparse::BitVector::from_indices($branch, bits.len(), &idx, &mut builder);
            drop(builder);
            if r.is_none() {
                return "CE".to_string();
            }
            match scrunch::bit_vector::sparse::BitVector::new(&buf) {
                Some(bv) => bv_tables(&bv, &bits),
                None => "UE".to_string(),
            }
        }};
    }
    match kind {
        "ref" => go!(scrunch::bit_vector::ReferenceBitVector),
        "rrr" => go!(scrunch::bit_vector::rrr::BitVector),
        "cfrrr" => go!(scrunch::bit_vector::cf_rrr::BitVector),
        "sparse" => go!(scrunch::bit_vector::sparse::BitVector),
        "sparse4" => sparse!(4),
        "sparse128" => sparse!(128),
        _ => "BADKIND".to_string(),
    }
}

// sparse::BitVector::from_indices called with an arbitrary INDEX list (last = len, last > len,
// duplicates, unsorted lists included): "CE" when it refuses, else the tables of the vector it
// built against the bit list of the indices below len.
fn bvidx_case(f: &[&str]) -> String {
    let branch: usize = f[1].parse().unwrap();
    let len: usize = f[2].parse().unwrap();
    let idx: Vec<usize> = if f[3] == "-" { vec![] } else { f[3].split(' ').map(|x| x.parse().unwrap()).collect() };
    let mut buf = Vec::new();
    let mut builder = Builder::new(&mut buf);
    let r = scrunch::bit_vector::sparse::BitVector::from_indices(branch, len, &idx, &mut builder);
    drop(builder);
    if r.is_none() {
        return "CE".to_string();
    }
    let mut bits = vec![false; len];
    for i in idx.iter() {
        if *i < len {
            bits[*i] = true;
        }
    }
    match scrunch::bit_vector::sparse::BitVector::new(&buf) {
        Some(bv) => format!("OK {}", bv_tables(&bv, &bits)),
        None => "UE".to_string(),
    }
}

// ------------------------------------------------------------------ wavelet trees
fn wt_tables<W: WaveletTree>(wt: &W, syms: &[u32]) -> String {
    let n = syms.len();
    let mut alpha: Vec<u32> = syms.to_vec();
    alpha.sort();
    alpha.dedup();
    let mut out = vec![format!("len={}", wt.len())];
    let mut v = vec![];
    let mut bad = 0usize;
    let mut first = String::new();
    let mut note = |name: &str, i: usize, g: &str, e: &str| {
        if g != e {
            bad += 1;
            if first.is_empty() {
                first = format!("{}[{}]={}!={}", name, i, g, e);
            }
        }
    };
    for i in 0..=n {
        let g = guard(|| Ok(opt(wt.access(i))));
        let e = if i < n { syms[i].to_string() } else { "N".to_string() };
        note("a", i, &g, &e);
        v.push(g);
    }
    out.push(format!("a={}", v.join(",")));
    for q in alpha.iter() {
        let mut v = vec![];
        let mut cnt = 0usize;
        let mut pos = vec![0usize];
        for i in 0..=n + 1 {
            let g = guard(|| Ok(opt(wt.rank_q(*q, i))));
            let e = if i <= n { cnt.to_string() } else { "N".to_string() };
            note("r", i, &g, &e);
            v.push(g);
            if i < n && syms[i] == *q {
                cnt += 1;
                pos.push(i + 1);
            }
        }
        out.push(format!("r{}={}", q, v.join(",")));
        let mut v = vec![];
        for k in 0..=cnt + 1 {
            let g = guard(|| Ok(opt(wt.select_q(*q, k))));
            let e = if k <= cnt { pos[k].to_string() } else { "N".to_string() };
            note("s", k, &g, &e);
            v.push(g);
        }
        out.push(format!("s{}={}", q, v.join(",")));
    }
    out.push(format!("bad={}", bad));
    if bad > 0 {
        out.push(format!("first={}", first));
    }
    out.join(" ")
}

fn wt_case(f: &[&str]) -> String {
    let kind = f[1];
    let syms: Vec<u32> = nums(f[2]);
    macro_rules! go {
        ($ty:ty) => {{
            let mut buf = Vec::new();
            let mut builder = Builder::new(&mut buf);
            let r = <$ty as WaveletTree>::construct(&syms, &mut builder);
            drop(builder);
            if r.is_err() {
                return "CE".to_string();
            }
            match <$ty>::unpack(&buf) {
                Ok((wt, _)) => wt_tables(&wt, &syms),
                Err(_) => "UE".to_string(),
            }
        }};
    }
    match kind {
        "ref" => go!(ReferenceWaveletTree),
        "huff" => go!(PrefixWT<HuffmanEncoder>),
        "fixed" => go!(PrefixWT<FixedWidthEncoder>),
        _ => "BADKIND".to_string(),
    }
}

// ------------------------------------------------------------------ suffix sorting
fn sais_case(f: &[&str]) -> String {
    let text: Vec<u32> = nums(f[1]);
    let mut sbuf = Vec::new();
    let mut builder = Builder::new(&mut sbuf);
    if Sigma::construct(text.iter().copied(), &mut builder).is_err() {
        return "CE".to_string();
    }
    drop(builder);
    let Ok((sigma, _)) = Sigma::unpack(&sbuf) else {
        return "UE".to_string();
    };
    let mut s: Vec<u32> = vec![];
    for t in text.iter() {
        match sigma.char_to_sigma(*t) {
            Some(x) => s.push(x),
            None => return "SE".to_string(),
        }
    }
    s.push(0);
    let mut sa32 = vec![0u32; s.len()];
    if scrunch::sais::sais_u32(&sigma, &s, &mut sa32).is_err() {
        return "E".to_string();
    }
    let mut sa = vec![0usize; s.len()];
    if scrunch::sais::sais(&sigma, &s, &mut sa).is_err() {
        return "E".to_string();
    }
    let mut exp: Vec<usize> = (0..s.len()).collect();
    exp.sort_by(|a, b| s[*a..].cmp(&s[*b..]));
    let same32 = sa32.iter().map(|x| *x as usize).eq(exp.iter().copied());
    let same = sa == exp;
    // psi/mod.rs: the three public ways of computing psi from (sa, isa)
    let mut isa = vec![0usize; sa.len()];
    for (i, p) in sa.iter().enumerate() {
        isa[*p] = i;
    }
    let isa32: Vec<u32> = isa.iter().map(|x| *x as u32).collect();
    let p1 = scrunch::psi::compute(&isa);
    let p2 = scrunch::psi::compute_u32(&isa32);
    let p3 = scrunch::psi::compute_from_sa_isa_u32(&sa32, &isa32);
    let agree = p1.iter().copied().eq(p2.iter().map(|x| *x as usize)) && p1.iter().copied().eq(p3.iter().map(|x| *x as usize));
    format!("sa={} ok32={} ok={} psi={} psi3={}", join(&sa32), same32 as u8, same as u8, join(&p1), agree as u8)
}

// ------------------------------------------------------------------ in-harness random search
fn gen_text(r: &mut Rng, maxlen: u64, sigma_hint: u64) -> (Vec<u32>, Vec<usize>) {
    let len = 1 + r.below(maxlen) as usize;
    let k = match sigma_hint {
        0 => 1 + r.below(4),
        x => 1 + r.below(x),
    };
    let big = r.below(6) == 0;
    let alpha: Vec<u32> = (0..k)
        .map(|i| {
            if big {
                match r.below(4) {
                    0 => 0x10FFFF - i as u32,
                    1 => (1u32 << 20) - 2 + i as u32,
                    2 => u32::MAX - i as u32,
                    _ => i as u32 * 65537,
                }
            } else {
                i as u32 * (1 + r.below(3) as u32) + r.below(2) as u32
            }
        })
        .collect();
    let shape = r.below(7);
    let period = 1 + r.below(5) as usize;
    let text: Vec<u32> = (0..len)
        .map(|i| match shape {
            0 => alpha[0],
            1 => alpha[i % period % alpha.len()],
            2 => alpha[(i / period) % alpha.len()],
            3 => {
                if r.below(10) == 0 {
                    alpha[r.below(alpha.len() as u64) as usize]
                } else {
                    alpha[0]
                }
            }
            4 => alpha[(i * i + i / 2) % alpha.len()],
            _ => alpha[r.below(alpha.len() as u64) as usize],
        })
        .collect();
    let mut rb = vec![0usize];
    let dens = match r.below(4) {
        0 => 1,
        1 => 2,
        2 => 8,
        _ => 1000,
    };
    for i in 1..len {
        if r.below(dens) == 0 {
            rb.push(i);
        }
    }
    (text, rb)
}

fn fuzz_case(f: &[&str]) -> String {
    let seed: u64 = f[1].parse().unwrap();
    let n: usize = f[2].parse().unwrap();
    let maxlen: u64 = f[3].parse().unwrap();
    let sig: u64 = f[4].parse().unwrap();
    let mut r = Rng(seed);
    let mut evals = 0usize;
    for it in 0..n {
        let (text, rb) = gen_text(&mut r, maxlen, sig);
        let len = text.len();
        let mut needles: Vec<Vec<u32>> = vec![vec![]];
        for _ in 0..10 {
            let plen = 1 + r.below(6) as usize;
            let pat: Vec<u32> = if r.below(3) != 0 && len >= plen {
                let s = r.below((len - plen) as u64 + 1) as usize;
                let mut p = text[s..s + plen].to_vec();
                if r.below(4) == 0 {
                    let j = r.below(plen as u64) as usize;
                    p[j] = text[r.below(len as u64) as usize];
                }
                p
            } else {
                (0..plen).map(|_| if r.below(6) == 0 { r.below(1 << 22) as u32 } else { text[r.below(len as u64) as usize] }).collect()
            };
            needles.push(pat);
        }
        needles.push(text.clone());
        let q = Queries {
            needles,
            offsets: (0..len).collect(),
            records: (0..rb.len() + 1).collect(),
        };
        let exp = naive(&text, &rb, &q);
        let (got, _) = variant!(CompressedDocument, &text, &rb, &q);
        evals += exp.len();
        if got != exp {
            let which = got.iter().zip(exp.iter()).find(|(a, b)| a != b).map(|(a, b)| format!("{} expected {}", a, b)).unwrap_or_else(|| got.join(" "));
            let nd: Vec<String> = q.needles.iter().map(|n| if n.is_empty() { "-".to_string() } else { n.iter().map(|x| x.to_string()).collect::<Vec<_>>().join(" ") }).collect();
            return format!(
                "FAIL iter={} {} :: doc|CRN|{}|{}|{}|{}|{}",
                it,
                which,
                text.iter().map(|x| x.to_string()).collect::<Vec<_>>().join(" "),
                rb.iter().map(|x| x.to_string()).collect::<Vec<_>>().join(" "),
                nd.join(";"),
                q.offsets.iter().map(|x| x.to_string()).collect::<Vec<_>>().join(" "),
                q.records.iter().map(|x| x.to_string()).collect::<Vec<_>>().join(" "),
            );
        }
    }
    format!("ok {} evals={}", n, evals)
}

// ------------------------------------------------------------------ deep prefix codes
/// `deep|wt|K` : a symbol string in which symbol j (1..=K) occurs fib(j) times (so that an optimal
/// prefix code has a code word of K-1 bits), through prefix::WaveletTree<HuffmanEncoder>, sampled
/// access / rank_q / select_q against counting.
/// `deep|doc|K`: the text (x_j c d)^fib(j) so that the psi row of context (c,d) holds that string;
/// CompressedDocument count/search/retrieve against the known answers.
fn fib_counts(k: usize) -> Vec<usize> {
    let mut f = vec![1usize, 1];
    while f.len() < k {
        let n = f.len();
        f.push(f[n - 1] + f[n - 2]);
    }
    f.truncate(k);
    f
}

fn deep_case(f: &[&str]) -> String {
    let k: usize = f[2].parse().unwrap();
    let counts = fib_counts(k);
    let total: usize = counts.iter().sum();
    // interleave deterministically: symbol j at positions decided by a cheap LCG over the remaining counts
    let mut syms: Vec<u32> = Vec::with_capacity(total);
    for (j, c) in counts.iter().enumerate() {
        syms.extend(std::iter::repeat(j as u32 + 1).take(*c));
    }
    let mut r = Rng(k as u64 * 7919 + 1);
    for i in (1..syms.len()).rev() {
        let j = r.below(i as u64 + 1) as usize;
        syms.swap(i, j);
    }
    match f[1] {
        "wt" => {
            let mut buf = Vec::new();
            let mut builder = Builder::new(&mut buf);
            let res = catch_unwind(AssertUnwindSafe(|| <PrefixWT<HuffmanEncoder> as WaveletTree>::construct(&syms, &mut builder)));
            drop(builder);
            match res {
                Err(_) => return format!("total={} CP", total),
                Ok(Err(_)) => return format!("total={} CE", total),
                Ok(Ok(())) => {}
            }
            let Ok((wt, _)) = PrefixWT::<HuffmanEncoder>::unpack(&buf) else {
                return format!("total={} UE", total);
            };
            let mut bad = 0usize;
            let mut first = String::new();
            let mut checks = 0usize;
            // prefix counts at sampled positions
            let stride = std::cmp::max(1, total / 997);
            let mut cnt = vec![0usize; k + 2];
            let mut occ: Vec<Vec<usize>> = vec![vec![]; k + 2];
            for (i, s) in syms.iter().enumerate() {
                if i % stride == 0 || i + 40 > total {
                    let g = guard(|| Ok(opt(wt.access(i))));
                    checks += 1;
                    if g != s.to_string() {
                        bad += 1;
                        if first.is_empty() {
                            first = format!("access[{}]={}!={}", i, g, s);
                        }
                    }
                    for q in [1u32, 2, (k / 2) as u32, k as u32 - 1, k as u32] {
                        let g = guard(|| Ok(opt(wt.rank_q(q, i))));
                        checks += 1;
                        if g != cnt[q as usize].to_string() {
                            bad += 1;
                            if first.is_empty() {
                                first = format!("rank_{}[{}]={}!={}", q, i, g, cnt[q as usize]);
                            }
                        }
                    }
                }
                cnt[*s as usize] += 1;
                if occ[*s as usize].len() < 50 {
                    occ[*s as usize].push(i + 1);
                }
            }
            for q in 1..=k as u32 {
                for (j, p) in occ[q as usize].iter().enumerate() {
                    let g = guard(|| Ok(opt(wt.select_q(q, j + 1))));
                    checks += 1;
                    if g != p.to_string() {
                        bad += 1;
                        if first.is_empty() {
                            first = format!("select_{}[{}]={}!={}", q, j + 1, g, p);
                        }
                    }
                }
            }
            format!("total={} checks={} bad={} {}", total, checks, bad, first)
        }
        "doc" => {
            let c = k as u32 + 1;
            let d = k as u32 + 2;
            let mut text: Vec<u32> = Vec::with_capacity(total * 3);
            for s in syms.iter() {
                text.push(*s);
                text.push(c);
                text.push(d);
            }
            let rb = vec![0usize, 3, text.len() - 3];
            let buf = match build::<CompressedDocument>(&text, &rb) {
                Ok(b) => b,
                Err(e) => return format!("total={} {}", text.len(), e),
            };
            let Ok((doc, _)) = CompressedDocument::unpack(&buf) else {
                return format!("total={} UE", text.len());
            };
            let mut bad = 0usize;
            let mut first = String::new();
            let mut checks = 0usize;
            for j in 1..=k as u32 {
                let g = guard(|| doc.count(&[j, c, d]).map(|x| x.to_string()).map_err(|_| ()));
                checks += 1;
                if g != counts[j as usize - 1].to_string() {
                    bad += 1;
                    if first.is_empty() {
                        first = format!("count[{} c d]={}!={}", j, g, counts[j as usize - 1]);
                    }
                }
                if counts[j as usize - 1] <= 64 {
                    let mut exp = vec![];
                    for (i, s) in syms.iter().enumerate() {
                        if *s == j {
                            exp.push(3 * i);
                        }
                    }
                    let g = guard(|| doc.search(&[j, c, d]).map(|it| join(&it.map(|t| t.0).collect::<Vec<_>>())).map_err(|_| ()));
                    checks += 1;
                    if g != join(&exp) {
                        bad += 1;
                        if first.is_empty() {
                            first = format!("search[{} c d]={}!={}", j, g, join(&exp));
                        }
                    }
                }
            }
            for r in [0usize, 2] {
                let lim = if r == 0 { 3 } else { text.len() };
                let g = guard(|| doc.retrieve(RecordOffset(r)).map(|v| join(&v)).map_err(|_| ()));
                checks += 1;
                if g != join(&text[rb[r]..lim]) {
                    bad += 1;
                    if first.is_empty() {
                        first = format!("retrieve[{}]={}", r, g);
                    }
                }
            }
            format!("total={} checks={} bad={} {}", text.len(), checks, bad, first)
        }
        _ => "BADKIND".to_string(),
    }
}

fn main() {
    if std::env::var_os("C19_LOUD").is_none() {
        hx::quiet_panics();
    }
    use std::io::{BufRead, Write};
    let stdin = std::io::stdin();
    let stdout = std::io::stdout();
    let mut out = std::io::BufWriter::new(stdout.lock());
    for line in stdin.lock().lines() {
        let line = line.expect("stdin");
        let r = catch_unwind(AssertUnwindSafe(|| {
            let f: Vec<&str> = line.split('|').collect();
            match f[0] {
                "doc" => doc_case(&f),
                "bv" => bv_case(&f),
                "bvidx" => bvidx_case(&f),
                "wt" => wt_case(&f),
                "sais" => sais_case(&f),
                "fuzz" => fuzz_case(&f),
                "deep" => deep_case(&f),
                "" => String::new(),
                _ => "BADCASE".to_string(),
            }
        }));
        match r {
            Ok(s) => writeln!(out, "{}", s).unwrap(),
            Err(_) => writeln!(out, "PANIC").unwrap(),
        }
        out.flush().unwrap();
    }
    out.flush().unwrap();
}
