//! C11 harness with storage errors: as c11.rs, plus leaves whose calls return Err on schedule, and a run continues after a call returned Err.
//!
//! One case per line:   EXPR | PROG
//! EXPR (prefix token stream, space separated):
//!   T n e1 .. en        ReferenceTable cursor over n entries
//!   L n e1 .. en        LazyCursor over an SstCursor of a real SST file holding the n entries
//!   M n EXPR*n          MergingCursor over n children
//!   C n EXPR*n          ConcatenatingCursor over n children
//!   B lo hi EXPR        BoundsCursor; lo/hi = U | I:HEX | X:HEX
//!   P ts EXPR           PruningCursor at timestamp ts
//!   F n SCHED e1 .. en  ReferenceTable cursor whose calls number SCHED (comma list, 1-based, `-` = none)
//!                       of seek_to_first/seek_to_last/seek/prev/next return Err without moving it
//!   O n SCHED e1 .. en  LazyCursor over a real SST whose opens number SCHED return Err
//!   K n TABLE*n        lsmtk's compaction input: MergingCursor::<SstCursor>::new over n real SSTs (TABLE = m e1..em)
//!   G n TABLE*n        lsmtk's garbage-collection cursor: that cursor after seek_to_first(); clone(); next()
//! entry:  KEYHEX@TS=VALHEX   or   KEYHEX@TS~   (tombstone)
//! PROG tokens: F (seek_to_first) E (seek_to_last) S:HEX (seek) N (next) V (prev)
//!
//! Output: key_value() right after construction and after every call, space separated:
//!   `-` (None) | KEYHEX@TS=VALHEX | KEYHEX@TS~ ; a call returning Err prints ERR and the case goes on
//!   (a constructor returning Err prints ERR and ends it); a panic prints PANIC and ends the case.
use hx::{hex, unhex};
use sst::bounds_cursor::BoundsCursor;
use sst::concat_cursor::ConcatenatingCursor;
use sst::lazy_cursor::LazyCursor;
use sst::merging_cursor::MergingCursor;
use sst::pruning_cursor::PruningCursor;
use sst::reference::ReferenceBuilder;
use sst::{Builder, Cursor, Sst, SstBuilder, SstOptions};
use std::ops::Bound;
use std::path::PathBuf;
use std::sync::Mutex;

struct FailingCursor {
    inner: sst::reference::ReferenceCursor,
    calls: usize,
    fails: Vec<usize>,
}

impl FailingCursor {
    fn tick(&mut self) -> Result<(), sst::SError> {
        self.calls += 1;
        if self.fails.contains(&self.calls) {
            Err(sst::SError::new("injected"))
        } else {
            Ok(())
        }
    }
}

impl Cursor for FailingCursor {
    fn seek_to_first(&mut self) -> Result<(), sst::SError> {
        self.tick()?;
        self.inner.seek_to_first()
    }
    fn seek_to_last(&mut self) -> Result<(), sst::SError> {
        self.tick()?;
        self.inner.seek_to_last()
    }
    fn seek(&mut self, key: &[u8]) -> Result<(), sst::SError> {
        self.tick()?;
        self.inner.seek(key)
    }
    fn prev(&mut self) -> Result<(), sst::SError> {
        self.tick()?;
        self.inner.prev()
    }
    fn next(&mut self) -> Result<(), sst::SError> {
        self.tick()?;
        self.inner.next()
    }
    fn key(&self) -> Option<sst::KeyRef<'_>> {
        self.inner.key()
    }
    fn value(&self) -> Option<&[u8]> {
        self.inner.value()
    }
}

fn parse_sched(t: &str) -> Vec<usize> {
    if t == "-" { vec![] } else { t.split(',').map(|x| x.parse().expect("sched")).collect() }
}

struct Ctx {
    dir: PathBuf,
    nfile: usize,
}

type Entry = (Vec<u8>, u64, Option<Vec<u8>>);

fn parse_entry(t: &str) -> Entry {
    let at = t.find('@').expect("entry @");
    let key = unhex_e(&t[..at]);
    let rest = &t[at + 1..];
    if let Some(ts) = rest.strip_suffix('~') {
        (key, ts.parse().expect("ts"), None)
    } else {
        let eq = rest.find('=').expect("entry =");
        (key, rest[..eq].parse().expect("ts"), Some(unhex_e(&rest[eq + 1..])))
    }
}

fn unhex_e(s: &str) -> Vec<u8> {
    if s.is_empty() { vec![] } else { unhex(s) }
}

fn parse_bound(t: &str) -> Bound<Vec<u8>> {
    if t == "U" {
        Bound::Unbounded
    } else if let Some(h) = t.strip_prefix("I:") {
        Bound::Included(unhex_e(h))
    } else if let Some(h) = t.strip_prefix("X:") {
        Bound::Excluded(unhex_e(h))
    } else {
        panic!("bad bound")
    }
}

fn entries<'a>(it: &mut impl Iterator<Item = &'a str>) -> Vec<Entry> {
    let n: usize = it.next().expect("n").parse().expect("n");
    (0..n).map(|_| parse_entry(it.next().expect("entry"))).collect()
}

fn build<'a>(it: &mut impl Iterator<Item = &'a str>, ctx: &mut Ctx) -> Result<Box<dyn Cursor>, String> {
    let t = it.next().expect("expr");
    match t {
        "T" => {
            let mut b = ReferenceBuilder::default();
            for (k, ts, v) in entries(it) {
                match v {
                    Some(v) => b.put(&k, ts, &v).map_err(|_| "ERR".to_string())?,
                    None => b.del(&k, ts).map_err(|_| "ERR".to_string())?,
                }
            }
            let table = b.seal().map_err(|_| "ERR".to_string())?;
            Ok(Box::new(table.cursor()))
        }
        "F" => {
            let n: usize = it.next().expect("n").parse().expect("n");
            let fails = parse_sched(it.next().expect("sched"));
            let mut b = ReferenceBuilder::default();
            for _ in 0..n {
                let (k, ts, v) = parse_entry(it.next().expect("entry"));
                match v {
                    Some(v) => b.put(&k, ts, &v).map_err(|_| "ERR".to_string())?,
                    None => b.del(&k, ts).map_err(|_| "ERR".to_string())?,
                }
            }
            let table = b.seal().map_err(|_| "ERR".to_string())?;
            Ok(Box::new(FailingCursor { inner: table.cursor(), calls: 0, fails }))
        }
        "L" | "O" => {
            let (es, fails) = if t == "O" {
                let n: usize = it.next().expect("n").parse().expect("n");
                let fails = parse_sched(it.next().expect("sched"));
                ((0..n).map(|_| parse_entry(it.next().expect("entry"))).collect::<Vec<_>>(), fails)
            } else {
                (entries(it), vec![])
            };
            std::fs::create_dir_all(&ctx.dir).expect("mkdir");
            ctx.nfile += 1;
            let path = ctx.dir.join(format!("{}.sst", ctx.nfile));
            let _ = std::fs::remove_file(&path);
            let mut b = SstBuilder::new(SstOptions::default(), &path).map_err(|_| "ERR".to_string())?;
            for (k, ts, v) in es {
                match v {
                    Some(v) => b.put(&k, ts, &v).map_err(|_| "ERR".to_string())?,
                    None => b.del(&k, ts).map_err(|_| "ERR".to_string())?,
                }
            }
            b.seal().map_err(|_| "ERR".to_string())?;
            let p2 = path.clone();
            let mut opens = 0usize;
            let lazy = LazyCursor::new(move || {
                opens += 1;
                if fails.contains(&opens) {
                    return Err(sst::SError::new("injected"));
                }
                Sst::<sst::file_manager::FileHandle>::new(SstOptions::default(), &p2).map(|s| s.cursor())
            });
            Ok(Box::new(lazy))
        }
        "K" | "G" => {
            // the nestings of lsmtk's compaction_setup / perform_garbage_collection, with the same
            // constructor calls over real SstCursors:  MergingCursor::<SstCursor>::new(cursors)
            let n: usize = it.next().expect("n").parse().expect("n");
            let mut cursors: Vec<sst::SstCursor> = Vec::new();
            for _ in 0..n {
                let es = entries(it);
                std::fs::create_dir_all(&ctx.dir).expect("mkdir");
                ctx.nfile += 1;
                let path = ctx.dir.join(format!("{}.sst", ctx.nfile));
                let _ = std::fs::remove_file(&path);
                let mut b = SstBuilder::new(SstOptions::default(), &path).map_err(|_| "ERR".to_string())?;
                for (k, ts, v) in es {
                    match v {
                        Some(v) => b.put(&k, ts, &v).map_err(|_| "ERR".to_string())?,
                        None => b.del(&k, ts).map_err(|_| "ERR".to_string())?,
                    }
                }
                let sst = b.seal().map_err(|_| "ERR".to_string())?;
                cursors.push(sst.cursor());
            }
            let mut cursor = MergingCursor::new(cursors).map_err(|_| "ERR".to_string())?;
            if t == "K" {
                Ok(Box::new(cursor))
            } else {
                cursor.seek_to_first().map_err(|_| "ERR".to_string())?;
                let mut gc_cursor = cursor.clone();
                gc_cursor.next().map_err(|_| "ERR".to_string())?;
                Ok(Box::new(gc_cursor))
            }
        }
        "M" | "C" => {
            let n: usize = it.next().expect("n").parse().expect("n");
            let mut kids = Vec::new();
            for _ in 0..n {
                kids.push(build(it, ctx)?);
            }
            if t == "M" {
                Ok(Box::new(MergingCursor::new(kids).map_err(|_| "ERR".to_string())?))
            } else {
                Ok(Box::new(ConcatenatingCursor::new(kids).map_err(|_| "ERR".to_string())?))
            }
        }
        "B" => {
            let lo = parse_bound(it.next().expect("lo"));
            let hi = parse_bound(it.next().expect("hi"));
            let kid = build(it, ctx)?;
            Ok(Box::new(BoundsCursor::new(kid, &lo, &hi).map_err(|_| "ERR".to_string())?))
        }
        "P" => {
            let ts: u64 = it.next().expect("ts").parse().expect("ts");
            let kid = build(it, ctx)?;
            Ok(Box::new(PruningCursor::new(kid, ts).map_err(|_| "ERR".to_string())?))
        }
        _ => panic!("bad expr token {}", t),
    }
}

fn show(c: &dyn Cursor) -> String {
    // key() and value() separately: KeyValueRef's PartialEq ignores the value
    match (c.key(), c.value()) {
        (None, _) => "-".to_string(),
        (Some(k), Some(v)) => format!("{}@{}={}", hex(k.key), k.timestamp, hex(v)),
        (Some(k), None) => format!("{}@{}~", hex(k.key), k.timestamp),
    }
}

fn main() {
    hx::quiet_panics();
    use std::io::{BufRead, Write};
    let dir = PathBuf::from(format!("/dev/shm/c11f.{}", std::process::id()));
    let stdin = std::io::stdin();
    let stdout = std::io::stdout();
    let mut out = std::io::BufWriter::new(stdout.lock());
    let mut ctx = Ctx { dir: dir.clone(), nfile: 0 };
    for line in stdin.lock().lines() {
        let line = line.unwrap();
        let outs = Mutex::new(Vec::<String>::new());
        let r = std::panic::catch_unwind(std::panic::AssertUnwindSafe(|| {
            let mut parts = line.splitn(2, '|');
            let expr = parts.next().unwrap_or("");
            let prog = parts.next().unwrap_or("");
            let mut it = expr.split_whitespace();
            let mut c = match build(&mut it, &mut ctx) {
                Ok(c) => c,
                Err(e) => {
                    outs.lock().unwrap().push(e);
                    return;
                }
            };
            outs.lock().unwrap().push(show(c.as_ref()));
            for op in prog.split_whitespace() {
                let r = match op {
                    "F" => c.seek_to_first(),
                    "E" => c.seek_to_last(),
                    "N" => c.next(),
                    "V" => c.prev(),
                    _ => {
                        let h = op.strip_prefix("S:").expect("bad op");
                        c.seek(&unhex_e(h))
                    }
                };
                if r.is_err() {
                    outs.lock().unwrap().push("ERR".to_string());
                } else {
                    outs.lock().unwrap().push(show(c.as_ref()));
                }
            }
        }));
        let mut o = outs.into_inner().unwrap();
        if r.is_err() {
            o.push("PANIC".to_string());
        }
        writeln!(out, "{}", o.join(" ")).unwrap();
        if ctx.nfile > 0 {
            let _ = std::fs::remove_dir_all(&dir);
            ctx.nfile = 0;
        }
    }
    out.flush().unwrap();
    let _ = std::fs::remove_dir_all(&dir);
}
