//! c03: a copy of lsm.rs (drives one *session* of a real lsmtk::KeyValueStore from a script on stdin
//! and prints what it observes, one line per op) extended for property C03 (range scans).
//! A session is open .. exit (there is no clean close: the store's threads never return, so
//! `reopen` in a history is process exit + a new session on the same dir).
//!
//! usage: c03 <dir> [lsmtk option flags...]
//! ops (one per line, keys/values hex, `-` = empty):
//!   put K V | del K | batch K=V,K=~,...   (~ = delete) | get K | getall K,K,...
//!   scan LO HI PROG     KeyValueStore::range_scan; bounds: U | I<hex> | E<hex> ;
//!                       PROG: comma list of F L N P S<hex>, `_` = the empty program.
//!                       -> `SCAN o0 o1 .. on`: o0 = observation of the freshly returned cursor,
//!                       then one per call; o = `.` | key=value (`~` = tombstone value); after an
//!                       Err from a call ` err:<class>` is printed and the program stops.
//!   tscan LO HI PROG    the same through LsmTree::range_scan (the tree alone) -> `TSCAN ...`
//!   scanget LO HI K,K,..  range_scan cursor walked forward to the end (seek_to_first, next*),
//!                       THEN kvs.load of every listed key -> `SCANGET n k=v k=v ... | g g g`
//!   flush | compact | peek | state | dump | ls | sleep MS
//! The memtable thread is the real one (flush = verif_request_flush + verif_wait_flush);
//! compaction is single-stepped through LsmTree::verif_compaction_step.
use std::collections::HashSet;
use std::io::{BufRead, Write};
use std::ops::Bound;
use std::sync::Arc;

use arrrg::CommandLine;
use hx::{hex, unhex};
use lsmtk::{KeyValueStore, LsmtkOptions, WriteBatch};
use sst::Cursor;

/// the name of the memtable thread for gates (lsmtk verif_events)
const MEMTABLE_TID: u64 = 7;

fn hx0(b: &[u8]) -> String {
    if b.is_empty() { "-".to_string() } else { hex(b) }
}

fn err_class(e: &lsmtk::SError) -> String {
    let s = e.to_string();
    // canonical: the error code if present, else a short prefix
    match lsmtk::error_code(e) {
        Some(c) => c.to_string(),
        None => {
            let t: String = s.chars().filter(|c| !c.is_whitespace()).take(60).collect();
            // codes of other crates appear as (code xyz)
            if let Some(i) = s.find("(code ") {
                let rest = &s[i + 6..];
                let end = rest.find(')').unwrap_or(rest.len());
                rest[..end].trim().trim_matches('"').to_string()
            } else {
                t
            }
        }
    }
}

fn bound(s: &str) -> Bound<Vec<u8>> {
    match s.as_bytes()[0] {
        b'U' => Bound::Unbounded,
        b'I' => Bound::Included(unhex(&s[1..])),
        b'E' => Bound::Excluded(unhex(&s[1..])),
        _ => panic!("bad bound"),
    }
}

fn obs_kv(kv: &sst::KeyValueRef) -> String {
    format!("{}@{}={}", hx0(kv.key), kv.timestamp, match kv.value { Some(v) => hx0(v), None => "~".to_string() })
}

fn obs(c: &impl Cursor) -> String {
    match c.key_value() {
        Some(kv) => obs_kv(&kv),
        None => ".".to_string(),
    }
}

/// the observation of the cursor as returned, then after every call of the program
fn run_prog(tag: &str, c: &mut impl Cursor, prog: &str) -> String {
    let mut s = tag.to_string();
    s.push(' ');
    s.push_str(&obs(c));
    if prog == "_" {
        return s;
    }
    for step in prog.split(',') {
        let r = match step.as_bytes()[0] {
            b'F' => c.seek_to_first(),
            b'L' => c.seek_to_last(),
            b'N' => c.next(),
            b'P' => c.prev(),
            b'S' => c.seek(&unhex(&step[1..])),
            _ => panic!("bad step"),
        };
        match r {
            Err(e) => { s.push_str(&format!(" err:{}", err_class(&e))); break; }
            Ok(()) => { s.push(' '); s.push_str(&obs(c)); }
        }
    }
    s
}

fn print_files(out: &mut impl Write, root: &str, kvs: &KeyValueStore, seen: &mut HashSet<String>) {
    let dump = kvs.verif_tree().verif_dump();
    for (_, md) in dump.iter() {
        let name = hex(&md.setsum);
        if seen.insert(name.clone()) {
            let path = format!("{root}/sst/{name}.sst");
            let mut line = format!("FILE {name}");
            match sst::Sst::<sst::file_manager::FileHandle>::new(sst::SstOptions::default(), &path) {
                Ok(sst) => {
                    let mut c = sst.cursor();
                    let mut ok = c.seek_to_first().is_ok();
                    while ok {
                        if c.next().is_err() {
                            line.push_str(" ERR");
                            break;
                        }
                        match c.key_value() {
                            Some(kv) => {
                                line.push_str(&format!(
                                    " {}:{}:{}",
                                    hx0(kv.key),
                                    kv.timestamp,
                                    match kv.value { Some(v) => hx0(v), None => "~".to_string() }
                                ));
                            }
                            None => { ok = false; }
                        }
                    }
                }
                Err(e) => line.push_str(&format!(" OPENERR:{}", err_class(&e))),
            }
            writeln!(out, "{line}").unwrap();
        }
    }
    let mut line = "DUMP".to_string();
    for (lvl, md) in dump.iter() {
        line.push_str(&format!(
            " {}:{}:{}:{}:{}:{}:{}",
            lvl, hex(&md.setsum), hx0(&md.first_key), hx0(&md.last_key),
            md.smallest_timestamp, md.biggest_timestamp, md.file_size
        ));
    }
    writeln!(out, "{line}").unwrap();
}

fn ls(root: &str) -> String {
    let mut parts = vec![];
    for sub in ["sst", "trash", "tmp", "compaction", "ingest", ""] {
        let mut names: Vec<String> = match std::fs::read_dir(format!("{root}/{sub}")) {
            Ok(rd) => rd.filter_map(|e| e.ok()).filter(|e| sub != "" || e.file_name().to_string_lossy().starts_with("log."))
                .map(|e| e.file_name().to_string_lossy().to_string()).collect(),
            Err(_) => vec!["?".to_string()],
        };
        names.sort();
        parts.push(format!("{}={}", if sub == "" { "root" } else { sub }, names.join(",")));
    }
    parts.join(" ")
}

fn main() {
    let args: Vec<String> = std::env::args().collect();
    let root = args[1].clone();
    let mut a: Vec<&str> = vec!["--path", &root];
    for e in args[2..].iter() {
        a.push(e);
    }
    let stdout = std::io::stdout();
    let mut out = std::io::BufWriter::new(stdout.lock());
    hx::quiet_panics();
    let o = LsmtkOptions::from_arguments_relaxed("c03", &a).0;
    let opened = std::panic::catch_unwind(|| KeyValueStore::open(o));
    let kvs = match opened {
        Ok(Ok(k)) => Arc::new(k),
        Ok(Err(e)) => {
            writeln!(out, "OPEN err {}", err_class(&e)).unwrap();
            out.flush().unwrap();
            std::process::exit(0);
        }
        Err(_) => {
            writeln!(out, "OPEN PANIC").unwrap();
            out.flush().unwrap();
            std::process::exit(0);
        }
    };
    writeln!(out, "OPEN ok").unwrap();
    out.flush().unwrap();
    {
        let k2 = Arc::clone(&kvs);
        std::thread::spawn(move || {
            KeyValueStore::verif_set_tid(MEMTABLE_TID);
            let r = std::panic::catch_unwind(std::panic::AssertUnwindSafe(|| k2.memtable_thread()));
            let msg = match r {
                Ok(Ok(())) => "ok".to_string(),
                Ok(Err(e)) => format!("err {}", err_class(&e)),
                Err(_) => "PANIC".to_string(),
            };
            println!("THREAD memtable {msg}");
        });
    }
    let mut seen = HashSet::new();
    let stdin = std::io::stdin();
    for line in stdin.lock().lines() {
        let line = line.unwrap();
        let t: Vec<&str> = line.split_whitespace().collect();
        if t.is_empty() {
            continue;
        }
        let kvs2 = Arc::clone(&kvs);
        let r = std::panic::catch_unwind(std::panic::AssertUnwindSafe(|| -> String {
            let kvs = &kvs2;
            match t[0] {
                "put" => match kvs.put(&unhex(t[1]), &unhex(t[2])) { Ok(()) => "PUT ok".into(), Err(e) => format!("PUT err {}", err_class(&e)) },
                "del" => match kvs.del(&unhex(t[1])) { Ok(()) => "DEL ok".into(), Err(e) => format!("DEL err {}", err_class(&e)) },
                "batch" => {
                    let mut wb = WriteBatch::default();
                    for kv in t[1].split(',') {
                        let (k, v) = kv.split_once('=').unwrap();
                        if v == "~" { wb.del(&unhex(k)); } else { wb.put(&unhex(k), &unhex(v)); }
                    }
                    match kvs.write(wb) { Ok(()) => "BATCH ok".into(), Err(e) => format!("BATCH err {}", err_class(&e)) }
                }
                "get" | "getall" => {
                    let mut s = "GET".to_string();
                    for k in t[1].split(',') {
                        let mut tomb = false;
                        match kvs.load(&unhex(k), &mut tomb) {
                            Ok(Some(v)) => s.push_str(&format!(" {}", hx0(&v))),
                            Ok(None) => s.push_str(if tomb { " ~" } else { " ." }),
                            Err(e) => s.push_str(&format!(" err:{}", err_class(&e))),
                        }
                    }
                    s
                }
                "scan" => {
                    let lo = bound(t[1]);
                    let hi = bound(t[2]);
                    match kvs.range_scan(&lo, &hi) {
                        Err(e) => format!("SCAN err {}", err_class(&e)),
                        Ok(mut c) => run_prog("SCAN", &mut c, t[3]),
                    }
                }
                "tscan" => {
                    let lo = bound(t[1]);
                    let hi = bound(t[2]);
                    match kvs.verif_tree().range_scan(&lo, &hi) {
                        Err(e) => format!("TSCAN err {}", err_class(&e)),
                        Ok(mut c) => run_prog("TSCAN", &mut c, t[3]),
                    }
                }
                "scanget" => {
                    let lo = bound(t[1]);
                    let hi = bound(t[2]);
                    match kvs.range_scan(&lo, &hi) {
                        Err(e) => format!("SCANGET err {}", err_class(&e)),
                        Ok(mut c) => {
                            // forward walk to the end, bounded so that a cursor that never ends is an output
                            let mut items: Vec<String> = vec![];
                            let mut tail = String::new();
                            match c.seek_to_first() {
                                Err(e) => tail = format!(" err:{}", err_class(&e)),
                                Ok(()) => loop {
                                    if items.len() > 100000 { tail = " err:endless".to_string(); break; }
                                    match c.next() {
                                        Err(e) => { tail = format!(" err:{}", err_class(&e)); break; }
                                        Ok(()) => match c.key_value() {
                                            Some(kv) => items.push(obs_kv(&kv)),
                                            None => break,
                                        },
                                    }
                                },
                            }
                            let mut s = format!("SCANGET {}", items.len());
                            for it in items.iter() { s.push(' '); s.push_str(it); }
                            s.push_str(&tail);
                            s.push_str(" |");
                            // the cursor (and its snapshot) is still alive while the point reads run
                            if t.len() > 3 {
                                for k in t[3].split(',') {
                                    let mut tomb = false;
                                    match kvs.load(&unhex(k), &mut tomb) {
                                        Ok(Some(v)) => s.push_str(&format!(" {}", hx0(&v))),
                                        Ok(None) => s.push_str(if tomb { " ~" } else { " ." }),
                                        Err(e) => s.push_str(&format!(" err:{}", err_class(&e))),
                                    }
                                }
                            }
                            drop(c);
                            s
                        }
                    }
                }
                "flush" => {
                    let target = kvs.verif_request_flush();
                    kvs.verif_wait_flush(target);
                    format!("FLUSH {target}")
                }
                // flushscan LO HI PROG: request the rollover, take the range_scan cursor at once (the
                // memtable thread is flushing the immutable memtable meanwhile, so the snapshot
                // normally holds memtable + IMMUTABLE memtable + the version from before the ingest),
                // run the program, then wait for the flush.  `imm=1` is read AFTER the snapshot was
                // taken: the immutable memtable is only ever cleared until the next rollover, so 1
                // means the snapshot had it.
                "flushscan" => {
                    let lo = bound(t[1]);
                    let hi = bound(t[2]);
                    // `gate`: park the memtable thread right after it has ingested the new sst and
                    // BEFORE it clears the immutable memtable, so that the snapshot holds the
                    // immutable memtable AND the version that already contains its sst (imm=2)
                    // `pre`: park it right BEFORE the ingest instead (gate f_sealed): the snapshot holds
                    // the immutable memtable and the version from before the ingest (imm=1, for certain)
                    let point: &str = if t.len() > 5 && t[5] == "gate" { "f_ingested" } else if t.len() > 5 && t[5] == "pre" { "f_sealed" } else { "" };
                    let gate = !point.is_empty();
                    if gate {
                        KeyValueStore::verif_gate_arm(point, MEMTABLE_TID, 0);
                    }
                    let target = kvs.verif_request_flush();
                    let parked = gate && KeyValueStore::verif_gate_wait_parked(point, MEMTABLE_TID, std::time::Duration::from_secs(30));
                    let line = match kvs.range_scan(&lo, &hi) {
                        Err(e) => {
                            KeyValueStore::verif_gate_release_all();
                            kvs.verif_wait_flush(target);
                            return format!("FLUSHSCAN err {}", err_class(&e));
                        }
                        Ok(mut c) => {
                            let imm = kvs.verif_state().has_imm;
                            let half = run_prog("", &mut c, t[3]);
                            if gate {
                                KeyValueStore::verif_gate_release(point, MEMTABLE_TID);
                            }
                            kvs.verif_wait_flush(target);
                            // a second program on the same cursor after the flush has completed
                            let rest = run_prog("", &mut c, t[4]);
                            format!("FLUSHSCAN {target} imm={}{half} |{rest}", if parked && imm && point == "f_ingested" { 2 } else if parked && imm { 3 } else { imm as u8 })
                        }
                    };
                    line
                }
                // scanw LO HI PROG1 K=V,K=~,.. PROG2: a range_scan cursor, PROG1 on it, then the
                // writes (each its own put/del, so each takes a sequence number), then PROG2 on the
                // SAME cursor: the cursor is a snapshot, the writes must not show.
                "scanw" => {
                    let lo = bound(t[1]);
                    let hi = bound(t[2]);
                    match kvs.range_scan(&lo, &hi) {
                        Err(e) => format!("SCANW err {}", err_class(&e)),
                        Ok(mut c) => {
                            let first = run_prog("", &mut c, t[3]);
                            let mut w = String::new();
                            for kv in t[4].split(',') {
                                let (k, v) = kv.split_once('=').unwrap();
                                let r = if v == "~" { kvs.del(&unhex(k)) } else { kvs.put(&unhex(k), &unhex(v)) };
                                w.push_str(match r { Ok(()) => "k", Err(_) => "e" });
                            }
                            let second = run_prog("", &mut c, t[5]);
                            format!("SCANW{first} | {w} |{second}")
                        }
                    }
                }
                "compact" => match kvs.verif_tree().verif_compaction_step() {
                    Ok(None) => "COMPACT none".into(),
                    Ok(Some(c)) => format!("COMPACT {} {} {} {} {} {}", c.lower_level, c.upper_level, hx0(&c.first_key), hx0(&c.last_key), c.size, c.inputs.join(",")),
                    Err(e) => format!("COMPACT err {}", err_class(&e)),
                },
                "peek" => match kvs.verif_tree().verif_peek_compaction() {
                    None => "PEEK none".into(),
                    Some(c) => format!("PEEK {} {} {} {} {} {}", c.lower_level, c.upper_level, hx0(&c.first_key), hx0(&c.last_key), c.size, c.inputs.join(",")),
                },
                "state" => {
                    let st = kvs.verif_state();
                    format!("STATE {} {} {} {} {} stall={} mandatory={} ongoing={}", st.seq_no, st.mem_seq_no, st.imm_trigger, st.has_imm as u8, st.mem_size,
                        kvs.verif_tree().verif_should_stall() as u8, kvs.verif_tree().verif_should_mandatory() as u8, kvs.verif_tree().verif_ongoing())
                }
                "dump" => "DUMPREQ".into(),
                "ls" => format!("LS {}", ls(&root)),
                "sleep" => { std::thread::sleep(std::time::Duration::from_millis(t[1].parse().unwrap())); "SLEEP".into() }
                _ => format!("BADOP {}", t[0]),
            }
        }));
        match r {
            Ok(s) if s == "DUMPREQ" => print_files(&mut out, &root, &kvs, &mut seen),
            Ok(s) => writeln!(out, "{s}").unwrap(),
            Err(_) => writeln!(out, "PANIC {}", t[0]).unwrap(),
        }
        out.flush().unwrap();
    }
    out.flush().unwrap();
    std::process::exit(0);
}
