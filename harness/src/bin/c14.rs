//! C14 harness: runs op lists on the real setsum::Setsum / sst::Setsum.
//! ops separated by ';':
//!   ins R ITEMHEX | insv R P1,P2,.. | rem R ITEMHEX | remv R P1,P2,.. | put R K TS V | del R K TS | kvi R K TS V|~
//!   add R A B | sub R A B | addas R A (+=) | subas R A (-=) | fd R HEX64 | fh R ASCIIHEX | out R
//! Output: space separated hexdigest / none ; a panic anywhere in the case prints the outputs so far + PANIC
use hx::{hex, unhex};
use setsum::Setsum;

fn pieces(s: &str) -> Vec<Vec<u8>> {
    if s == "-" {
        return vec![];
    }
    s.split(',').map(unhex).collect()
}

fn main() {
    hx::quiet_panics();
    use std::io::BufRead;
    let stdin = std::io::stdin();
    for line in stdin.lock().lines() {
        let line = line.unwrap();
        let outs = std::sync::Mutex::new(Vec::<String>::new());
        let r = std::panic::catch_unwind(std::panic::AssertUnwindSafe(|| {
            let mut regs = [Setsum::default(); 4];
            for op in line.split(';') {
                let t: Vec<&str> = op.split_whitespace().collect();
                if t.is_empty() {
                    continue;
                }
                let r = |i: usize| t[i].parse::<usize>().unwrap();
                match t[0] {
                    "ins" => regs[r(1)].insert(&unhex(t[2])),
                    "rem" => regs[r(1)].remove(&unhex(t[2])),
                    "insv" => {
                        let p = pieces(t[2]);
                        let v: Vec<&[u8]> = p.iter().map(|x| x.as_slice()).collect();
                        regs[r(1)].insert_vectored(&v)
                    }
                    "remv" => {
                        let p = pieces(t[2]);
                        let v: Vec<&[u8]> = p.iter().map(|x| x.as_slice()).collect();
                        regs[r(1)].remove_vectored(&v)
                    }
                    "put" | "del" => {
                        // through the sst wrapper
                        let mut s = sst::Setsum::from_digest(regs[r(1)].digest());
                        let ts: u64 = t[3].parse().unwrap();
                        if t[0] == "put" {
                            s.put(&unhex(t[2]), ts, &unhex(t[4]));
                        } else {
                            s.del(&unhex(t[2]), ts);
                        }
                        regs[r(1)] = s.into_inner();
                    }
                    "kvi" => {
                        // through sst::Setsum::insert(KeyValueRef)
                        let mut s = sst::Setsum::from_digest(regs[r(1)].digest());
                        let ts: u64 = t[3].parse().unwrap();
                        let key = unhex(t[2]);
                        let val = if t[4] == "~" { None } else { Some(unhex(t[4])) };
                        s.insert(sst::KeyValueRef {
                            key: &key,
                            timestamp: ts,
                            value: val.as_deref(),
                        });
                        regs[r(1)] = s.into_inner();
                    }
                    "add" => regs[r(1)] = regs[r(2)] + regs[r(3)],
                    "sub" => regs[r(1)] = regs[r(2)] - regs[r(3)],
                    "addas" => {
                        let x = regs[r(2)];
                        regs[r(1)] += x
                    }
                    "subas" => {
                        let x = regs[r(2)];
                        regs[r(1)] -= x
                    }
                    "fd" => {
                        let d = unhex(t[2]);
                        let mut a = [0u8; 32];
                        a.copy_from_slice(&d);
                        regs[r(1)] = Setsum::from_digest(a);
                    }
                    "fh" => {
                        let bytes = if t.len() > 2 { unhex(t[2]) } else { vec![] };
                        let s = String::from_utf8(bytes).expect("ascii");
                        match Setsum::from_hexdigest(&s) {
                            Some(x) => regs[r(1)] = x,
                            None => outs.lock().unwrap().push("none".to_string()),
                        }
                    }
                    "out" => outs.lock().unwrap().push(regs[r(1)].hexdigest()),
                    _ => panic!("bad op"),
                }
            }
        }));
        let mut o = outs.into_inner().unwrap();
        if r.is_err() {
            o.push("PANIC".to_string());
        }
        println!("{}", o.join(" "));
    }
}
