//! C15 harness: the real buffertk / prototk / prototk_derive code on generated cases.
//!
//! One case per stdin line, one output line per case, every case under catch_unwind.
//!   enc  T VAL        -> `HEX sz=N rt=<dec-result>`   stack_pack(&v).to_vec(), pack_sz(), unpack of the packed bytes
//!   dec  T HEX        -> `ok VAL rest=HEX` | `err CODE` | `PANIC`
//!   v64d HEX          -> `ok N rest=HEX` | `err CODE`      v64::unpack (slow path iff len < 10)
//!   v64e N            -> `HEX sz=N`                       v64 pack / pack_sz
//!   tagd HEX          -> `ok NUM WT rest=HEX` | `err CODE` Tag::unpack
//!   tage NUM WT       -> `HEX sz=N`                       Tag pack (FieldNumber::must)
//!   zz I64 / uzz U64  -> number                           zigzag / unzigzag
//!   sc KIND VAL       -> `HEX sz=N rt=..`  one bare field type (no tag): pack, pack_sz, unpack
//!   scd KIND HEX      -> `ok VAL rest=HEX` | `err CODE`    one bare field type: unpack
//!   repack NAME HEX   -> `ok HEX rest=HEX` | `err CODE`    a message type the repository declares: unpack, pack again
//!   deep N            -> `ok depth=N bytes=B` | `err CODE`  N nested messages of the recursive type Tree (own process)
//! VAL grammar:  INT | xHEX | ( VAL* ) | #K VAL     (see checks/c15.py)
#![allow(non_camel_case_types, dead_code)]
use buffertk::{Packable, Unpackable, stack_pack, v64};
use hx::{hex, unhex};
use prototk::field_types;
use prototk::{FieldNumber, SError, Tag, WireType};
use prototk_derive::Message;

// ------------------------------------------------------------------------------------ value text
struct P<'a> {
    t: Vec<&'a str>,
    i: usize,
}
impl<'a> P<'a> {
    fn new(s: &'a str) -> Self {
        P { t: s.split_whitespace().collect(), i: 0 }
    }
    fn peek(&self) -> &'a str {
        if self.i < self.t.len() { self.t[self.i] } else { "" }
    }
    fn next(&mut self) -> &'a str {
        let x = self.peek();
        self.i += 1;
        x
    }
    fn expect(&mut self, s: &str) {
        let x = self.next();
        if x != s {
            panic!("HARNESS-PARSE expected {s} got {x}");
        }
    }
}

trait Txt: Sized {
    fn show(&self, o: &mut String);
    fn parse(p: &mut P) -> Self;
}

macro_rules! txt_int {
    ($($t:ty),*) => {$(
        impl Txt for $t {
            fn show(&self, o: &mut String) { o.push_str(&format!("{} ", self)); }
            fn parse(p: &mut P) -> Self { p.next().parse::<$t>().expect("HARNESS-PARSE int") }
        }
    )*};
}
txt_int!(i32, i64, u32, u64, usize);

impl Txt for bool {
    fn show(&self, o: &mut String) {
        o.push_str(if *self { "1 " } else { "0 " });
    }
    fn parse(p: &mut P) -> Self {
        match p.next() {
            "0" => false,
            "1" => true,
            x => panic!("HARNESS-PARSE bool {x}"),
        }
    }
}
impl Txt for f32 {
    fn show(&self, o: &mut String) {
        o.push_str(&format!("{} ", self.to_bits()));
    }
    fn parse(p: &mut P) -> Self {
        f32::from_bits(p.next().parse::<u32>().expect("HARNESS-PARSE f32"))
    }
}
impl Txt for f64 {
    fn show(&self, o: &mut String) {
        o.push_str(&format!("{} ", self.to_bits()));
    }
    fn parse(p: &mut P) -> Self {
        f64::from_bits(p.next().parse::<u64>().expect("HARNESS-PARSE f64"))
    }
}
fn show_bytes(b: &[u8], o: &mut String) {
    o.push('x');
    o.push_str(&hex(b));
    o.push(' ');
}
fn parse_bytes(p: &mut P) -> Vec<u8> {
    let t = p.next();
    if !t.starts_with('x') {
        panic!("HARNESS-PARSE bytes {t}");
    }
    unhex(&t[1..])
}
impl Txt for Vec<u8> {
    fn show(&self, o: &mut String) {
        show_bytes(self, o)
    }
    fn parse(p: &mut P) -> Self {
        parse_bytes(p)
    }
}
impl Txt for String {
    fn show(&self, o: &mut String) {
        show_bytes(self.as_bytes(), o)
    }
    fn parse(p: &mut P) -> Self {
        String::from_utf8(parse_bytes(p)).expect("HARNESS-PARSE utf8")
    }
}
macro_rules! txt_arr {
    ($($n:literal),*) => {$(
        impl Txt for [u8; $n] {
            fn show(&self, o: &mut String) { show_bytes(self, o) }
            fn parse(p: &mut P) -> Self {
                let v = parse_bytes(p);
                let mut a = [0u8; $n];
                a.copy_from_slice(&v);
                a
            }
        }
    )*};
}
txt_arr!(16, 32, 64);
impl Txt for std::path::PathBuf {
    fn show(&self, o: &mut String) {
        use std::os::unix::ffi::OsStrExt;
        show_bytes(self.as_os_str().as_bytes(), o)
    }
    fn parse(p: &mut P) -> Self {
        use std::os::unix::ffi::OsStrExt;
        std::path::PathBuf::from(std::ffi::OsStr::from_bytes(&parse_bytes(p)))
    }
}
// borrowed natives: the parsed owner is leaked (one small allocation per case)
impl<'a> Txt for &'a [u8] {
    fn show(&self, o: &mut String) {
        show_bytes(self, o)
    }
    fn parse(p: &mut P) -> Self {
        Box::leak(parse_bytes(p).into_boxed_slice())
    }
}
impl<'a> Txt for &'a str {
    fn show(&self, o: &mut String) {
        show_bytes(self.as_bytes(), o)
    }
    fn parse(p: &mut P) -> Self {
        Box::leak(String::from_utf8(parse_bytes(p)).expect("HARNESS-PARSE utf8").into_boxed_str())
    }
}
impl<T: Txt> Txt for Option<T> {
    fn show(&self, o: &mut String) {
        o.push_str("( ");
        if let Some(x) = self {
            x.show(o);
        }
        o.push_str(") ");
    }
    fn parse(p: &mut P) -> Self {
        p.expect("(");
        let r = if p.peek() == ")" { None } else { Some(T::parse(p)) };
        p.expect(")");
        r
    }
}
trait NotByte {}
impl<T: Txt + NotByte> Txt for Vec<T> {
    fn show(&self, o: &mut String) {
        o.push_str("( ");
        for x in self {
            x.show(o);
        }
        o.push_str(") ");
    }
    fn parse(p: &mut P) -> Self {
        p.expect("(");
        let mut r = Vec::new();
        while p.peek() != ")" {
            r.push(T::parse(p));
        }
        p.expect(")");
        r
    }
}
impl<T: Txt> Txt for Box<T> {
    fn show(&self, o: &mut String) {
        (**self).show(o)
    }
    fn parse(p: &mut P) -> Self {
        Box::new(T::parse(p))
    }
}
impl<T: Txt, E: Txt> Txt for Result<T, E> {
    fn show(&self, o: &mut String) {
        match self {
            Ok(x) => {
                o.push_str("#0 ");
                x.show(o)
            }
            Err(e) => {
                o.push_str("#1 ");
                e.show(o)
            }
        }
    }
    fn parse(p: &mut P) -> Self {
        match p.next() {
            "#0" => Ok(T::parse(p)),
            "#1" => Err(E::parse(p)),
            x => panic!("HARNESS-PARSE result {x}"),
        }
    }
}
macro_rules! not_byte { ($($t:ty),*) => {$( impl NotByte for $t {} )*}; }
not_byte!(i32, i64, u32, u64, usize, bool, f32, f64, String, Vec<u8>, std::path::PathBuf);
impl<'a> NotByte for &'a [u8] {}
impl<'a> NotByte for &'a str {}

// ------------------------------------------------------------------------------- the type family
macro_rules! pstruct {
    ($name:ident { $( #[prototk($num:tt, $pt:ident)] $f:ident : [ $($t:tt)* ] ),* $(,)? }) => {
        #[derive(Clone, Debug, Default, Message, PartialEq)]
        struct $name { $( #[prototk($num, $pt)] $f: $($t)* ),* }
        pstruct_txt!($name { $( $f ),* });
    };
}
macro_rules! pstruct_txt {
    ($name:ident { $( $f:ident ),* }) => {
        impl NotByte for $name {}
        impl Txt for $name {
            fn show(&self, o: &mut String) { o.push_str("( "); $( self.$f.show(o); )* o.push_str(") "); }
            #[allow(clippy::redundant_field_names)]
            fn parse(p: &mut P) -> Self { p.expect("("); let r = $name { $( $f: Txt::parse(p) ),* }; p.expect(")"); r }
        }
    };
}

pstruct!(Empty {});
pstruct!(Ints {
    #[prototk(1, int32)] a: [i32],
    #[prototk(2, int64)] b: [i64],
    #[prototk(3, uint32)] c: [u32],
    #[prototk(4, uint64)] d: [u64],
    #[prototk(5, sint32)] e: [i32],
    #[prototk(6, sint64)] f: [i64],
});
pstruct!(Fixeds {
    #[prototk(1, fixed32)] a: [u32],
    #[prototk(2, fixed64)] b: [u64],
    #[prototk(3, sfixed32)] c: [i32],
    #[prototk(4, sfixed64)] d: [i64],
    #[prototk(5, float)] e: [f32],
    #[prototk(6, double)] f: [f64],
    #[prototk(7, Bool)] g: [bool],
});
pstruct!(Blobs {
    #[prototk(1, bytes)] a: [Vec<u8>],
    #[prototk(2, bytes16)] b: [[u8; 16]],
    #[prototk(3, bytes32)] c: [[u8; 32]],
    #[prototk(4, string)] d: [String],
});
#[derive(Clone, Debug, Message, PartialEq)]
struct Blob64 {
    #[prototk(1, bytes64)]
    a: [u8; 64],
    #[prototk(2, uint64)]
    b: usize,
}
impl Default for Blob64 {
    fn default() -> Self {
        Blob64 { a: [0u8; 64], b: 0 }
    }
}
pstruct_txt!(Blob64 { a, b });
pstruct!(Inner {
    #[prototk(1, sint64)] a: [i64],
    #[prototk(2, string)] s: [String],
    #[prototk(3, fixed32)] f: [u32],
});
pstruct!(Nest {
    #[prototk(1, message)] m: [Inner],
    #[prototk(2, uint64)] t: [u64],
});
pstruct!(Opts {
    #[prototk(1, int32)] a: [Option<i32>],
    #[prototk(2, uint64)] b: [Option<u64>],
    #[prototk(3, string)] c: [Option<String>],
    #[prototk(4, message)] d: [Option<Inner>],
    #[prototk(5, double)] e: [Option<f64>],
    #[prototk(6, bytes)] f: [Option<Vec<u8>>],
    #[prototk(7, float)] g: [Option<f32>],
});
pstruct!(Reps {
    #[prototk(1, sint64)] a: [Vec<i64>],
    #[prototk(2, fixed32)] b: [Vec<u32>],
    #[prototk(3, string)] c: [Vec<String>],
    #[prototk(4, message)] d: [Vec<Inner>],
    #[prototk(5, Bool)] e: [Vec<bool>],
    #[prototk(6, bytes)] f: [Vec<Vec<u8>>],
    #[prototk(7, float)] g: [Vec<f32>],
});
pstruct!(BigNums {
    #[prototk(15, uint64)] a: [u64],
    #[prototk(16, uint64)] b: [u64],
    #[prototk(2047, sint32)] c: [i32],
    #[prototk(2048, string)] d: [String],
    #[prototk(18999, fixed64)] e: [u64],
    #[prototk(20000, Bool)] f: [bool],
    #[prototk(536870911, int32)] g: [i32],
});
pstruct!(Deep {
    #[prototk(1, message)] a: [Nest],
    #[prototk(2, message)] b: [Vec<Nest>],
    #[prototk(3, message)] c: [Option<Nest>],
});
pstruct!(Boxed {
    #[prototk(1, uint64)] x: [Box<u64>],
    #[prototk(2, double)] y: [Box<f64>],
    #[prototk(3, sint32)] z: [Box<i32>],
});

#[derive(Clone, Debug, Message, PartialEq)]
enum Choice {
    #[prototk(1, sint64)]
    One(i64),
    #[prototk(2, uint64)]
    Two(u64),
    #[prototk(3, message)]
    Three(Inner),
    #[prototk(4, message)]
    Unit,
    #[prototk(5, message)]
    Named {
        #[prototk(1, int32)]
        x: i32,
        #[prototk(2, bytes)]
        y: Vec<u8>,
    },
    #[prototk(6, string)]
    Str(String),
    #[prototk(7, fixed32)]
    Fx(u32),
    #[prototk(8, double)]
    Dbl(f64),
    #[prototk(9, float)]
    Flt(f32),
    #[prototk(10, bytes32)]
    Arr([u8; 32]),
}
impl Default for Choice {
    fn default() -> Self {
        Choice::One(0)
    }
}
impl NotByte for Choice {}
impl Txt for Choice {
    fn show(&self, o: &mut String) {
        match self {
            Choice::One(v) => { o.push_str("#0 "); v.show(o) }
            Choice::Two(v) => { o.push_str("#1 "); v.show(o) }
            Choice::Three(v) => { o.push_str("#2 "); v.show(o) }
            Choice::Unit => o.push_str("#3 ( ) "),
            Choice::Named { x, y } => { o.push_str("#4 ( "); x.show(o); y.show(o); o.push_str(") ") }
            Choice::Str(v) => { o.push_str("#5 "); v.show(o) }
            Choice::Fx(v) => { o.push_str("#6 "); v.show(o) }
            Choice::Dbl(v) => { o.push_str("#7 "); v.show(o) }
            Choice::Flt(v) => { o.push_str("#8 "); v.show(o) }
            Choice::Arr(v) => { o.push_str("#9 "); v.show(o) }
        }
    }
    fn parse(p: &mut P) -> Self {
        match p.next() {
            "#0" => Choice::One(Txt::parse(p)),
            "#1" => Choice::Two(Txt::parse(p)),
            "#2" => Choice::Three(Txt::parse(p)),
            "#3" => { p.expect("("); p.expect(")"); Choice::Unit }
            "#4" => { p.expect("("); let x = Txt::parse(p); let y = Txt::parse(p); p.expect(")"); Choice::Named { x, y } }
            "#5" => Choice::Str(Txt::parse(p)),
            "#6" => Choice::Fx(Txt::parse(p)),
            "#7" => Choice::Dbl(Txt::parse(p)),
            "#8" => Choice::Flt(Txt::parse(p)),
            "#9" => Choice::Arr(Txt::parse(p)),
            x => panic!("HARNESS-PARSE Choice {x}"),
        }
    }
}
pstruct!(HasChoice {
    #[prototk(1, message)] a: [Choice],
    #[prototk(2, message)] b: [Option<Choice>],
    #[prototk(3, message)] c: [Vec<Choice>],
    #[prototk(4, uint32)] d: [u32],
});

#[derive(Clone, Debug, Default, Message, PartialEq)]
enum E2 {
    #[prototk(1, message)]
    #[default]
    Nop,
    #[prototk(2, message)]
    WithOpt {
        #[prototk(1, message)]
        value: Option<Inner>,
    },
    #[prototk(3, message)]
    WithVec {
        #[prototk(1, message)]
        value: Vec<Inner>,
        #[prototk(2, sint32)]
        n: Vec<i32>,
    },
    #[prototk(4, message)]
    Arr32 {
        #[prototk(1, bytes32)]
        value: [u8; 32],
    },
    #[prototk(5, message)]
    Arr64 {
        #[prototk(1, bytes64)]
        value: [u8; 64],
    },
    #[prototk(6, message)]
    Sizes {
        #[prototk(1, uint64)]
        length: usize,
        #[prototk(2, uint64)]
        required: usize,
    },
}
impl NotByte for E2 {}
impl Txt for E2 {
    fn show(&self, o: &mut String) {
        match self {
            E2::Nop => o.push_str("#0 ( ) "),
            E2::WithOpt { value } => { o.push_str("#1 ( "); value.show(o); o.push_str(") ") }
            E2::WithVec { value, n } => { o.push_str("#2 ( "); value.show(o); n.show(o); o.push_str(") ") }
            E2::Arr32 { value } => { o.push_str("#3 ( "); value.show(o); o.push_str(") ") }
            E2::Arr64 { value } => { o.push_str("#4 ( "); value.show(o); o.push_str(") ") }
            E2::Sizes { length, required } => { o.push_str("#5 ( "); length.show(o); required.show(o); o.push_str(") ") }
        }
    }
    fn parse(p: &mut P) -> Self {
        let k = p.next();
        p.expect("(");
        let r = match k {
            "#0" => E2::Nop,
            "#1" => E2::WithOpt { value: Txt::parse(p) },
            "#2" => { let value = Txt::parse(p); let n = Txt::parse(p); E2::WithVec { value, n } }
            "#3" => E2::Arr32 { value: Txt::parse(p) },
            "#4" => E2::Arr64 { value: Txt::parse(p) },
            "#5" => { let length = Txt::parse(p); let required = Txt::parse(p); E2::Sizes { length, required } }
            x => panic!("HARNESS-PARSE E2 {x}"),
        };
        p.expect(")");
        r
    }
}
pstruct!(HasE2 {
    #[prototk(1, message)] a: [E2],
    #[prototk(2, message)] b: [Vec<E2>],
});

// a message-typed error for Result<T, E>
pstruct!(MyErr {
    #[prototk(1, string)] code: [String],
    #[prototk(2, uint64)] n: [u64],
});
impl From<SError> for MyErr {
    fn from(e: SError) -> Self {
        MyErr { code: prototk::error_code(&e).unwrap_or("?").to_string(), n: 0 }
    }
}
impl From<MyErr> for SError {
    fn from(e: MyErr) -> Self {
        // carries the class through `unpack_as`
        SError::new("c15").with_code(&e.code)
    }
}
#[derive(Clone, Debug, Message, PartialEq)]
struct Res {
    #[prototk(1, message)]
    r: Result<Inner, MyErr>,
    #[prototk(2, sint32)]
    t: i32,
}
impl Default for Res {
    fn default() -> Self {
        Res { r: Ok(Inner::default()), t: 0 }
    }
}
pstruct_txt!(Res { r, t });

// Result<_, SError>: the shape the repository itself uses (S-expression text inside); not modelled,
// checked by the direct oracle only (round trip, no panic)
#[derive(Clone, Debug, Message, PartialEq)]
struct ResS {
    #[prototk(1, message)]
    r: Result<Inner, SError>,
}
impl Default for ResS {
    fn default() -> Self {
        ResS { r: Ok(Inner::default()) }
    }
}
impl Txt for SError {
    fn show(&self, o: &mut String) {
        show_bytes(self.to_string().as_bytes(), o)
    }
    fn parse(p: &mut P) -> Self {
        // the text names a prototk error constructor: xHEX(code) — rebuilt through the public constructors
        let code = String::from_utf8(parse_bytes(p)).expect("HARNESS-PARSE utf8");
        match code.as_str() {
            "success" => prototk::success(),
            "string-encoding" => prototk::string_encoding(),
            "buffer-too-short" => prototk::buffer_too_short(7, 3),
            "varint-overflow" => prototk::varint_overflow(10),
            "wrong-length" => prototk::wrong_length(16, 17),
            "invalid-field-number" => prototk::invalid_field_number(0, "a \"quoted\" (reason)\n"),
            _ => prototk::unknown_discriminant(33),
        }
    }
}
pstruct_txt!(ResS { r });

// schema evolution: the V2 writer knows more fields than the V1 reader (Inner / Nest)
pstruct!(InnerV2 {
    #[prototk(7, uint64)] pre: [u64],
    #[prototk(1, sint64)] a: [i64],
    #[prototk(8, string)] mid: [String],
    #[prototk(2, string)] s: [String],
    #[prototk(3, fixed32)] f: [u32],
    #[prototk(9, fixed64)] post: [u64],
    #[prototk(10, float)] flt: [f32],
    #[prototk(11, message)] sub: [Option<Inner>],
});
pstruct!(NestV2 {
    #[prototk(5, sfixed32)] x: [Vec<i32>],
    #[prototk(1, message)] m: [InnerV2],
    #[prototk(2, uint64)] t: [u64],
    #[prototk(6, message)] y: [Vec<InnerV2>],
});
pstruct!(Wide {
    #[prototk(1, int32)] f1: [i32],
    #[prototk(2, int64)] f2: [i64],
    #[prototk(3, uint32)] f3: [u32],
    #[prototk(4, uint64)] f4: [u64],
    #[prototk(5, sint32)] f5: [i32],
    #[prototk(6, sint64)] f6: [i64],
    #[prototk(7, fixed32)] f7: [u32],
    #[prototk(8, fixed64)] f8: [u64],
    #[prototk(9, sfixed32)] f9: [i32],
    #[prototk(10, sfixed64)] f10: [i64],
    #[prototk(11, double)] f11: [f64],
    #[prototk(12, Bool)] f12: [bool],
    #[prototk(13, bytes)] f13: [Vec<u8>],
    #[prototk(14, bytes32)] f14: [[u8; 32]],
    #[prototk(15, string)] f15: [String],
    #[prototk(16, message)] f16: [Inner],
    #[prototk(17, message)] f17: [Option<Inner>],
    #[prototk(18, uint64)] f18: [Vec<u64>],
    #[prototk(19, message)] f19: [Choice],
    #[prototk(20, message)] f20: [Vec<Inner>],
    #[prototk(21, float)] f21: [f32],
});


// schema evolution inside a named enum variant: Evo2 writes a field Evo1 does not know
#[derive(Clone, Debug, Default, Message, PartialEq)]
enum Evo1 {
    #[prototk(1, message)]
    #[default]
    Nop,
    #[prototk(2, message)]
    Named {
        #[prototk(1, uint64)]
        a: u64,
        #[prototk(3, string)]
        c: String,
    },
}
#[derive(Clone, Debug, Default, Message, PartialEq)]
enum Evo2 {
    #[prototk(1, message)]
    #[default]
    Nop,
    #[prototk(2, message)]
    Named {
        #[prototk(1, uint64)]
        a: u64,
        #[prototk(2, sint64)]
        b: i64,
        #[prototk(3, string)]
        c: String,
        #[prototk(4, message)]
        d: Option<Inner>,
    },
}
impl NotByte for Evo1 {}
impl NotByte for Evo2 {}
impl Txt for Evo1 {
    fn show(&self, o: &mut String) {
        match self {
            Evo1::Nop => o.push_str("#0 ( ) "),
            Evo1::Named { a, c } => { o.push_str("#1 ( "); a.show(o); c.show(o); o.push_str(") ") }
        }
    }
    fn parse(p: &mut P) -> Self {
        let k = p.next();
        p.expect("(");
        let r = match k {
            "#0" => Evo1::Nop,
            "#1" => { let a = Txt::parse(p); let c = Txt::parse(p); Evo1::Named { a, c } }
            x => panic!("HARNESS-PARSE Evo1 {x}"),
        };
        p.expect(")");
        r
    }
}
impl Txt for Evo2 {
    fn show(&self, o: &mut String) {
        match self {
            Evo2::Nop => o.push_str("#0 ( ) "),
            Evo2::Named { a, b, c, d } => { o.push_str("#1 ( "); a.show(o); b.show(o); c.show(o); d.show(o); o.push_str(") ") }
        }
    }
    fn parse(p: &mut P) -> Self {
        let k = p.next();
        p.expect("(");
        let r = match k {
            "#0" => Evo2::Nop,
            "#1" => { let a = Txt::parse(p); let b = Txt::parse(p); let c = Txt::parse(p); let d = Txt::parse(p); Evo2::Named { a, b, c, d } }
            x => panic!("HARNESS-PARSE Evo2 {x}"),
        };
        p.expect(")");
        r
    }
}
pstruct!(HasEvo1 {
    #[prototk(1, message)] e: [Evo1],
    #[prototk(2, uint32)] t: [u32],
});
pstruct!(HasEvo2 {
    #[prototk(1, message)] e: [Evo2],
    #[prototk(2, uint32)] t: [u32],
    #[prototk(3, bytes)] x: [Vec<u8>],
});

// PathBuf as the native value of `string` (its bytes need not be UTF-8: known class pathbuf-non-utf8) and of `bytes`
pstruct!(Paths {
    #[prototk(1, string)] s: [std::path::PathBuf],
    #[prototk(2, bytes)] b: [std::path::PathBuf],
    #[prototk(3, string)] o: [Option<std::path::PathBuf>],
    #[prototk(4, string)] r: [Vec<std::path::PathBuf>],
    #[prototk(5, bytes)] rb: [Vec<std::path::PathBuf>],
});
// borrowed natives
#[derive(Clone, Debug, Default, Message, PartialEq)]
struct Borrowed<'a> {
    #[prototk(1, bytes)]
    b: &'a [u8],
    #[prototk(2, string)]
    s: &'a str,
    #[prototk(3, bytes)]
    ob: Option<&'a [u8]>,
    #[prototk(4, string)]
    rs: Vec<&'a str>,
}
impl<'a> NotByte for Borrowed<'a> {}
impl<'a> Txt for Borrowed<'a> {
    fn show(&self, o: &mut String) {
        o.push_str("( ");
        self.b.show(o);
        self.s.show(o);
        self.ob.show(o);
        self.rs.show(o);
        o.push_str(") ");
    }
    fn parse(p: &mut P) -> Self {
        p.expect("(");
        let r = Borrowed { b: Txt::parse(p), s: Txt::parse(p), ob: Txt::parse(p), rs: Txt::parse(p) };
        p.expect(")");
        r
    }
}

// a message type that contains itself: outside the modelled shapes (trees); used by `deep N` only
pstruct!(Tree {
    #[prototk(1, message)] kids: [Vec<Tree>],
    #[prototk(2, uint64)] v: [u64],
});
/// N nested length-delimited fields number 1 around `10 01` (a valid encoding of a Tree of depth N)
fn deep_input(depth: usize) -> Vec<u8> {
    fn vsz(mut n: usize) -> usize { let mut c = 1; n >>= 7; while n > 0 { n >>= 7; c += 1 } c }
    let mut lens = Vec::with_capacity(depth + 1);
    lens.push(2usize);
    for k in 0..depth {
        let l = lens[k];
        lens.push(1 + vsz(l) + l);
    }
    let mut out = Vec::with_capacity(lens[depth]);
    for k in (0..depth).rev() {
        out.push(0x0a);
        let mut n = lens[k];
        loop {
            let x = (n & 0x7f) as u8;
            n >>= 7;
            if n > 0 { out.push(x | 0x80) } else { out.push(x); break }
        }
    }
    out.extend_from_slice(&[0x10, 0x01]);
    out
}

// buffertk's own Packable / Unpackable for Result<T, E>, used directly (not as a field)
type ResTop = Result<Inner, MyErr>;

// ------------------------------------------------------------ the messages the repository declares
// (round 2) reached without hand-written values: decode bytes as the real type, encode the value again
fn repack_as<'a, T>(buf: &'a [u8]) -> Result<(Vec<u8>, usize), String>
where
    T: Unpackable<'a> + Packable,
    <T as Unpackable<'a>>::Error: Into<SError>,
{
    match T::unpack(buf) {
        Ok((t, rest)) => Ok((stack_pack(&t).to_vec(), rest.len())),
        Err(e) => Err(code(&e.into())),
    }
}
// generated by checks/c15.py: prototk's test declarations and one arm per declared type
include!(concat!(env!("CARGO_MANIFEST_DIR"), "/src/c15_gen/arms.rs"));

// --------------------------------------------------------------------------------------- running
fn code(e: &SError) -> String {
    prototk::error_code(e).unwrap_or("no-code").to_string()
}

fn dec_line<'a, T>(b: &'a [u8]) -> String
where
    T: Txt + Unpackable<'a>,
    <T as Unpackable<'a>>::Error: Into<SError>,
{
    match T::unpack(b) {
        Ok((v, rest)) => {
            let mut o = String::from("ok ");
            v.show(&mut o);
            o.push_str("rest=");
            o.push_str(&hex(rest));
            o
        }
        Err(e) => format!("err {}", code(&e.into())),
    }
}

struct ShortWriter {
    got: Vec<u8>,
    step: usize,
}

impl std::io::Write for ShortWriter {
    fn write(&mut self, b: &[u8]) -> std::io::Result<usize> {
        let n = b.len().min(self.step);
        self.got.extend_from_slice(&b[..n]);
        Ok(n)
    }
    fn flush(&mut self) -> std::io::Result<()> {
        Ok(())
    }
}

fn enc_line<T>(v: &T, rt: fn(&[u8]) -> String) -> String
where
    T: Txt + Packable,
{
    let bytes = stack_pack(v).to_vec();
    let sz = stack_pack(v).pack_sz();
    // Packable::pack into an exactly sized slice must agree with to_vec
    let mut buf2 = vec![0xa5u8; sz];
    v.pack(&mut buf2);
    let mut streamed: Vec<u8> = Vec::new();
    let n = v.stream(&mut streamed).expect("stream to a Vec");
    // a writer that takes at most 3 bytes per call (a pipe, a socket, a capped sink): stream() must still
    // deliver every byte and report their number
    let mut short = ShortWriter { got: Vec::new(), step: 3 };
    let n2 = v.stream(&mut short).expect("stream to a short writer");
    let mut short3 = ShortWriter { got: Vec::new(), step: 1 };
    let n3 = stack_pack(v).stream(&mut short3).expect("stream of a stack packer to a short writer");
    let same = if buf2 != bytes {
        " PACK-DIFFERS"
    } else if streamed != bytes || n != sz {
        " STREAM-DIFFERS"
    } else if short.got != bytes || n2 != sz || short3.got != bytes || n3 != sz {
        " STREAM-SHORT-WRITE-DIFFERS"
    } else {
        ""
    };
    format!("{} sz={}{} rt={}", hex(&bytes), sz, same, rt(&bytes))
}

macro_rules! dispatch {
    ($name:expr, $op:expr, $arg:expr, [ $( $t:ident ),* ]) => {
        match ($name, $op) {
            $(
                (stringify!($t), "enc") => {
                    fn rt<'a>(b: &'a [u8]) -> String { dec_line::<$t>(b) }
                    let v = <$t as Txt>::parse(&mut P::new($arg));
                    enc_line::<$t>(&v, rt)
                }
                (stringify!($t), "dec") => { let b = unhex($arg); dec_line::<$t>(&b) }
            )*
            _ => panic!("HARNESS-PARSE unknown type/op"),
        }
    };
}

fn sc_line<T, N>(v: N, back: fn(&T) -> N) -> String
where
    T: prototk::FieldType<'static, Native = N> + Packable + for<'b> Unpackable<'b, Error = SError>,
    N: Txt,
{
    let t = T::from_native(v);
    let bytes = stack_pack(&t).to_vec();
    let sz = t.pack_sz();
    let rt = match T::unpack(&bytes) {
        Ok((x, rest)) => {
            let mut o = String::from("ok ");
            back(&x).show(&mut o);
            o.push_str("rest=");
            o.push_str(&hex(rest));
            o
        }
        Err(e) => format!("err {}", code(&e)),
    };
    format!("{} sz={} rt={}", hex(&bytes), sz, rt)
}

fn scd_line<T, N>(b: &[u8], back: fn(&T) -> N) -> String
where
    T: for<'b> Unpackable<'b, Error = SError>,
    N: Txt,
{
    match T::unpack(b) {
        Ok((x, rest)) => {
            let mut o = String::from("ok ");
            back(&x).show(&mut o);
            o.push_str("rest=");
            o.push_str(&hex(rest));
            o
        }
        Err(e) => format!("err {}", code(&e)),
    }
}

macro_rules! scalar {
    ($kind:expr, $op:expr, $arg:expr, [ $( ($k:ident, $n:ty) ),* ]) => {
        match ($kind, $op) {
            $(
                (stringify!($k), "sc") => { let v = <$n as Txt>::parse(&mut P::new($arg)); sc_line::<field_types::$k, $n>(v, |x| x.0.clone()) }
                (stringify!($k), "scd") => { let b = unhex($arg); scd_line::<field_types::$k, $n>(&b, |x| x.0.clone()) }
            )*
            _ => panic!("HARNESS-PARSE unknown scalar"),
        }
    };
}

fn wt_num(w: WireType) -> u32 {
    w.tag_bits()
}

fn run(line: &str) -> String {
    let line = line.trim();
    let (op, rest) = match line.split_once(' ') {
        Some(x) => x,
        None => (line, ""),
    };
    match op {
        "enc" | "dec" => {
            let (name, arg) = rest.split_once(' ').unwrap_or((rest, ""));
            dispatch!(name, op, arg, [
                Empty, Ints, Fixeds, Blobs, Blob64, Inner, Nest, Opts, Reps, BigNums, Deep, Boxed, Choice,
                HasChoice, E2, HasE2, MyErr, Res, ResS, InnerV2, NestV2, Wide, Evo1, Evo2, HasEvo1, HasEvo2, ResTop, Paths, Borrowed
            ])
        }
        "sc" | "scd" => {
            let (kind, arg) = rest.split_once(' ').unwrap_or((rest, ""));
            match kind {
                "bytes" => {
                    if op == "sc" {
                        let v = parse_bytes(&mut P::new(arg));
                        let t = field_types::bytes(&v);
                        let bytes = stack_pack(&t).to_vec();
                        let rt = match field_types::bytes::unpack(&bytes) {
                            Ok((x, r)) => { let mut o = String::from("ok "); show_bytes(x.0, &mut o); o.push_str("rest="); o.push_str(&hex(r)); o }
                            Err(e) => format!("err {}", code(&e)),
                        };
                        format!("{} sz={} rt={}", hex(&bytes), t.pack_sz(), rt)
                    } else {
                        let b = unhex(arg);
                        match field_types::bytes::unpack(&b) {
                            Ok((x, r)) => { let mut o = String::from("ok "); show_bytes(x.0, &mut o); o.push_str("rest="); o.push_str(&hex(r)); o }
                            Err(e) => format!("err {}", code(&e)),
                        }
                    }
                }
                "string" => {
                    if op == "sc" {
                        let v = String::from_utf8(parse_bytes(&mut P::new(arg))).expect("HARNESS-PARSE utf8");
                        let t = field_types::string(&v);
                        let bytes = stack_pack(&t).to_vec();
                        let rt = match field_types::string::unpack(&bytes) {
                            Ok((x, r)) => { let mut o = String::from("ok "); show_bytes(x.0.as_bytes(), &mut o); o.push_str("rest="); o.push_str(&hex(r)); o }
                            Err(e) => format!("err {}", code(&e)),
                        };
                        format!("{} sz={} rt={}", hex(&bytes), t.pack_sz(), rt)
                    } else {
                        let b = unhex(arg);
                        match field_types::string::unpack(&b) {
                            Ok((x, r)) => { let mut o = String::from("ok "); show_bytes(x.0.as_bytes(), &mut o); o.push_str("rest="); o.push_str(&hex(r)); o }
                            Err(e) => format!("err {}", code(&e)),
                        }
                    }
                }
                _ => scalar!(kind, op, arg, [
                    (int32, i32), (int64, i64), (uint32, u32), (uint64, u64), (sint32, i32), (sint64, i64),
                    (fixed32, u32), (fixed64, u64), (sfixed32, i32), (sfixed64, i64), (float, f32), (double, f64),
                    (Bool, bool), (bytes16, [u8; 16]), (bytes32, [u8; 32]), (bytes64, [u8; 64])
                ]),
            }
        }
        "v64d" => {
            let b = unhex(rest);
            match v64::unpack(&b) {
                Ok((v, r)) => format!("ok {} rest={}", <v64 as Into<u64>>::into(v), hex(r)),
                Err(e) => format!("err {}", code(&e)),
            }
        }
        "v64e" => {
            let n: u64 = rest.trim().parse().expect("HARNESS-PARSE u64");
            let v = v64::from(n);
            let bytes = stack_pack(v).to_vec();
            format!("{} sz={}", hex(&bytes), v.pack_sz())
        }
        "tagd" => {
            let b = unhex(rest);
            match Tag::unpack(&b) {
                Ok((t, r)) => format!("ok {} {} rest={}", t.field_number.get(), wt_num(t.wire_type), hex(r)),
                Err(e) => format!("err {}", code(&e)),
            }
        }
        "tage" => {
            let mut it = rest.split_whitespace();
            let n: u32 = it.next().unwrap().parse().expect("HARNESS-PARSE u32");
            let w: u32 = it.next().unwrap().parse().expect("HARNESS-PARSE u32");
            let t = Tag { field_number: FieldNumber::must(n), wire_type: WireType::new(w).expect("HARNESS-PARSE wt") };
            let bytes = stack_pack(t).to_vec();
            format!("{} sz={}", hex(&bytes), t.pack_sz())
        }
        "zz" => {
            let n: i64 = rest.trim().parse().expect("HARNESS-PARSE i64");
            format!("{}", prototk::zigzag(n))
        }
        "uzz" => {
            let n: u64 = rest.trim().parse().expect("HARNESS-PARSE u64");
            format!("{}", prototk::unzigzag(n))
        }
        "repack" => {
            // repack sst::Type HEX | repack prototk::tests_<file>::Type HEX
            let (name, arg) = rest.split_once(' ').unwrap_or((rest, ""));
            let buf = unhex(arg);
            let parts: Vec<&str> = name.split("::").collect();
            let r = match parts.as_slice() {
                ["sst", t] => sst::verif_repack(t, &buf),
                ["prototk", file, t] => gen_repack(file, t, &buf),
                _ => None,
            };
            match r {
                Some(Ok((bytes, left))) => format!("ok {} rest={}", hex(&bytes), hex(&buf[buf.len() - left..])),
                Some(Err(c)) => format!("err {}", c),
                None => panic!("HARNESS-PARSE unknown declared type"),
            }
        }
        "deep" => {
            // decode a deeply nested encoding of the recursive type Tree (run in its own process by the check:
            // a stack overflow aborts the process, it cannot be caught)
            let depth: usize = rest.trim().parse().expect("HARNESS-PARSE usize");
            let buf = deep_input(depth);
            let r = match Tree::unpack(&buf) {
                Ok((t, _)) => {
                    let mut d = 0usize;
                    let mut cur = &t;
                    while let Some(k) = cur.kids.first() { d += 1; cur = k; }
                    let s = format!("ok depth={} bytes={}", d, buf.len());
                    std::mem::forget(t); // dropping a very deep tree recurses as well
                    s
                }
                Err(e) => format!("err {} bytes={}", code(&e), buf.len()),
            };
            r
        }
        "" => String::new(),
        _ => panic!("HARNESS-PARSE unknown op"),
    }
}

fn main() {
    hx::per_line(|line| run(line));
}
