//! c07: one *session* of a real lsmtk::KeyValueStore that can hold SEVERAL open scan cursors while
//! the store moves under them (property C07).  Script on stdin, one output line per op.
//!
//! usage: c07 <dir> [lsmtk option flags...]
//! ops (keys/values hex, `-` = empty):
//!   put K V | del K | batch K=V,K=~,...  | get K,K,...
//!   open ID LO HI        range_scan with bounds U | I<hex> | E<hex>; the cursor is kept under ID
//!   step ID PROG         PROG = comma list of F L N P S<hex>; prints key@ts=value | . | err:class
//!                        per call (stops at the first error); a dereference of a skiplist node
//!                        that the allocation registry does not know as live appends ` UAF:<n>`
//!   close ID             drop the cursor
//!   flush | compact | peek | state | dump | ls
//!   rmtrash              unlink every file in trash/ (what the verifier's clean-up does)
//!   verify               run lsmtk::LsmVerifier::verify() in this process
//!   reg                  allocation registry counters
//!   topen ID LO HI       a scan through the TREE api (LsmTree::range_scan: the version only, timestamp u64::MAX)
//!   stepinj ID OP K KEY VAL   one cursor call with a put(KEY, VAL) (VAL `~` = del) performed INSIDE the call, from the
//!                        skipfree hook, at the K-th hook event of the call on this thread (a placed concurrent write);
//!                        appends ` INJ:<done>:<hook events seen>`
//!   conc2 T R K W        second concurrent stage: K keys in many small ssts below L0 (written, flushed, compacted), then T
//!                        scanner threads walk the whole range R times each, lined up by a barrier (lazy opens of the same
//!                        ssts at the same time), while W writer threads overwrite and delete a few hot keys under the scanners
//!   conc R B S C         the concurrent stage: one thread writes R batches of B keys (own prefix and marker value per
//!                        batch), S threads issue single puts all the time, C threads open scan cursors on the batch about
//!                        to complete (and on the one completed last) and walk each three times; prints
//!                        CONC scans=.. unstable=.. partial=.. missing=.. [first failures]; the registry is switched off
//! The memtable thread is the real one (flush = verif_request_flush + verif_wait_flush);
//! compaction is single-stepped through LsmTree::verif_compaction_step.
use std::collections::{HashMap, HashSet};
use std::io::{BufRead, Write};
use std::ops::Bound;
use std::sync::Mutex;
use std::sync::atomic::{AtomicUsize, Ordering};

use arrrg::CommandLine;
use hx::{hex, unhex};
use lsmtk::{KeyValueStore, LsmVerifier, LsmtkOptions, WriteBatch};
use sst::Cursor;

// ---- the allocation registry of skipfree nodes (hook f4171fe, cfg(blue_verif))
static LIVE: Mutex<Option<HashSet<usize>>> = Mutex::new(None);
static ALLOCS: AtomicUsize = AtomicUsize::new(0);
static FREES: AtomicUsize = AtomicUsize::new(0);
static DEREFS: AtomicUsize = AtomicUsize::new(0);
static BAD: AtomicUsize = AtomicUsize::new(0);

// ---- a write placed inside a cursor call (stepinj)
static KVS_PTR: AtomicUsize = AtomicUsize::new(0);
thread_local! {
    static INJ_ARMED: std::cell::Cell<bool> = const { std::cell::Cell::new(false) };
    static INJ_AT: std::cell::Cell<usize> = const { std::cell::Cell::new(0) };
    static INJ_SEEN: std::cell::Cell<usize> = const { std::cell::Cell::new(0) };
    static INJ_DONE: std::cell::Cell<usize> = const { std::cell::Cell::new(0) };
    static INJ_KV: std::cell::RefCell<(Vec<u8>, Option<Vec<u8>>)> = const { std::cell::RefCell::new((Vec::new(), None)) };
}

fn maybe_inject(phase: usize) {
    if phase == 0 || !INJ_ARMED.with(|a| a.get()) {
        return;
    }
    let seen = INJ_SEEN.with(|c| { c.set(c.get() + 1); c.get() });
    if seen != INJ_AT.with(|c| c.get()) {
        return;
    }
    INJ_ARMED.with(|a| a.set(false));
    let p = KVS_PTR.load(Ordering::SeqCst);
    if p == 0 {
        return;
    }
    let kvs: &'static KeyValueStore = unsafe { &*(p as *const KeyValueStore) };
    let (k, v) = INJ_KV.with(|kv| kv.borrow().clone());
    let ok = match v {
        Some(v) => kvs.put(&k, &v).is_ok(),
        None => kvs.del(&k).is_ok(),
    };
    INJ_DONE.with(|d| d.set(if ok { 1 } else { 2 }));
    // keep counting the events of the rest of the call
    INJ_ARMED.with(|a| a.set(true));
    INJ_AT.with(|c| c.set(usize::MAX));
}

fn registry_hook(phase: usize, kind: usize, node: usize, _level: usize, _cell: usize) {
    registry_hook_inner(phase, kind, node);
    maybe_inject(phase);
}

fn registry_hook_inner(phase: usize, kind: usize, node: usize) {
    if phase != 2 {
        // an atomic operation on a successor cell: the node holding the cell is dereferenced
        if phase == 0 {
            check_live(node);
        }
        return;
    }
    match kind {
        skipfree::verif::ALLOC => {
            ALLOCS.fetch_add(1, Ordering::Relaxed);
            let mut g = LIVE.lock().unwrap();
            g.get_or_insert_with(HashSet::new).insert(node);
        }
        skipfree::verif::FREE => {
            FREES.fetch_add(1, Ordering::Relaxed);
            let mut g = LIVE.lock().unwrap();
            if !g.get_or_insert_with(HashSet::new).remove(&node) {
                BAD.fetch_add(1, Ordering::Relaxed); // double free
            }
        }
        skipfree::verif::DEREF => check_live(node),
        _ => {}
    }
}

fn check_live(node: usize) {
    DEREFS.fetch_add(1, Ordering::Relaxed);
    let g = LIVE.lock().unwrap();
    let live = g.as_ref().map(|s| s.contains(&node)).unwrap_or(false);
    if !live {
        BAD.fetch_add(1, Ordering::Relaxed);
    }
}

fn hx0(b: &[u8]) -> String {
    if b.is_empty() { "-".to_string() } else { hex(b) }
}

fn err_class(e: &lsmtk::SError) -> String {
    let s = e.to_string();
    match lsmtk::error_code(e) {
        Some(c) => c.to_string(),
        None => {
            if let Some(i) = s.find("(code ") {
                let rest = &s[i + 6..];
                let end = rest.find(')').unwrap_or(rest.len());
                rest[..end].trim().trim_matches('"').to_string()
            } else if s.contains("No such file") || s.contains("NotFound") || s.contains("os error 2") {
                "ENOENT".to_string()
            } else {
                s.chars().filter(|c| !c.is_whitespace()).take(60).collect()
            }
        }
    }
}

/// error class, with ENOENT recognised whatever code wraps it
fn err_class2(e: &lsmtk::SError) -> String {
    let s = e.to_string();
    if s.contains("No such file") || s.contains("os error 2") || s.contains("NotFound") {
        return "ENOENT".to_string();
    }
    err_class(e)
}

fn bound(s: &str) -> Bound<Vec<u8>> {
    match s.as_bytes()[0] {
        b'U' => Bound::Unbounded,
        b'I' => Bound::Included(unhex(&s[1..])),
        b'E' => Bound::Excluded(unhex(&s[1..])),
        _ => panic!("bad bound"),
    }
}

fn print_files(out: &mut impl Write, root: &str, kvs: &KeyValueStore, seen: &mut HashSet<String>) {
    let dump = kvs.verif_tree().verif_dump();
    for (_, md) in dump.iter() {
        let name = hex(&md.setsum);
        if seen.insert(name.clone()) {
            let path = format!("{root}/sst/{name}.sst");
            let mut line = format!("FILE {name}");
            match sst::Sst::<sst::file_manager::FileHandle>::new(sst::SstOptions::default(), &path) {
                Ok(sst) => {
                    let mut c = sst.cursor();
                    let mut ok = c.seek_to_first().is_ok();
                    while ok {
                        if c.next().is_err() {
                            line.push_str(" ERR");
                            break;
                        }
                        match c.key_value() {
                            Some(kv) => {
                                line.push_str(&format!(
                                    " {}:{}:{}",
                                    hx0(kv.key),
                                    kv.timestamp,
                                    match kv.value { Some(v) => hx0(v), None => "~".to_string() }
                                ));
                            }
                            None => { ok = false; }
                        }
                    }
                }
                Err(e) => line.push_str(&format!(" OPENERR:{}", err_class(&e))),
            }
            writeln!(out, "{line}").unwrap();
        }
    }
    let mut line = "DUMP".to_string();
    for (lvl, md) in dump.iter() {
        line.push_str(&format!(
            " {}:{}:{}:{}:{}:{}:{}",
            lvl, hex(&md.setsum), hx0(&md.first_key), hx0(&md.last_key),
            md.smallest_timestamp, md.biggest_timestamp, md.file_size
        ));
    }
    writeln!(out, "{line}").unwrap();
}

fn ls(root: &str) -> String {
    let mut parts = vec![];
    for sub in ["sst", "trash"] {
        let mut names: Vec<String> = match std::fs::read_dir(format!("{root}/{sub}")) {
            Ok(rd) => rd.filter_map(|e| e.ok()).map(|e| e.file_name().to_string_lossy().to_string())
                .filter(|n| n.ends_with(".sst")).map(|n| n.trim_end_matches(".sst").to_string()).collect(),
            Err(_) => vec!["?".to_string()],
        };
        names.sort();
        parts.push(format!("{}={}", sub, names.join(",")));
    }
    parts.join(" ")
}


// ---- the concurrent stage
fn walk_forward(c: &mut dyn Cursor) -> Result<Vec<(Vec<u8>, u64, Option<Vec<u8>>)>, String> {
    let mut out = vec![];
    c.seek_to_first().map_err(|e| err_class2(&e))?;
    loop {
        c.next().map_err(|e| err_class2(&e))?;
        match c.key_value() {
            Some(kv) => out.push((kv.key.to_vec(), kv.timestamp, kv.value.map(|v| v.to_vec()))),
            None => break,
        }
    }
    Ok(out)
}

fn walk_backward(c: &mut dyn Cursor) -> Result<Vec<(Vec<u8>, u64, Option<Vec<u8>>)>, String> {
    let mut out = vec![];
    c.seek_to_last().map_err(|e| err_class2(&e))?;
    loop {
        c.prev().map_err(|e| err_class2(&e))?;
        match c.key_value() {
            Some(kv) => out.push((kv.key.to_vec(), kv.timestamp, kv.value.map(|v| v.to_vec()))),
            None => break,
        }
    }
    out.reverse();
    Ok(out)
}

fn conc_prefix(round: usize) -> String {
    format!("A{round:04}-")
}

fn conc_stage(kvs: &'static KeyValueStore, rounds: usize, batch: usize, smalls: usize, scanners: usize) -> String {
    use std::sync::atomic::AtomicBool;
    use std::sync::Arc;
    skipfree::verif::set_hook(None);
    let completed = Arc::new(AtomicUsize::new(0));
    let done = Arc::new(AtomicBool::new(false));
    let failures: Arc<Mutex<Vec<String>>> = Arc::new(Mutex::new(vec![]));
    let scans = Arc::new(AtomicUsize::new(0));
    let unstable = Arc::new(AtomicUsize::new(0));
    let partial = Arc::new(AtomicUsize::new(0));
    let missing = Arc::new(AtomicUsize::new(0));
    let errors = Arc::new(AtomicUsize::new(0));
    let mut handles = vec![];
    for t in 0..smalls {
        let done = done.clone();
        let errors = errors.clone();
        handles.push(std::thread::spawn(move || {
            let mut i = 0u64;
            while !done.load(Ordering::Relaxed) {
                if kvs.put(format!("B{t}-{i:012}").as_bytes(), b"small").is_err() {
                    errors.fetch_add(1, Ordering::Relaxed);
                    break;
                }
                i += 1;
            }
        }));
    }
    {
        let completed = completed.clone();
        let errors = errors.clone();
        handles.push(std::thread::spawn(move || {
            for round in 0..rounds {
                let mut wb = WriteBatch::with_capacity(batch);
                let p = conc_prefix(round);
                let marker = format!("m{round}");
                for i in 0..batch {
                    wb.put(format!("{p}{i:06}").as_bytes(), marker.as_bytes());
                }
                if kvs.write(wb).is_err() {
                    errors.fetch_add(1, Ordering::Relaxed);
                }
                completed.fetch_add(1, Ordering::SeqCst);
                std::thread::sleep(std::time::Duration::from_millis(2));
            }
        }));
    }
    let mut scan_handles = vec![];
    for sid in 0..scanners {
        let (completed, failures, scans, unstable, partial, missing, errors) =
            (completed.clone(), failures.clone(), scans.clone(), unstable.clone(), partial.clone(), missing.clone(), errors.clone());
        scan_handles.push(std::thread::spawn(move || {
            let mut turn = 0usize;
            loop {
                let round = completed.load(Ordering::SeqCst);
                if round >= rounds {
                    break;
                }
                turn += 1;
                // mostly the batch that is about to complete; now and then the one completed last
                let (target, must_be_whole) = if turn % 8 == 0 && round > 0 { (round - 1, true) } else { (round, false) };
                let lo = conc_prefix(target).into_bytes();
                let mut hi = lo.clone();
                hi.push(0xff);
                let (lo, hi) = (Bound::Included(lo), Bound::Excluded(hi));
                let mut cursor = match kvs.range_scan(&lo, &hi) {
                    Ok(c) => c,
                    Err(_) => { errors.fetch_add(1, Ordering::Relaxed); continue; }
                };
                let walks = if sid % 2 == 0 {
                    [walk_backward(&mut cursor), walk_forward(&mut cursor), walk_backward(&mut cursor)]
                } else {
                    [walk_forward(&mut cursor), walk_backward(&mut cursor), walk_forward(&mut cursor)]
                };
                scans.fetch_add(1, Ordering::Relaxed);
                let (w0, w1, w2) = match (&walks[0], &walks[1], &walks[2]) {
                    (Ok(a), Ok(b), Ok(c)) => (a, b, c),
                    _ => { errors.fetch_add(1, Ordering::Relaxed); continue; }
                };
                let marker = format!("m{target}").into_bytes();
                let stable = w0 == w1 && w1 == w2;
                let whole = |w: &Vec<(Vec<u8>, u64, Option<Vec<u8>>)>| {
                    w.is_empty() || (w.len() == batch && w.iter().all(|e| e.2.as_deref() == Some(&marker[..])))
                };
                let all_whole = whole(w0) && whole(w1) && whole(w2);
                let miss = must_be_whole && w0.is_empty();
                if !stable { unstable.fetch_add(1, Ordering::Relaxed); }
                if !all_whole { partial.fetch_add(1, Ordering::Relaxed); }
                if miss { missing.fetch_add(1, Ordering::Relaxed); }
                if !stable || !all_whole || miss {
                    let mut f = failures.lock().unwrap();
                    if f.len() < 4 {
                        f.push(format!("batch{}:{}:{}/{}/{}of{}", target, if sid % 2 == 0 { "BFB" } else { "FBF" }, w0.len(), w1.len(), w2.len(), batch));
                    }
                }
            }
        }));
    }
    for h in scan_handles {
        let _ = h.join();
    }
    done.store(true, Ordering::Relaxed);
    for h in handles {
        let _ = h.join();
    }
    let f = failures.lock().unwrap();
    format!("CONC scans={} unstable={} partial={} missing={} errors={} rounds={} {}", scans.load(Ordering::Relaxed), unstable.load(Ordering::Relaxed),
        partial.load(Ordering::Relaxed), missing.load(Ordering::Relaxed), errors.load(Ordering::Relaxed), completed.load(Ordering::SeqCst), f.join(" "))
}

// ---- the second concurrent stage: many scanners over many small ssts below L0 (lazy opens of the same files at the same
//      time, sst cache off), writers overwriting and deleting a few hot keys in the live memtable under the scanners
fn conc2_stage(kvs: &'static KeyValueStore, threads: usize, rounds: usize, keys: usize, writers: usize) -> String {
    use std::sync::atomic::AtomicBool;
    use std::sync::{Arc, Barrier};
    skipfree::verif::set_hook(None);
    // the tree: keys in chunks, each chunk flushed, then compacted as far as the selector goes
    let chunk = 25usize;
    let mut i = 0usize;
    while i < keys {
        let mut wb = WriteBatch::with_capacity(chunk);
        for j in i..(i + chunk).min(keys) {
            wb.put(format!("k{j:06}").as_bytes(), format!("v{j}").as_bytes());
        }
        if kvs.write(wb).is_err() { return "CONC2 setup-write-failed".to_string(); }
        let target = kvs.verif_request_flush();
        kvs.verif_wait_flush(target);
        i += chunk;
    }
    let mut steps = 0usize;
    loop {
        match kvs.verif_tree().verif_compaction_step() {
            Ok(None) => break,
            Ok(Some(_)) => { steps += 1; if steps > 400 { break; } }
            Err(_) => return "CONC2 setup-compaction-failed".to_string(),
        }
    }
    let files = kvs.verif_tree().verif_dump().len();
    let deep = kvs.verif_tree().verif_dump().iter().filter(|(lvl, _)| *lvl > 0).count();
    // hot keys: in the live memtable, overwritten and deleted all the time
    let hot = 12usize;
    for h in 0..hot {
        if kvs.put(format!("k{:06}", h * (keys / hot).max(1)).as_bytes(), b"hot0").is_err() { return "CONC2 setup-write-failed".to_string(); }
    }
    let done = Arc::new(AtomicBool::new(false));
    let scans = Arc::new(AtomicUsize::new(0));
    let unstable = Arc::new(AtomicUsize::new(0));
    let panics = Arc::new(AtomicUsize::new(0));
    let errors = Arc::new(AtomicUsize::new(0));
    let first: Arc<Mutex<Vec<String>>> = Arc::new(Mutex::new(vec![]));
    let mut whandles = vec![];
    for w in 0..writers {
        let (done, errors) = (done.clone(), errors.clone());
        whandles.push(std::thread::spawn(move || {
            let mut n = 0u64;
            while !done.load(Ordering::Relaxed) && n < 30000 {
                if n % 8 == 7 { std::thread::sleep(std::time::Duration::from_micros(30)); }
                let h = (n as usize * 7 + w) % hot;
                let key = format!("k{:06}", h * (keys / hot).max(1));
                let r = if n % 5 == 4 { kvs.del(key.as_bytes()) } else { kvs.put(key.as_bytes(), format!("w{w}-{n}").as_bytes()) };
                if r.is_err() { errors.fetch_add(1, Ordering::Relaxed); break; }
                n += 1;
            }
        }));
    }
    let barrier = Arc::new(Barrier::new(threads));
    let mut handles = vec![];
    for sid in 0..threads {
        let (scans, unstable, panics, errors, first, barrier) = (scans.clone(), unstable.clone(), panics.clone(), errors.clone(), first.clone(), barrier.clone());
        handles.push(std::thread::spawn(move || {
            for round in 0..rounds {
                barrier.wait();
                let r = std::panic::catch_unwind(std::panic::AssertUnwindSafe(|| -> Result<bool, String> {
                    let lo: Bound<Vec<u8>> = Bound::Unbounded;
                    let hi: Bound<Vec<u8>> = Bound::Unbounded;
                    let mut cursor = kvs.range_scan(&lo, &hi).map_err(|e| err_class2(&e))?;
                    let (a, b, c) = if (sid + round) % 2 == 0 {
                        (walk_backward(&mut cursor)?, walk_forward(&mut cursor)?, walk_backward(&mut cursor)?)
                    } else {
                        (walk_forward(&mut cursor)?, walk_backward(&mut cursor)?, walk_forward(&mut cursor)?)
                    };
                    Ok(a == b && b == c && a.len() + hot >= keys)
                }));
                scans.fetch_add(1, Ordering::Relaxed);
                match r {
                    Err(_) => {
                        panics.fetch_add(1, Ordering::Relaxed);
                        let mut f = first.lock().unwrap();
                        if f.len() < 3 { f.push(format!("panic:scanner{sid}:round{round}")); }
                    }
                    Ok(Err(e)) => {
                        errors.fetch_add(1, Ordering::Relaxed);
                        let mut f = first.lock().unwrap();
                        if f.len() < 3 { f.push(format!("err:{e}:scanner{sid}:round{round}")); }
                    }
                    Ok(Ok(true)) => {}
                    Ok(Ok(false)) => {
                        unstable.fetch_add(1, Ordering::Relaxed);
                        let mut f = first.lock().unwrap();
                        if f.len() < 3 { f.push(format!("unstable:scanner{sid}:round{round}")); }
                    }
                }
            }
        }));
    }
    let mut thread_panics = 0usize;
    for h in handles {
        if h.join().is_err() { thread_panics += 1; }
    }
    done.store(true, Ordering::Relaxed);
    for h in whandles {
        if h.join().is_err() { thread_panics += 1; }
    }
    let f = first.lock().map(|f| f.join(" ")).unwrap_or_default();
    format!("CONC2 scans={} unstable={} panics={} errors={} files={} deep={} {}", scans.load(Ordering::Relaxed), unstable.load(Ordering::Relaxed),
        panics.load(Ordering::Relaxed) + thread_panics, errors.load(Ordering::Relaxed), files, deep, f)
}

fn main() {
    let args: Vec<String> = std::env::args().collect();
    let root = args[1].clone();
    let mut a: Vec<&str> = vec!["--path", &root];
    for e in args[2..].iter() {
        a.push(e);
    }
    let stdout = std::io::stdout();
    let mut out = std::io::BufWriter::new(stdout.lock());
    hx::quiet_panics();
    skipfree::verif::set_hook(Some(registry_hook));
    let o = LsmtkOptions::from_arguments_relaxed("c07", &a).0;
    let o2 = o.clone();
    let opened = std::panic::catch_unwind(|| KeyValueStore::open(o));
    let kvs: &'static KeyValueStore = match opened {
        Ok(Ok(k)) => Box::leak(Box::new(k)),
        Ok(Err(e)) => {
            writeln!(out, "OPEN err {}", err_class(&e)).unwrap();
            out.flush().unwrap();
            std::process::exit(0);
        }
        Err(_) => {
            writeln!(out, "OPEN PANIC").unwrap();
            out.flush().unwrap();
            std::process::exit(0);
        }
    };
    KVS_PTR.store(kvs as *const KeyValueStore as usize, Ordering::SeqCst);
    writeln!(out, "OPEN ok").unwrap();
    out.flush().unwrap();
    std::thread::spawn(move || {
        let r = std::panic::catch_unwind(std::panic::AssertUnwindSafe(|| kvs.memtable_thread()));
        let msg = match r {
            Ok(Ok(())) => "ok".to_string(),
            Ok(Err(e)) => format!("err {}", err_class(&e)),
            Err(_) => "PANIC".to_string(),
        };
        println!("THREAD memtable {msg}");
    });
    let mut seen = HashSet::new();
    let mut cursors: HashMap<String, Box<dyn Cursor>> = HashMap::new();
    let stdin = std::io::stdin();
    for line in stdin.lock().lines() {
        let line = line.unwrap();
        let t: Vec<&str> = line.split_whitespace().collect();
        if t.is_empty() {
            continue;
        }
        let cursors_ref = &mut cursors;
        let r = std::panic::catch_unwind(std::panic::AssertUnwindSafe(|| -> String {
            match t[0] {
                "put" => match kvs.put(&unhex(t[1]), &unhex(t[2])) { Ok(()) => "PUT ok".into(), Err(e) => format!("PUT err {}", err_class(&e)) },
                "del" => match kvs.del(&unhex(t[1])) { Ok(()) => "DEL ok".into(), Err(e) => format!("DEL err {}", err_class(&e)) },
                "batch" => {
                    let mut wb = WriteBatch::default();
                    for kv in t[1].split(',') {
                        let (k, v) = kv.split_once('=').unwrap();
                        if v == "~" { wb.del(&unhex(k)); } else { wb.put(&unhex(k), &unhex(v)); }
                    }
                    match kvs.write(wb) { Ok(()) => "BATCH ok".into(), Err(e) => format!("BATCH err {}", err_class(&e)) }
                }
                "get" => {
                    let mut s = "GET".to_string();
                    for k in t[1].split(',') {
                        let mut tomb = false;
                        match kvs.load(&unhex(k), &mut tomb) {
                            Ok(Some(v)) => s.push_str(&format!(" {}", hx0(&v))),
                            Ok(None) => s.push_str(if tomb { " ~" } else { " ." }),
                            Err(e) => s.push_str(&format!(" err:{}", err_class2(&e))),
                        }
                    }
                    s
                }
                "open" => {
                    // the returned `impl Cursor` is taken to borrow the bounds: keep them for good
                    let lo: &'static Bound<Vec<u8>> = Box::leak(Box::new(bound(t[2])));
                    let hi: &'static Bound<Vec<u8>> = Box::leak(Box::new(bound(t[3])));
                    let bad0 = BAD.load(Ordering::Relaxed);
                    match kvs.range_scan(lo, hi) {
                        Err(e) => format!("OPEN err {}", err_class2(&e)),
                        Ok(c) => {
                            cursors_ref.insert(t[1].to_string(), Box::new(c));
                            let bad = BAD.load(Ordering::Relaxed) - bad0;
                            if bad > 0 { format!("OPENED {} UAF:{}", t[1], bad) } else { format!("OPENED {}", t[1]) }
                        }
                    }
                }
                "topen" => {
                    let lo: &'static Bound<Vec<u8>> = Box::leak(Box::new(bound(t[2])));
                    let hi: &'static Bound<Vec<u8>> = Box::leak(Box::new(bound(t[3])));
                    match kvs.verif_tree().range_scan(lo, hi) {
                        Err(e) => format!("OPEN err {}", err_class2(&e)),
                        Ok(c) => {
                            cursors_ref.insert(t[1].to_string(), Box::new(c));
                            format!("OPENED {}", t[1])
                        }
                    }
                }
                "stepinj" => {
                    let Some(c) = cursors_ref.get_mut(t[1]) else { return format!("STEP nocursor {}", t[1]); };
                    let step = t[2];
                    let at: usize = t[3].parse().unwrap();
                    let key = unhex(t[4]);
                    let val = if t[5] == "~" { None } else { Some(unhex(t[5])) };
                    INJ_KV.with(|kv| *kv.borrow_mut() = (key, val));
                    INJ_AT.with(|c| c.set(at));
                    INJ_SEEN.with(|c| c.set(0));
                    INJ_DONE.with(|c| c.set(0));
                    let bad0 = BAD.load(Ordering::Relaxed);
                    INJ_ARMED.with(|a| a.set(true));
                    let r = std::panic::catch_unwind(std::panic::AssertUnwindSafe(|| match step.as_bytes()[0] {
                        b'F' => c.seek_to_first(),
                        b'L' => c.seek_to_last(),
                        b'N' => c.next(),
                        b'P' => c.prev(),
                        b'S' => c.seek(&unhex(&step[1..])),
                        _ => panic!("bad step"),
                    }));
                    INJ_ARMED.with(|a| a.set(false));
                    let tail = format!(" INJ:{}:{}", INJ_DONE.with(|d| d.get()), INJ_SEEN.with(|d| d.get()));
                    let mut s = "STEP".to_string();
                    match r {
                        Err(_) => return format!("PANIC stepinj{tail}"),
                        Ok(Err(e)) => s.push_str(&format!(" err:{}", err_class2(&e))),
                        Ok(Ok(())) => match c.key_value() {
                            Some(kv) => s.push_str(&format!(" {}@{}={}", hx0(kv.key), kv.timestamp, match kv.value { Some(v) => hx0(v), None => "~".to_string() })),
                            None => s.push_str(" ."),
                        },
                    }
                    let bad = BAD.load(Ordering::Relaxed) - bad0;
                    if bad > 0 { s.push_str(&format!(" UAF:{}", bad)); }
                    s.push_str(&tail);
                    s
                }
                "step" => {
                    let Some(c) = cursors_ref.get_mut(t[1]) else { return format!("STEP nocursor {}", t[1]); };
                    let mut s = "STEP".to_string();
                    let bad0 = BAD.load(Ordering::Relaxed);
                    for step in t[2].split(',') {
                        let r = match step.as_bytes()[0] {
                            b'F' => c.seek_to_first(),
                            b'L' => c.seek_to_last(),
                            b'N' => c.next(),
                            b'P' => c.prev(),
                            b'S' => c.seek(&unhex(&step[1..])),
                            _ => panic!("bad step"),
                        };
                        match r {
                            Err(e) => { s.push_str(&format!(" err:{}", err_class2(&e))); break; }
                            Ok(()) => match c.key_value() {
                                Some(kv) => s.push_str(&format!(" {}@{}={}", hx0(kv.key), kv.timestamp, match kv.value { Some(v) => hx0(v), None => "~".to_string() })),
                                None => s.push_str(" ."),
                            },
                        }
                    }
                    let bad = BAD.load(Ordering::Relaxed) - bad0;
                    if bad > 0 { s.push_str(&format!(" UAF:{}", bad)); }
                    s
                }
                "close" => {
                    let bad0 = BAD.load(Ordering::Relaxed);
                    let had = cursors_ref.remove(t[1]).is_some();
                    let bad = BAD.load(Ordering::Relaxed) - bad0;
                    if bad > 0 { format!("CLOSED {} UAF:{}", had as u8, bad) } else { format!("CLOSED {}", had as u8) }
                }
                "flush" => {
                    let target = kvs.verif_request_flush();
                    kvs.verif_wait_flush(target);
                    format!("FLUSH {target}")
                }
                "compact" => match kvs.verif_tree().verif_compaction_step() {
                    Ok(None) => "COMPACT none".into(),
                    Ok(Some(c)) => format!("COMPACT {} {} {} {} {} {}", c.lower_level, c.upper_level, hx0(&c.first_key), hx0(&c.last_key), c.size, c.inputs.join(",")),
                    Err(e) => format!("COMPACT err {}", err_class2(&e)),
                },
                "peek" => match kvs.verif_tree().verif_peek_compaction() {
                    None => "PEEK none".into(),
                    Some(c) => format!("PEEK {} {} {} {} {} {}", c.lower_level, c.upper_level, hx0(&c.first_key), hx0(&c.last_key), c.size, c.inputs.join(",")),
                },
                "state" => {
                    let st = kvs.verif_state();
                    format!("STATE {} {} {} {} {}", st.seq_no, st.mem_seq_no, st.imm_trigger, st.has_imm as u8, st.mem_size)
                }
                "dump" => "DUMPREQ".into(),
                "ls" => format!("LS {}", ls(&root)),
                "rmtrash" => {
                    let mut n = 0;
                    if let Ok(rd) = std::fs::read_dir(format!("{root}/trash")) {
                        for e in rd.filter_map(|e| e.ok()) {
                            if std::fs::remove_file(e.path()).is_ok() { n += 1; }
                        }
                    }
                    format!("RMTRASH {n}")
                }
                "verify" => match LsmVerifier::open(o2.clone()) {
                    Err(e) => format!("VERIFY openerr {}", err_class2(&e)),
                    Ok(mut v) => match v.verify() {
                        Ok(()) => "VERIFY ok".into(),
                        Err(e) => format!("VERIFY err {}", err_class2(&e)),
                    },
                },
                "conc2" => conc2_stage(kvs, t[1].parse().unwrap(), t[2].parse().unwrap(), t[3].parse().unwrap(), t[4].parse().unwrap()),
                "conc" => conc_stage(kvs, t[1].parse().unwrap(), t[2].parse().unwrap(), t[3].parse().unwrap(), t[4].parse().unwrap()),
                "reg" => format!("REG allocs={} frees={} derefs={} bad={}", ALLOCS.load(Ordering::Relaxed), FREES.load(Ordering::Relaxed),
                    DEREFS.load(Ordering::Relaxed), BAD.load(Ordering::Relaxed)),
                _ => format!("BADOP {}", t[0]),
            }
        }));
        match r {
            Ok(s) if s == "DUMPREQ" => print_files(&mut out, &root, kvs, &mut seen),
            Ok(s) => writeln!(out, "{s}").unwrap(),
            Err(_) => writeln!(out, "PANIC {}", t[0]).unwrap(),
        }
        out.flush().unwrap();
    }
    out.flush().unwrap();
    // cursors are dropped before exit so that their Drop code runs under the registry too
    let r = std::panic::catch_unwind(std::panic::AssertUnwindSafe(|| drop(cursors)));
    if r.is_err() {
        println!("PANIC drop");
    }
    std::process::exit(0);
}
