//! C16 harness: runs tuple-key cases on the real tuple_key (field-numbered), tuple_key2 (compact)
//! and tuple_key_derive code.  One case per stdin line, one output line per case; a panic inside
//! a case prints PANIC for that case.  Line formats are those of ocaml/tuplekey/mx_tuplekey.ml:
//!
//!   2P A B EA EB   hexA hexB hexAE hexBE cmpAB cmpAE_B cmpAE_BE cmpA_AE decA decAE
//!   2D TYPES HEX   ok:<tuple> | err:<Class>
//!   1P A B EA EB   hexA hexB hexAE hexBE cmpAB cmpAE_B cmpAE_BE cmpA_AE decA decAE decA2
//!   1D VIA SHAPE HEX
//!   1I HEX         pieces(,) peek
//!   1S NAME A B    derived struct NAME: hexA hexB cmpAB decA   (Into / Ord / TryFrom)
//!
//! cmp is the derived `Ord` of the TupleKey types (what storage compares).
use hx::{hex, unhex};
use prototk::FieldNumber;
use std::cmp::Ordering;
use tuple_key::{Direction, KeyDataType, TupleKey as TK1, TupleKeyParser as P1};
use tuple_key2::{Error as E2, TupleKey as TK2, TupleKeyParser as P2};
use tuple_key_derive::TypedTupleKey;

fn hexd(b: &[u8]) -> String {
    if b.is_empty() { "-".to_string() } else { hex(b) }
}

fn toks(s: &str) -> Vec<&str> {
    if s == "-" || s.is_empty() { vec![] } else { s.split(',').collect() }
}

fn cmp_str(o: Ordering) -> &'static str {
    match o {
        Ordering::Less => "lt",
        Ordering::Equal => "eq",
        Ordering::Greater => "gt",
    }
}

fn tuple_str(v: Vec<String>) -> String {
    if v.is_empty() { "-".to_string() } else { v.join(",") }
}

fn parse_u(s: &str) -> u64 {
    u64::from_str_radix(s, 16).expect("hex u64")
}

fn parse_i(s: &str) -> i64 {
    if let Some(m) = s.strip_prefix('-') {
        let m = u64::from_str_radix(m, 16).expect("hex i64");
        (m as i64).wrapping_neg()
    } else {
        u64::from_str_radix(s, 16).expect("hex i64") as i64
    }
}

fn show_i(v: i64) -> String {
    if v < 0 { format!("-{:x}", (v as i128).unsigned_abs()) } else { format!("{:x}", v) }
}

// ------------------------------------------------------------------------------------ v2
#[derive(Clone, Debug)]
enum El2 {
    Unit,
    Bytes(Vec<u8>),
    Str(String),
    U(u32, u64),
    I(u32, i64),
}

fn el2_of(t: &str) -> El2 {
    let c = t.as_bytes()[0];
    match c {
        b'n' => El2::Unit,
        b'b' => El2::Bytes(unhex(&t[1..])),
        b's' => El2::Str(String::from_utf8(unhex(&t[1..])).expect("generator sends valid UTF-8")),
        b'u' | b'i' => {
            let k = t.find(':').unwrap();
            let bits: u32 = t[1..k].parse().unwrap();
            if c == b'u' { El2::U(bits, parse_u(&t[k + 1..])) } else { El2::I(bits, parse_i(&t[k + 1..])) }
        }
        _ => panic!("el2"),
    }
}

fn enc2(t: &[El2]) -> TK2 {
    let mut b = TK2::builder();
    for e in t {
        b = match e {
            El2::Unit => b.unit(),
            El2::Bytes(x) => b.bytes(x),
            El2::Str(s) => b.string(s),
            El2::U(8, v) => b.u8(*v as u8),
            El2::U(16, v) => b.u16(*v as u16),
            El2::U(32, v) => b.u32(*v as u32),
            El2::U(_, v) => b.u64(*v),
            El2::I(8, v) => b.i8(*v as i8),
            El2::I(16, v) => b.i16(*v as i16),
            El2::I(32, v) => b.i32(*v as i32),
            El2::I(_, v) => b.i64(*v),
        };
    }
    b.build()
}

fn ty2_of(e: &El2) -> String {
    match e {
        El2::Unit => "n".into(),
        El2::Bytes(_) => "b".into(),
        El2::Str(_) => "s".into(),
        El2::U(b, _) => format!("u{}", b),
        El2::I(b, _) => format!("i{}", b),
    }
}

fn err2_class(e: &E2) -> &'static str {
    match e {
        E2::UnexpectedEnd => "UnexpectedEnd",
        E2::InvalidIntegerTag { .. } => "InvalidIntegerTag",
        E2::InvalidUnitTag { .. } => "InvalidUnitTag",
        E2::NonCanonicalInteger => "NonCanonicalInteger",
        E2::ValueOutOfRange { .. } => "ValueOutOfRange",
        E2::InvalidBytesEscape { .. } => "InvalidBytesEscape",
        E2::UnterminatedBytes => "UnterminatedBytes",
        E2::InvalidUtf8 => "InvalidUtf8",
        E2::TrailingBytes { .. } => "TrailingBytes",
    }
}

fn dec2(tys: &[String], key: &TK2) -> String {
    let mut p: P2 = key.parser();
    let mut out = vec![];
    for t in tys {
        let r: Result<String, E2> = match t.as_str() {
            "n" => p.unit().map(|_| "n".to_string()),
            "b" => p.bytes().map(|b| format!("b{}", hex(&b))),
            "s" => p.string().map(|s| format!("s{}", hex(s.as_bytes()))),
            "u8" => p.u8().map(|v| format!("u8:{:x}", v)),
            "u16" => p.u16().map(|v| format!("u16:{:x}", v)),
            "u32" => p.u32().map(|v| format!("u32:{:x}", v)),
            "u64" => p.u64().map(|v| format!("u64:{:x}", v)),
            "i8" => p.i8().map(|v| format!("i8:{}", show_i(v as i64))),
            "i16" => p.i16().map(|v| format!("i16:{}", show_i(v as i64))),
            "i32" => p.i32().map(|v| format!("i32:{}", show_i(v as i64))),
            "i64" => p.i64().map(|v| format!("i64:{}", show_i(v))),
            _ => panic!("ty2"),
        };
        match r {
            Ok(s) => out.push(s),
            Err(e) => return format!("err:{}", err2_class(&e)),
        }
    }
    match p.finish() {
        Ok(()) => format!("ok:{}", tuple_str(out)),
        Err(e) => format!("err:{}", err2_class(&e)),
    }
}

// ------------------------------------------------------------------------------------ v1
#[derive(Clone, Debug)]
enum El1 {
    Unit,
    U32(u32),
    U64(u64),
    I32(i32),
    I64(i64),
    Str(String),
}

#[derive(Clone, Debug)]
struct Field1 {
    f: u32,
    d: Direction,
    v: El1,
}

fn dir_of(s: &str) -> Direction {
    match s {
        "F" => Direction::Forward,
        "R" => Direction::Reverse,
        _ => panic!("dir"),
    }
}

fn el1_of(t: &str) -> El1 {
    if t == "n" {
        El1::Unit
    } else if let Some(h) = t.strip_prefix('s') {
        El1::Str(String::from_utf8(unhex(h)).expect("generator sends valid UTF-8"))
    } else {
        let k = t.find(':').unwrap();
        match &t[..k] {
            "u32" => El1::U32(parse_u(&t[k + 1..]) as u32),
            "u64" => El1::U64(parse_u(&t[k + 1..])),
            "i32" => El1::I32(parse_i(&t[k + 1..]) as i32),
            "i64" => El1::I64(parse_i(&t[k + 1..])),
            _ => panic!("el1"),
        }
    }
}

fn el1_str(e: &El1) -> String {
    match e {
        El1::Unit => "n".into(),
        El1::U32(v) => format!("u32:{:x}", v),
        El1::U64(v) => format!("u64:{:x}", v),
        El1::I32(v) => format!("i32:{}", show_i(*v as i64)),
        El1::I64(v) => format!("i64:{}", show_i(*v)),
        El1::Str(s) => format!("s{}", hex(s.as_bytes())),
    }
}

fn field_of(t: &str) -> Field1 {
    let p: Vec<&str> = t.split('/').collect();
    Field1 { f: u32::from_str_radix(p[0], 16).unwrap(), d: dir_of(p[1]), v: el1_of(p[2]) }
}

fn ty1_of(e: &El1) -> &'static str {
    match e {
        El1::Unit => "n",
        El1::U32(_) => "u32",
        El1::U64(_) => "u64",
        El1::I32(_) => "i32",
        El1::I64(_) => "i64",
        El1::Str(_) => "s",
    }
}

fn enc1(t: &[Field1]) -> TK1 {
    let mut k = TK1::default();
    for fl in t {
        let f = FieldNumber::must(fl.f);
        match &fl.v {
            // TupleKey::extend(f) is the unit/Forward case; use both entry points
            El1::Unit => {
                if fl.d == Direction::Forward && fl.f % 2 == 0 {
                    k.extend(f)
                } else {
                    k.extend_with_key(f, (), fl.d)
                }
            }
            El1::U32(x) => k.extend_with_key(f, *x, fl.d),
            El1::U64(x) => k.extend_with_key(f, *x, fl.d),
            El1::I32(x) => k.extend_with_key(f, *x, fl.d),
            El1::I64(x) => k.extend_with_key(f, *x, fl.d),
            El1::Str(x) => k.extend_with_key(f, x.clone(), fl.d),
        }
    }
    k
}

fn err1_class(msg: &str) -> &'static str {
    match msg {
        "no more elements to TupleKey" => "NoMoreElements",
        "tag does not match" => "TagMismatch",
        "missing value element" => "MissingValue",
        "unit struct with length != 1" => "UnitStructLength",
        "unit not exactly 1 bytes" => "UnitLength",
        "buf not exactly 5 bytes" => "BufNot5",
        "buf not exactly 10 bytes" => "BufNot10",
        "invalid UTF-8 sequence" => "InvalidUtf8",
        _ => "UnknownError",
    }
}

/// shape entries: (field, dir, type); `via`: unit fields through parse_next (what derive does)
fn dec1(via: bool, shape: &[(u32, Direction, String)], key: &TK1) -> String {
    let mut p = P1::new(key);
    let mut out = vec![];
    for (f, d, ty) in shape {
        let f = FieldNumber::must(*f);
        let r: Result<El1, &'static str> = match ty.as_str() {
            "n" => {
                if via {
                    p.parse_next(f, *d).map(|_| El1::Unit)
                } else {
                    p.parse_next_with_key::<()>(f, *d).map(|_| El1::Unit)
                }
            }
            "u32" => p.parse_next_with_key::<u32>(f, *d).map(El1::U32),
            "u64" => p.parse_next_with_key::<u64>(f, *d).map(El1::U64),
            "i32" => p.parse_next_with_key::<i32>(f, *d).map(El1::I32),
            "i64" => p.parse_next_with_key::<i64>(f, *d).map(El1::I64),
            "s" => p.parse_next_with_key::<String>(f, *d).map(El1::Str),
            _ => panic!("ty1"),
        };
        match r {
            Ok(e) => out.push(el1_str(&e)),
            Err(m) => return format!("err:{}", err1_class(m)),
        }
    }
    format!("ok:{}", tuple_str(out))
}

fn shape_of(t: &[Field1]) -> Vec<(u32, Direction, String)> {
    t.iter().map(|fl| (fl.f, fl.d, ty1_of(&fl.v).to_string())).collect()
}

fn kty_str(k: KeyDataType) -> &'static str {
    match k {
        KeyDataType::unit => "n",
        KeyDataType::fixed32 => "u32",
        KeyDataType::fixed64 => "u64",
        KeyDataType::sfixed32 => "i32",
        KeyDataType::sfixed64 => "i64",
        KeyDataType::string => "s",
    }
}

// ------------------------------------------------------------------ derived typed keys
#[derive(Clone, Debug, Eq, PartialEq, TypedTupleKey)]
struct DA {
    #[tuple_key(1)]
    a: (),
    #[tuple_key(2)]
    b: u32,
    #[tuple_key(3)]
    c: u64,
    #[tuple_key(4)]
    d: i32,
    #[tuple_key(5)]
    e: i64,
    #[tuple_key(6)]
    f: String,
}

#[derive(Clone, Debug, Eq, PartialEq, TypedTupleKey)]
struct DR {
    #[tuple_key(1)]
    #[reverse]
    a: (),
    #[tuple_key(2)]
    #[reverse]
    b: u32,
    #[tuple_key(3)]
    #[reverse]
    c: u64,
    #[tuple_key(4)]
    #[reverse]
    d: i32,
    #[tuple_key(5)]
    #[reverse]
    e: i64,
    #[tuple_key(6)]
    #[reverse]
    f: String,
}

#[derive(Clone, Debug, Eq, PartialEq, TypedTupleKey)]
struct DM {
    #[tuple_key(7)]
    #[reverse]
    a: String,
    #[tuple_key(300)]
    b: u64,
    #[tuple_key(70000)]
    c: (),
    // `#[reverse]` written BEFORE `#[tuple_key(n)]`: the derive must treat both orders alike
    // (seeded change C16-3 silently encoded this spelling Forward)
    #[reverse]
    #[tuple_key(9)]
    d: i32,
    #[tuple_key(536870911)]
    e: String,
}

fn un_u32(e: &El1) -> u32 { if let El1::U32(x) = e { *x } else { panic!("shape") } }
fn un_u64(e: &El1) -> u64 { if let El1::U64(x) = e { *x } else { panic!("shape") } }
fn un_i32(e: &El1) -> i32 { if let El1::I32(x) = e { *x } else { panic!("shape") } }
fn un_i64(e: &El1) -> i64 { if let El1::I64(x) = e { *x } else { panic!("shape") } }
fn un_s(e: &El1) -> String { if let El1::Str(x) = e { x.clone() } else { panic!("shape") } }

fn derr(e: tuple_key::SError) -> String {
    let s = format!("{:?}", e);
    for m in [
        "no more elements to TupleKey", "tag does not match", "missing value element",
        "unit struct with length != 1", "unit not exactly 1 bytes", "buf not exactly 5 bytes",
        "buf not exactly 10 bytes", "invalid UTF-8 sequence",
    ] {
        if s.contains(m) {
            return format!("err:{}", err1_class(m));
        }
    }
    "err:UnknownError".to_string()
}

fn derived(name: &str, v: &[Field1]) -> (TK1, String) {
    let e: Vec<&El1> = v.iter().map(|f| &f.v).collect();
    match name {
        "DA" => {
            let x = DA { a: (), b: un_u32(e[1]), c: un_u64(e[2]), d: un_i32(e[3]), e: un_i64(e[4]), f: un_s(e[5]) };
            let k: TK1 = x.into();
            let d = match DA::try_from(k.clone()) {
                Ok(y) => format!("ok:{}", tuple_str(vec![
                    "n".into(), el1_str(&El1::U32(y.b)), el1_str(&El1::U64(y.c)), el1_str(&El1::I32(y.d)),
                    el1_str(&El1::I64(y.e)), el1_str(&El1::Str(y.f))])),
                Err(err) => derr(err),
            };
            (k, d)
        }
        "DR" => {
            let x = DR { a: (), b: un_u32(e[1]), c: un_u64(e[2]), d: un_i32(e[3]), e: un_i64(e[4]), f: un_s(e[5]) };
            let k: TK1 = x.into();
            let d = match DR::try_from(k.clone()) {
                Ok(y) => format!("ok:{}", tuple_str(vec![
                    "n".into(), el1_str(&El1::U32(y.b)), el1_str(&El1::U64(y.c)), el1_str(&El1::I32(y.d)),
                    el1_str(&El1::I64(y.e)), el1_str(&El1::Str(y.f))])),
                Err(err) => derr(err),
            };
            (k, d)
        }
        "DM" => {
            let x = DM { a: un_s(e[0]), b: un_u64(e[1]), c: (), d: un_i32(e[3]), e: un_s(e[4]) };
            let k: TK1 = x.into();
            let d = match DM::try_from(k.clone()) {
                Ok(y) => format!("ok:{}", tuple_str(vec![
                    el1_str(&El1::Str(y.a)), el1_str(&El1::U64(y.b)), "n".into(), el1_str(&El1::I32(y.d)),
                    el1_str(&El1::Str(y.e))])),
                Err(err) => derr(err),
            };
            (k, d)
        }
        _ => panic!("derived struct name"),
    }
}

// ------------------------------------------------------------------------------------ cases
fn process(line: &str) -> String {
    let t: Vec<&str> = line.split_whitespace().collect();
    match t[0] {
        "2P" => {
            let p = |s: &str| -> Vec<El2> { toks(s).into_iter().map(el2_of).collect() };
            let (a, b, ea, eb) = (p(t[1]), p(t[2]), p(t[3]), p(t[4]));
            let mut ae = a.clone();
            ae.extend(ea.iter().cloned());
            let mut be = b.clone();
            be.extend(eb.iter().cloned());
            let (ka, kb, kae, kbe) = (enc2(&a), enc2(&b), enc2(&ae), enc2(&be));
            // the same extension through TupleKey::append must give the same bytes
            let mut kapp = ka.clone();
            kapp.append(&enc2(&ea));
            assert_eq!(kapp.as_bytes(), kae.as_bytes(), "append != build");
            let tys_a: Vec<String> = a.iter().map(ty2_of).collect();
            let tys_ae: Vec<String> = ae.iter().map(ty2_of).collect();
            [
                hexd(ka.as_bytes()), hexd(kb.as_bytes()), hexd(kae.as_bytes()), hexd(kbe.as_bytes()),
                cmp_str(ka.cmp(&kb)).into(), cmp_str(kae.cmp(&kb)).into(), cmp_str(kae.cmp(&kbe)).into(),
                cmp_str(ka.cmp(&kae)).into(), dec2(&tys_a, &ka), dec2(&tys_ae, &kae),
            ].join(" ")
        }
        "2D" => {
            let tys: Vec<String> = toks(t[1]).into_iter().map(|s| s.to_string()).collect();
            let key = TK2::from_bytes(unhex(t[2]));
            dec2(&tys, &key)
        }
        "1P" => {
            let p = |s: &str| -> Vec<Field1> { toks(s).into_iter().map(field_of).collect() };
            let (a, b, ea, eb) = (p(t[1]), p(t[2]), p(t[3]), p(t[4]));
            let mut ae = a.clone();
            ae.extend(ea.iter().cloned());
            let mut be = b.clone();
            be.extend(eb.iter().cloned());
            let (ka, kb, kae, kbe) = (enc1(&a), enc1(&b), enc1(&ae), enc1(&be));
            let mut kapp = ka.clone();
            kapp.append(&mut enc1(&ea));
            assert_eq!(kapp.as_bytes(), kae.as_bytes(), "append != extend");
            [
                hexd(ka.as_bytes()), hexd(kb.as_bytes()), hexd(kae.as_bytes()), hexd(kbe.as_bytes()),
                cmp_str(ka.cmp(&kb)).into(), cmp_str(kae.cmp(&kb)).into(), cmp_str(kae.cmp(&kbe)).into(),
                cmp_str(ka.cmp(&kae)).into(), dec1(true, &shape_of(&a), &ka), dec1(true, &shape_of(&ae), &kae),
                dec1(false, &shape_of(&a), &ka),
            ].join(" ")
        }
        "1D" => {
            let shape: Vec<(u32, Direction, String)> = toks(t[2]).into_iter().map(|s| {
                let p: Vec<&str> = s.split('/').collect();
                (u32::from_str_radix(p[0], 16).unwrap(), dir_of(p[1]), p[2].to_string())
            }).collect();
            let bytes = unhex(t[3]);
            let key = TK1::from(&bytes[..]);
            dec1(t[1] == "1", &shape, &key)
        }
        "1I" => {
            let bytes = unhex(t[1]);
            let key = TK1::from(&bytes[..]);
            let pieces: Vec<String> = key.iter().map(hexd).collect();
            let pk = match P1::new(&key).peek_next() {
                Ok(None) => "none".to_string(),
                Err(_) => "err".to_string(),
                Ok(Some((f, k, d))) => format!("{:x}/{}/{}", f.get(),
                    if d == Direction::Forward { "F" } else { "R" }, kty_str(k)),
            };
            format!("{} {}", tuple_str(pieces), pk)
        }
        "1S" => {
            let p = |s: &str| -> Vec<Field1> { toks(s).into_iter().map(field_of).collect() };
            let (a, b) = (p(t[2]), p(t[3]));
            let (ka, da) = derived(t[1], &a);
            let (kb, _) = derived(t[1], &b);
            [hexd(ka.as_bytes()), hexd(kb.as_bytes()), cmp_str(ka.cmp(&kb)).into(), da].join(" ")
        }
        _ => panic!("bad case kind"),
    }
}

fn main() {
    hx::per_line(|line| if line.trim().is_empty() { String::new() } else { process(line) });
}
