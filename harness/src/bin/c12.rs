//! C12 harness: drives the real sst::log (WriteBatch, LogBuilder, LogIterator,
//! ConcurrentLogBuilder) on cases read from stdin, one per line; same case language and output
//! format as ocaml/log/mx_log.ml (see there).  Extra options understood here only:
//!   wb=<write_buffer> rb=<read_buffer>  sink=vec|file  rd=cursor|file
//! A line starting with `conc ` is a concurrent-append case (see `run_conc`).
use std::io::Cursor;
use std::panic::{AssertUnwindSafe, catch_unwind};

use arrrg::CommandLine;
use sst::Builder;
use sst::log::{ConcurrentLogBuilder, LogBuilder, LogIterator, LogOptions, WriteBatch};

type Entry = (Vec<u8>, u64, Option<Vec<u8>>);

fn bytes_of_spec(s: &str) -> Vec<u8> {
    if s == "-" || s.is_empty() {
        return vec![];
    }
    if let Some(rest) = s.strip_prefix('g') {
        let p: Vec<u64> = rest.split('x').map(|x| x.parse().unwrap()).collect();
        let (l, a, b) = (p[0], p[1], p[2]);
        return (0..l).map(|i| ((a + i * b) % 251) as u8).collect();
    }
    hx::unhex(s)
}

fn parse_entry(s: &str) -> Entry {
    let body = &s[1..];
    let parts: Vec<&str> = body.split('.').collect();
    match (s.as_bytes()[0], parts.len()) {
        (b'p', 3) => (
            bytes_of_spec(parts[0]),
            parts[1].parse().unwrap(),
            Some(bytes_of_spec(parts[2])),
        ),
        (b'd', 2) => (bytes_of_spec(parts[0]), parts[1].parse().unwrap(), None),
        _ => panic!("bad entry {s}"),
    }
}

fn code(e: &sst::SError) -> String {
    sst::error_code(e).unwrap_or("unknown").to_string()
}

const FNV_INIT: u64 = 0xcbf29ce484222325;
fn fnv_bytes(mut h: u64, b: &[u8]) -> u64 {
    for x in b {
        h = (h ^ (*x as u64)).wrapping_mul(0x100000001b3);
    }
    h
}
fn fnv_entries(es: &[Entry]) -> u64 {
    let mut h = FNV_INIT;
    for (k, ts, v) in es {
        h = fnv_bytes(h, &[if v.is_some() { 80 } else { 68 }]);
        h = fnv_bytes(h, &(k.len() as u64).to_le_bytes());
        h = fnv_bytes(h, k);
        h = fnv_bytes(h, &ts.to_le_bytes());
        if let Some(v) = v {
            h = fnv_bytes(h, &(v.len() as u64).to_le_bytes());
            h = fnv_bytes(h, v);
        }
    }
    h
}

fn prefix_j(ok_batches: &[Vec<Entry>], es: &[Entry]) -> String {
    let mut rest = es;
    let mut j = 0;
    loop {
        if rest.is_empty() {
            return j.to_string();
        }
        if j >= ok_batches.len() {
            return "?".to_string();
        }
        let b = &ok_batches[j];
        if rest.len() >= b.len() && rest[..b.len()] == b[..] {
            rest = &rest[b.len()..];
            j += 1;
        } else {
            return "?".to_string();
        }
    }
}

struct Opts {
    log: LogOptions,
    sink_file: bool,
    rd_file: bool,
    flush_each: bool,
}

fn parse_opts(s: &str) -> Opts {
    let mut args: Vec<String> = vec![];
    let mut sink_file = false;
    let mut rd_file = false;
    let mut flush_each = false;
    for kv in s.split_whitespace() {
        let (k, v) = kv.split_once('=').expect("k=v");
        match k {
            "ro" => {
                args.push("--rollover-size".into());
                args.push(v.into());
            }
            "wb" => {
                args.push("--write-buffer".into());
                args.push(v.into());
            }
            "rb" => {
                args.push("--read-buffer".into());
                args.push(v.into());
            }
            "sink" => sink_file = v == "file",
            "rd" => rd_file = v == "file",
            "flush" => flush_each = v == "1",
            _ => {}
        }
    }
    let a: Vec<&str> = args.iter().map(|x| x.as_str()).collect();
    let (log, _) = LogOptions::from_arguments_relaxed("c12", &a);
    Opts {
        log,
        sink_file,
        rd_file,
        flush_each,
    }
}

fn scratch() -> std::path::PathBuf {
    // env C12_SCRATCH: a directory chosen by the caller (so that strace -P can name the log file)
    let d = match std::env::var("C12_SCRATCH") {
        Ok(d) => std::path::PathBuf::from(d),
        Err(_) => std::path::PathBuf::from(format!("/dev/shm/c12-hx-{}", std::process::id())),
    };
    std::fs::create_dir_all(&d).unwrap();
    d
}

fn read_all<R: std::io::Read + std::io::Seek>(mut it: LogIterator<R>) -> (Vec<Entry>, String) {
    let mut es: Vec<Entry> = vec![];
    loop {
        match it.next() {
            Ok(Some(kvr)) => es.push((kvr.key.to_vec(), kvr.timestamp, kvr.value.map(|v| v.to_vec()))),
            Ok(None) => return (es, "end".to_string()),
            Err(e) => {
                let mut o = format!("err:{}", code(&e));
                // env C12_AGAIN=n (the check sets it, and the model driver prints the same): what a
                // consumer sees if it keeps calling next() n more times after an error
                if let Ok(n) = std::env::var("C12_AGAIN") {
                    let n: usize = n.parse().unwrap_or(0);
                    let mut extra = vec![];
                    for _ in 0..n {
                        match it.next() {
                            Ok(Some(kvr)) => extra.push(format!("entry(klen={},ts={})", kvr.key.len(), kvr.timestamp)),
                            Ok(None) => extra.push("end".to_string()),
                            Err(e) => extra.push(format!("err:{}", code(&e))),
                        }
                    }
                    o = format!("{o}+again[{}]", extra.join(","));
                }
                return (es, o);
            }
        }
    }
}

fn do_read(opts: &Opts, data: &[u8], ok_batches: &[Vec<Entry>], raw: bool, serial: &mut u64) -> String {
    let r = catch_unwind(AssertUnwindSafe(|| {
        if opts.rd_file {
            *serial += 1;
            let p = scratch().join(format!("r{}", *serial));
            std::fs::write(&p, data).unwrap();
            let out = match LogIterator::new(opts.log.clone(), &p) {
                Ok(it) => read_all(it),
                Err(e) => (vec![], format!("err:{}", code(&e))),
            };
            let _ = std::fs::remove_file(&p);
            out
        } else {
            match LogIterator::from_reader(opts.log.clone(), Cursor::new(data)) {
                Ok(it) => read_all(it),
                Err(e) => (vec![], format!("err:{}", code(&e))),
            }
        }
    }));
    match r {
        Ok((es, o)) => {
            let j = prefix_j(ok_batches, &es);
            let d = if j == "?" || raw {
                format!("{:016x}", fnv_entries(&es))
            } else {
                "-".to_string()
            };
            format!("n={} j={} d={} o={}", es.len(), j, d, o)
        }
        Err(_) => "PANIC".to_string(),
    }
}

fn run_case(line: &str) -> String {
    let secs: Vec<&str> = line.split('|').collect();
    assert!(secs.len() == 3, "case needs 3 sections");
    let opts = parse_opts(secs[0].trim());
    let batches = secs[1].trim();
    let reads = secs[2].trim();
    let raw = batches.starts_with("raw:");
    let mut out: Vec<String> = vec![];
    let mut ok_batches: Vec<Vec<Entry>> = vec![];
    let file: Vec<u8>;
    if raw {
        file = bytes_of_spec(&batches[4..]);
        out.push("raw".to_string());
    } else {
        let bspecs: Vec<&str> = if batches.is_empty() { vec![] } else { batches.split(';').collect() };
        // build the batches through the public WriteBatch API
        let mut built: Vec<(WriteBatch, Vec<Entry>, usize, Vec<String>)> = vec![];
        for bs in bspecs.iter() {
            let es: Vec<Entry> = bs.trim().split(',').filter(|x| !x.is_empty()).map(parse_entry).collect();
            let mut wb = WriteBatch::default();
            let mut acc = vec![];
            let mut codes = vec![];
            for e in es.iter() {
                let r = match &e.2 {
                    Some(v) => wb.put(&e.0, e.1, v),
                    None => wb.del(&e.0, e.1),
                };
                match r {
                    Ok(()) => acc.push(e.clone()),
                    Err(err) => codes.push(code(&err)),
                }
            }
            built.push((wb, acc, es.len(), codes));
        }
        let mut strs: Vec<String> = vec![];
        let mut vec_sink: Vec<u8> = vec![];
        let path = scratch().join("w");
        let _ = std::fs::remove_file(&path);
        {
            enum B<'a> {
                V(LogBuilder<&'a mut Vec<u8>>),
                F(LogBuilder<std::fs::File>),
            }
            let mut b = if opts.sink_file {
                B::F(LogBuilder::new(opts.log.clone(), &path).expect("create log"))
            } else {
                B::V(LogBuilder::from_write(opts.log.clone(), &mut vec_sink).expect("from_write"))
            };
            let mut dead = false;
            for (wb, acc, tot, codes) in built.iter() {
                let head = format!(
                    "{}/{}{}",
                    acc.len(),
                    tot,
                    if codes.is_empty() { String::new() } else { format!(":{}", codes.join(",")) }
                );
                if dead {
                    strs.push(format!("{head}=SKIPPED"));
                    continue;
                }
                let r = catch_unwind(AssertUnwindSafe(|| match &mut b {
                    B::V(l) => (l.append(wb), l.approximate_size()),
                    B::F(l) => {
                        // flush=1: an append counts as Ok only if its bytes were handed to the file
                        let r = l.append(wb).and_then(|_| if opts.flush_each { l.flush() } else { Ok(()) });
                        (r, l.approximate_size())
                    }
                }));
                match r {
                    Ok((Ok(()), bw)) => {
                        ok_batches.push(acc.clone());
                        strs.push(format!("{head}=ok:{bw}"));
                    }
                    Ok((Err(e), bw)) => strs.push(format!("{head}=err:{}:{bw}", code(&e))),
                    Err(_) => {
                        dead = true;
                        strs.push(format!("{head}=PANIC"));
                    }
                }
            }
            match b {
                B::V(l) => {
                    l.seal().expect("seal");
                }
                B::F(l) => {
                    // with an injected write error the seal fails too: that is an output
                    if let Err(e) = l.seal() {
                        strs.push(format!("seal=err:{}", code(&e)));
                    }
                }
            }
        }
        file = if opts.sink_file {
            let d = std::fs::read(&path).expect("read back");
            let _ = std::fs::remove_file(&path);
            d
        } else {
            vec_sink
        };
        out.push(strs.join(" "));
    }
    out.push(format!("F len={} d={:016x}", file.len(), fnv_bytes(FNV_INIT, &file)));
    let mut serial = 0u64;
    for r in reads.split(';').map(|x| x.trim()).filter(|x| !x.is_empty()) {
        let (muts, cut) = r.split_once('@').expect("read needs @");
        let mut owned: Option<Vec<u8>> = None;
        if !muts.is_empty() {
            let mut d = file.clone();
            for m in muts.split(',').filter(|x| !x.is_empty()) {
                let (p, v) = m.split_once('=').expect("pos=val");
                let p: usize = p.parse().unwrap();
                let v: u8 = v.parse().unwrap();
                if p < d.len() {
                    d[p] = v;
                }
            }
            owned = Some(d);
        }
        let data: &[u8] = owned.as_deref().unwrap_or(&file);
        let n = if cut == "-" { data.len() } else { cut.parse::<usize>().unwrap().min(data.len()) };
        out.push(do_read(&opts, &data[..n], &ok_batches, raw, &mut serial));
    }
    out.join(" | ")
}

/// conc <threads> <opts> | batch;batch;...   — batches are dealt round-robin to `threads` threads,
/// each thread appends its batches in order through one ConcurrentLogBuilder<File>; after each
/// successful append the thread writes "ack <batch index>\n" with a single write(2) to the ack
/// file (so that strace shows the acknowledgement after the covering fdatasync).
/// Output: per batch result, then what a reader finds: the order in which whole batches occur.
fn run_conc(line: &str) -> String {
    let rest = line.strip_prefix("conc ").unwrap();
    let (head, batches) = rest.split_once('|').expect("conc needs |");
    let mut hw = head.split_whitespace();
    let threads: usize = hw.next().unwrap().parse().unwrap();
    let opts = parse_opts(&hw.collect::<Vec<_>>().join(" "));
    let bspecs: Vec<&str> = batches.trim().split(';').collect();
    let mut all: Vec<Vec<Entry>> = vec![];
    for bs in bspecs.iter() {
        all.push(bs.trim().split(',').filter(|x| !x.is_empty()).map(parse_entry).collect());
    }
    let dir = scratch();
    let path = dir.join("conc.log");
    let _ = std::fs::remove_file(&path);
    let ackp = dir.join("conc.ack");
    let ack = std::fs::OpenOptions::new().create(true).write(true).truncate(true).open(&ackp).unwrap();
    let log = ConcurrentLogBuilder::new(opts.log.clone(), &path).expect("create");
    let results: Vec<std::sync::Mutex<String>> = (0..all.len()).map(|_| std::sync::Mutex::new("none".to_string())).collect();
    std::thread::scope(|s| {
        for t in 0..threads {
            let log = &log;
            let all = &all;
            let results = &results;
            let ack = &ack;
            s.spawn(move || {
                use std::io::Write;
                let mut i = t;
                while i < all.len() {
                    let mut wb = WriteBatch::default();
                    for e in all[i].iter() {
                        let r = match &e.2 {
                            Some(v) => wb.put(&e.0, e.1, v),
                            None => wb.del(&e.0, e.1),
                        };
                        r.expect("generator keeps entries within limits");
                    }
                    let r = catch_unwind(AssertUnwindSafe(|| log.append(wb)));
                    let s = match r {
                        Ok(Ok(())) => {
                            let mut a: &std::fs::File = ack;
                            a.write_all(format!("ack {i}\n").as_bytes()).unwrap();
                            "ok".to_string()
                        }
                        Ok(Err(e)) => format!("err:{}", code(&e)),
                        Err(_) => "PANIC".to_string(),
                    };
                    *results[i].lock().unwrap() = s;
                    i += threads;
                }
            });
        }
    });
    let sealed = catch_unwind(AssertUnwindSafe(|| log.seal().is_ok())).unwrap_or(false);
    let data = std::fs::read(&path).unwrap_or_default();
    // read back and decompose into whole batches, each at most once
    let (es, o) = match LogIterator::from_reader(opts.log.clone(), Cursor::new(&data[..])) {
        Ok(it) => read_all(it),
        Err(e) => (vec![], format!("err:{}", code(&e))),
    };
    let mut used = vec![false; all.len()];
    let mut order: Vec<String> = vec![];
    let mut rest: &[Entry] = &es;
    let mut bad = false;
    while !rest.is_empty() {
        // batches are generated with pairwise distinct first entries, so the match is unique
        let mut found = None;
        for (i, b) in all.iter().enumerate() {
            if !used[i] && !b.is_empty() && rest.len() >= b.len() && rest[..b.len()] == b[..] {
                found = Some(i);
                break;
            }
        }
        match found {
            Some(i) => {
                used[i] = true;
                order.push(i.to_string());
                rest = &rest[all[i].len()..];
            }
            None => {
                bad = true;
                break;
            }
        }
    }
    if let Ok(keep) = std::env::var("C12_KEEP") {
        let _ = std::fs::copy(&path, std::path::Path::new(&keep).join("conc.log"));
    }
    let _ = std::fs::remove_file(&path);
    let res: Vec<String> = results.iter().map(|m| m.lock().unwrap().clone()).collect();
    format!(
        "{} | sealed={} len={} o={} decomposed={} order={}",
        res.join(" "),
        sealed,
        data.len(),
        o,
        if bad { "NO" } else { "yes" },
        order.join(",")
    )
}

/// `exists`: a log builder must refuse a path that already exists (the model's builder starts on an
/// empty file) and must leave the existing file byte for byte as it was.
fn run_exists() -> String {
    let path = scratch().join("exists.log");
    let _ = std::fs::remove_file(&path);
    let mut lb = LogBuilder::new(LogOptions::default(), &path).expect("create");
    let mut wb = WriteBatch::default();
    wb.put(b"key", 1, &[7u8; 100]).unwrap();
    lb.append(&wb).unwrap();
    lb.seal().unwrap();
    let before = std::fs::read(&path).unwrap();
    let how = |r: Result<(), sst::SError>| match r {
        Ok(()) => "OPENED".to_string(),
        Err(e) => format!("err:{}", code(&e)),
    };
    let seq = how(LogBuilder::new(LogOptions::default(), &path).map(|mut l| {
        let _ = l.append(&wb);
        let _ = l.seal();
    }));
    let conc = how(ConcurrentLogBuilder::new(LogOptions::default(), &path).map(|l| {
        let _ = l.append(wb.clone());
        let _ = l.seal();
    }));
    let after = std::fs::read(&path).unwrap_or_default();
    let _ = std::fs::remove_file(&path);
    format!("exists seq={seq} conc={conc} same={} len={}", before == after, before.len())
}

fn main() {
    hx::quiet_panics();
    use std::io::{BufRead, Write};
    let stdin = std::io::stdin();
    let stdout = std::io::stdout();
    let mut w = std::io::BufWriter::new(stdout.lock());
    for line in stdin.lock().lines() {
        let line = line.unwrap();
        if line.trim().is_empty() {
            writeln!(w).unwrap();
            continue;
        }
        let r = catch_unwind(AssertUnwindSafe(|| {
            if line.starts_with("conc ") {
                run_conc(&line)
            } else if line.starts_with("exists") {
                run_exists()
            } else {
                run_case(&line)
            }
        }));
        match r {
            Ok(s) => writeln!(w, "{}", s).unwrap(),
            Err(_) => writeln!(w, "HARNESS-PANIC").unwrap(),
        }
        w.flush().unwrap();
    }
    let _ = std::fs::remove_dir_all(scratch());
}
