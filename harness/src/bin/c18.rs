//! C18 harness: sync42's LRU cache, wait list and work-coalescing queue on the real code.
//! One case per stdin line, one output line per case; the first word selects the part.
//!
//!   lru CAP ; op ; op ...      sequential op list on LeastRecentlyUsedCache<u64, Val>
//!        i K ID SZ   insert            n K ID SZ   insert_no_evict
//!        l K         lookup  -> ID:SZ | -
//!        r K         remove            p           pop -> K=ID:SZ | -
//!        s           approximate_size -> number
//!     after the ops the cache is drained with pop: `| size K=ID:SZ ...` (LRU first)
//!
//!   lruc CAP SEED ; op , op , .. ; op , ..     one op list per thread on one shared cache; every
//!        op is tagged (thread*1000 + position + 1) and the hook records the tag inside the
//!        cache's critical section, so the trace is the linearisation order.  Output:
//!        `T tag tag ..` (that order) `| tag=result ..` (lookups / pops) `| size K=ID:SZ ..`
//!
//!   wl SLOTS ; op ; op ...     one client thread driving a WaitList<u64> with SLOTS slots (hook
//!                              verif::set_slots); every link runs in a helper thread so that it
//!                              may block.  L V link | U K unlink K-th owned guard (mod count) |
//!        N notify_head | S K V store | G K load | H K is_head | C K count | I K iterate from K
//!        | W K D get_waiter(index(K)+D).   Output: the recorded event trace, `tid:what:a:b:c`
//!        tokens (harness observations are events r_* of thread 0), then `| HANG` if a woken link
//!        never reported back.
//!
//!   wcq SLOTS LIMIT MODULUS WORKDELAY SEED [EXTRA SHORT WATCHDOG_MS] ; in in .. ; in in .. [; G ..]
//!        one group of inputs per thread; each thread calls do_work for its inputs in turn.
//!        EXTRA: work() yields that many junk items (999999, batch, k) AFTER the right outputs
//!        (an over-producing core, legal for the trait).  SHORT (outside the core's contract,
//!        informational): 1 = one output too few when taken >= 2, 2 = no outputs at all.
//!        WATCHDOG_MS: exact time to wait for the threads (default: 64 s).
//!        `G TID WHAT NTH RELTID RELWHAT RELN`: thread TID stops at its NTH event WHAT until
//!        thread RELTID has recorded RELN events RELWHAT (a placed schedule, hook verif::add_gate).  The core batches while
//!        acc.len() < LIMIT and (MODULUS == 0 or input % MODULUS != 0); work() returns
//!        (input, batch number, position) per input.  Output: `R tid:in>in.batch.pos,.. ;..` then
//!        `| B first:in,in ;..` (the core's log) then `| E tid:what:a:b:c ..` (trace); HANG if the
//!        threads do not finish within the watchdog time.
use std::io::BufRead;
use std::panic::{catch_unwind, AssertUnwindSafe};

use std::sync::mpsc;
use std::sync::{Arc, Mutex};
use std::time::{Duration, Instant};

use sync42::lru::{LeastRecentlyUsedCache, Value};
use sync42::verif;
use sync42::wait_list::{WaitGuard, WaitList};
use sync42::work_coalescing_queue::{WorkCoalescingCore, WorkCoalescingQueue};

#[derive(Clone, Debug)]
struct Val {
    id: u64,
    sz: usize,
}

impl Value for Val {
    fn approximate_size(&self) -> usize {
        self.sz
    }
}

fn lru_case(rest: &str, outs: &Mutex<Vec<String>>) {
    let mut parts = rest.split(';');
    let cap: usize = parts.next().unwrap().trim().parse().unwrap();
    let lru: LeastRecentlyUsedCache<u64, Val> = LeastRecentlyUsedCache::new(cap);
    let push = |s: String| outs.lock().unwrap().push(s);
    for op in parts {
        let t: Vec<&str> = op.split_whitespace().collect();
        if t.is_empty() {
            continue;
        }
        let n = |i: usize| t[i].parse::<u64>().unwrap();
        match t[0] {
            "i" => lru.insert(n(1), Val { id: n(2), sz: n(3) as usize }),
            "n" => lru.insert_no_evict(n(1), Val { id: n(2), sz: n(3) as usize }),
            "l" => match lru.lookup(&n(1)) {
                Some(v) => push(format!("{}:{}", v.id, v.sz)),
                None => push("-".to_string()),
            },
            "r" => lru.remove(&n(1)),
            "p" => match lru.pop() {
                Some((k, v)) => push(format!("{}={}:{}", k, v.id, v.sz)),
                None => push("-".to_string()),
            },
            "s" => push(format!("{}", lru.approximate_size())),
            _ => panic!("bad lru op {:?}", t),
        }
    }
    push(format!("| {}", lru.approximate_size()));
    while let Some((k, v)) = lru.pop() {
        push(format!("{}={}:{}", k, v.id, v.sz));
    }
}

fn lruc_case(rest: &str, outs: &Mutex<Vec<String>>) {
    let mut parts = rest.split(';');
    let head: Vec<u64> = parts.next().unwrap().split_whitespace().map(|x| x.parse().unwrap()).collect();
    let (cap, seed) = (head[0] as usize, head[1]);
    let progs: Vec<Vec<Vec<String>>> = parts
        .map(|p| {
            p.split(',')
                .map(|o| o.split_whitespace().map(|x| x.to_string()).collect::<Vec<_>>())
                .filter(|o| !o.is_empty())
                .collect()
        })
        .collect();
    let lru: Arc<LeastRecentlyUsedCache<u64, Val>> = Arc::new(LeastRecentlyUsedCache::new(cap));
    let results: Arc<Mutex<Vec<(u64, String)>>> = Arc::new(Mutex::new(Vec::new()));
    let barrier = Arc::new(std::sync::Barrier::new(progs.len()));
    verif::start();
    let mut handles = Vec::new();
    for (tid, prog) in progs.into_iter().enumerate() {
        let lru = Arc::clone(&lru);
        let results = Arc::clone(&results);
        let barrier = Arc::clone(&barrier);
        handles.push(std::thread::spawn(move || {
            verif::set_tid(tid as u64);
            let mut rng = hx::Rng(seed.wrapping_mul(0x9E3779B97F4A7C15) ^ (tid as u64 + 1));
            let mut mine = Vec::new();
            barrier.wait();
            for (k, t) in prog.iter().enumerate() {
                let tag = tid as u64 * 1000 + k as u64 + 1;
                verif::set_tag(tag);
                if rng.below(3) == 0 {
                    std::thread::yield_now();
                }
                let n = |i: usize| t[i].parse::<u64>().unwrap();
                match t[0].as_str() {
                    "i" => lru.insert(n(1), Val { id: n(2), sz: n(3) as usize }),
                    "n" => lru.insert_no_evict(n(1), Val { id: n(2), sz: n(3) as usize }),
                    "l" => mine.push((tag, match lru.lookup(&n(1)) {
                        Some(v) => format!("{}:{}", v.id, v.sz),
                        None => "-".to_string(),
                    })),
                    "r" => lru.remove(&n(1)),
                    "p" => mine.push((tag, match lru.pop() {
                        Some((k, v)) => format!("{}={}:{}", k, v.id, v.sz),
                        None => "-".to_string(),
                    })),
                    _ => panic!("bad lruc op {:?}", t),
                }
            }
            results.lock().unwrap().extend(mine);
        }));
    }
    let mut panicked = false;
    for h in handles {
        panicked |= h.join().is_err();
    }
    let tr = verif::take();
    let order: Vec<String> = tr.iter().filter(|e| e.what.starts_with("lru_")).map(|e| e.a.to_string()).collect();
    let mut o = outs.lock().unwrap();
    o.push(format!("T {}", order.join(" ")));
    let mut res = results.lock().unwrap().clone();
    res.sort();
    o.push(format!("| {}", res.iter().map(|(t, r)| format!("{}={}", t, r)).collect::<Vec<_>>().join(" ")));
    o.push(format!("| {}", lru.approximate_size()));
    while let Some((k, v)) = lru.pop() {
        o.push(format!("{}={}:{}", k, v.id, v.sz));
    }
    if panicked {
        o.push("PANIC".to_string());
    }
}

fn dump_trace(tr: &[verif::Event]) -> String {
    tr.iter()
        .map(|e| format!("{}:{}:{}:{}:{}", e.tid, e.what, e.a, e.b, e.c))
        .collect::<Vec<_>>()
        .join(" ")
}

// ------------------------------------------------------------------------------- wait list
fn link_events(tid: u64) -> usize {
    verif::count(|e| e.tid == tid && (e.what == "link" || e.what == "link_wait"))
}

// Waits are generous: a verdict of "blocked forever" must not be an artefact of a loaded
// machine.  `ms` is multiplied by 8 (so 5 s becomes 40 s) before giving up.
fn wait_until(f: impl Fn() -> bool, ms: u64) -> bool {
    let ms = ms * 8;
    let t0 = Instant::now();
    let mut spins = 0u32;
    while !f() {
        if t0.elapsed() > Duration::from_millis(ms) {
            return false;
        }
        spins += 1;
        if spins < 200 {
            std::thread::yield_now();
        } else {
            std::thread::sleep(Duration::from_micros(50));
        }
    }
    true
}

fn wl_case(rest: &str, outs: &Mutex<Vec<String>>) {
    let mut parts = rest.split(';');
    let slots: usize = parts.next().unwrap().trim().parse().unwrap();
    verif::set_slots(slots);
    let list: &'static WaitList<u64> = Box::leak(Box::new(WaitList::new()));
    verif::set_slots(0);
    verif::set_tid(0);
    verif::start();
    let (tx, rx) = mpsc::channel::<(u64, WaitGuard<'static, u64>)>();
    let mut owned: Vec<WaitGuard<'static, u64>> = Vec::new();
    let mut blocked: Vec<u64> = Vec::new(); // tids of helper threads inside link()
    let mut next_tid = 1u64;
    let mut hang = false;
    let mut handles = Vec::new();
    // collect guards of helpers that have linked (in the order of their "link" events)
    let collect = |owned: &mut Vec<WaitGuard<'static, u64>>, blocked: &mut Vec<u64>| {
        while let Ok((tid, g)) = rx.try_recv() {
            blocked.retain(|t| *t != tid);
            owned.push(g);
        }
        owned.sort_by_key(|g| {
            // WaitGuard::index takes &mut self; read it through Debug instead of mutating
            let d = format!("{:?}", g);
            let i = d.find("index: ").unwrap() + 7;
            d[i..].split(|c: char| !c.is_ascii_digit()).next().unwrap().parse::<u64>().unwrap()
        });
    };
    for op in parts {
        let t: Vec<&str> = op.split_whitespace().collect();
        if t.is_empty() {
            continue;
        }
        let n = |i: usize| t[i].parse::<u64>().unwrap();
        collect(&mut owned, &mut blocked);
        match t[0] {
            "L" => {
                let tid = next_tid;
                next_tid += 1;
                let v = n(1);
                verif::event("r_link_call", tid, v, 0);
                let tx = tx.clone();
                handles.push(std::thread::spawn(move || {
                    verif::set_tid(tid);
                    let g = list.link(v);
                    let _ = tx.send((tid, g));
                }));
                if !wait_until(|| link_events(tid) >= 1, 5000) {
                    hang = true;
                    break;
                }
                if verif::count(|e| e.tid == tid && e.what == "link") >= 1 {
                    // linked: take the guard
                    let (rt, g) = rx.recv_timeout(Duration::from_millis(40000)).unwrap();
                    if rt == tid {
                        owned.push(g);
                    } else {
                        blocked.retain(|x| *x != rt);
                        owned.push(g);
                        blocked.push(tid);
                    }
                } else {
                    blocked.push(tid);
                }
            }
            "U" => {
                if owned.is_empty() {
                    continue;
                }
                let k = (n(1) as usize) % owned.len();
                let g = owned.remove(k);
                let before: usize = blocked.iter().map(|b| link_events(*b)).sum();
                let nb = verif::count(|e| e.what == "notify_available");
                list.unlink(g);
                let notified = verif::count(|e| e.what == "notify_available") > nb;
                if notified && !blocked.is_empty() {
                    // notify_one on a condition variable with sleepers wakes one of them: wait
                    // until it has re-tested and either linked or gone back to sleep
                    let bl = blocked.clone();
                    // (if nobody reports back in time the run goes on: whether a blocked link is
                    // left behind for good is decided at the end, when nothing else can wake it)
                    let _ = wait_until(|| bl.iter().map(|b| link_events(*b)).sum::<usize>() > before, 250);
                    // give the guard (if it linked) time to arrive
                    std::thread::sleep(Duration::from_micros(200));
                }
            }
            "N" => list.notify_head(),
            "S" | "G" | "H" | "C" | "I" | "W" => {
                if owned.is_empty() {
                    continue;
                }
                let k = (n(1) as usize) % owned.len();
                let g = &mut owned[k];
                let idx = g.index();
                match t[0] {
                    "S" => {
                        verif::event("r_store", idx, n(2), 0);
                        g.store(n(2))
                    }
                    "G" => {
                        let v = g.load();
                        verif::event("r_load", idx, v, 0);
                    }
                    "H" => {
                        let b = g.is_head();
                        verif::event("r_is_head", idx, b as u64, 0);
                    }
                    "C" => {
                        let c = g.count();
                        verif::event("r_count", idx, c, 0);
                    }
                    "I" => {
                        let g: &'static mut WaitGuard<'static, u64> = unsafe { &mut *(g as *mut _) };
                        let mut cnt = 0u64;
                        let mut last = idx;
                        let mut ok = 1u64;
                        for mut w in g.iter() {
                            let wi = w.index();
                            if wi != idx + cnt {
                                ok = 0;
                            }
                            last = wi;
                            cnt += 1;
                        }
                        verif::event("r_iter", idx, cnt, ok * (last + 1));
                    }
                    "W" => {
                        let target = idx + n(2);
                        let r = g.get_waiter(target).is_some();
                        verif::event("r_get_waiter", idx, target, r as u64);
                    }
                    _ => unreachable!(),
                }
            }
            _ => panic!("bad wl op {:?}", t),
        }
    }
    collect(&mut owned, &mut blocked);
    // wind down: unlink everything so that blocked helpers can finish
    while !hang {
        collect(&mut owned, &mut blocked);
        if !owned.is_empty() {
            let g = owned.remove(0);
            list.unlink(g);
            std::thread::sleep(Duration::from_micros(200));
        } else if !blocked.is_empty() {
            // every guard is gone, so the list has room: a helper still inside link() must come
            // back (it was notified by the unlink that made room, or by a later one)
            match rx.recv_timeout(Duration::from_millis(40000)) {
                Ok((tid, g)) => {
                    blocked.retain(|t| *t != tid);
                    owned.push(g);
                }
                Err(_) => hang = true,
            }
        } else {
            break;
        }
    }
    let tr = verif::take();
    outs.lock().unwrap().push(dump_trace(&tr));
    if hang {
        outs.lock().unwrap().push("| HANG".to_string());
    } else {
        for h in handles {
            let _ = h.join();
        }
    }
}

// ------------------------------------------------------------------- work coalescing queue
struct HxCore {
    limit: usize,
    modulus: u64,
    delay_us: u64,
    extra: usize,
    short: u64,
    batches: Vec<Vec<u64>>,
}

impl WorkCoalescingCore<u64, (u64, u64, u64)> for HxCore {
    type InputAccumulator = Vec<u64>;
    type OutputIterator<'a> = std::vec::IntoIter<(u64, u64, u64)>;

    fn can_batch(&self, acc: &Vec<u64>, other: &u64) -> bool {
        acc.len() < self.limit && (self.modulus == 0 || other % self.modulus != 0)
    }

    fn batch(&mut self, mut acc: Vec<u64>, other: u64) -> Vec<u64> {
        acc.push(other);
        acc
    }

    fn work(&mut self, taken: usize, acc: Vec<u64>) -> Self::OutputIterator<'_> {
        assert_eq!(taken, acc.len());
        let b = self.batches.len() as u64;
        self.batches.push(acc.clone());
        if self.delay_us > 0 {
            std::thread::sleep(Duration::from_micros(self.delay_us));
        }
        let mut outs: Vec<(u64, u64, u64)> = acc.iter().enumerate().map(|(j, x)| (*x, b, j as u64)).collect();
        if self.short == 1 && taken >= 2 {
            outs.pop();
        } else if self.short == 2 {
            outs.clear();
        }
        for k in 0..self.extra {
            outs.push((999999, b, k as u64));
        }
        outs.into_iter()
    }
}

fn wcq_case(rest: &str, outs: &Mutex<Vec<String>>) {
    let mut parts = rest.split(';');
    let head: Vec<u64> = parts.next().unwrap().split_whitespace().map(|x| x.parse().unwrap()).collect();
    let (slots, limit, modulus, delay, seed) = (head[0] as usize, head[1] as usize, head[2], head[3], head[4]);
    let extra = head.get(5).copied().unwrap_or(0) as usize;
    let short = head.get(6).copied().unwrap_or(0);
    let watchdog = head.get(7).copied().unwrap_or(0);
    let mut progs: Vec<Vec<u64>> = Vec::new();
    let mut gated = false;
    for p in parts {
        let t: Vec<&str> = p.split_whitespace().collect();
        if t.first() == Some(&"G") {
            verif::add_gate(t[1].parse().unwrap(), t[2], t[3].parse().unwrap(), t[4].parse().unwrap(), t[5], t[6].parse().unwrap());
            gated = true;
        } else {
            progs.push(t.iter().map(|x| x.parse().unwrap()).collect());
        }
    }
    verif::set_slots(slots);
    let q = Arc::new(WorkCoalescingQueue::new(HxCore { limit, modulus, delay_us: delay, extra, short, batches: Vec::new() }));
    verif::set_slots(0);
    verif::start();
    let nthreads = progs.len();
    let results: Arc<Mutex<Vec<Vec<(u64, Option<(u64, u64, u64)>)>>>> = Arc::new(Mutex::new(vec![Vec::new(); nthreads]));
    let done = Arc::new(std::sync::atomic::AtomicUsize::new(0));
    let barrier = Arc::new(std::sync::Barrier::new(nthreads));
    let mut handles = Vec::new();
    for (tid, prog) in progs.into_iter().enumerate() {
        let q = Arc::clone(&q);
        let results = Arc::clone(&results);
        let done = Arc::clone(&done);
        let barrier = Arc::clone(&barrier);
        handles.push(std::thread::spawn(move || {
            verif::set_tid(tid as u64);
            let mut rng = hx::Rng(seed.wrapping_mul(0x9E3779B97F4A7C15) ^ (tid as u64 + 1));
            barrier.wait();
            for input in prog {
                match if gated { 0 } else { rng.below(4) } {
                    0 => {}
                    1 => std::thread::yield_now(),
                    2 => {
                        for _ in 0..rng.below(2000) {
                            std::hint::spin_loop();
                        }
                    }
                    _ => std::thread::sleep(Duration::from_micros(rng.below(120))),
                }
                verif::event("call", input, 0, 0);
                let r = catch_unwind(AssertUnwindSafe(|| q.do_work(input)));
                results.lock().unwrap()[tid].push((input, r.ok()));
            }
            done.fetch_add(1, std::sync::atomic::Ordering::SeqCst);
        }));
    }
    let all_done = || done.load(std::sync::atomic::Ordering::SeqCst) == nthreads;
    let finished = if watchdog > 0 {
        let t0 = Instant::now();
        while !all_done() && t0.elapsed() < Duration::from_millis(watchdog) {
            std::thread::sleep(Duration::from_micros(100));
        }
        all_done()
    } else {
        wait_until(all_done, 8000)
    };
    let tr = verif::take();
    let (gates_fired, gate_timeouts) = verif::clear_gates();
    let res = results.lock().unwrap().clone();
    let mut r = String::from("R");
    for (tid, rs) in res.iter().enumerate() {
        r.push_str(&format!(" {}:", tid));
        let v: Vec<String> = rs
            .iter()
            .map(|(i, o)| match o {
                Some((a, b, c)) => format!("{}>{}.{}.{}", i, a, b, c),
                None => format!("{}>PANIC", i),
            })
            .collect();
        r.push_str(&v.join(","));
    }
    outs.lock().unwrap().push(r);
    if finished {
        for h in handles {
            let _ = h.join();
        }
        let core = match catch_unwind(AssertUnwindSafe(|| q.get_core())) {
            Ok(c) => c,
            Err(_) => {
                outs.lock().unwrap().push("| POISONED".to_string());
                outs.lock().unwrap().push(format!("| E {}", dump_trace(&tr)));
                return;
            }
        };
        let b: Vec<String> = core
            .batches
            .iter()
            .map(|b| b.iter().map(|x| x.to_string()).collect::<Vec<_>>().join(","))
            .collect();
        outs.lock().unwrap().push(format!("| B {}", b.join(";")));
        if gated {
            outs.lock().unwrap().push(format!("| G {} {}", gates_fired, gate_timeouts));
        }
    } else {
        outs.lock().unwrap().push("| HANG".to_string());
    }
    outs.lock().unwrap().push(format!("| E {}", dump_trace(&tr)));
    if !finished {
        // threads are stuck inside the queue: nothing sane can follow in this process
        let o = outs.lock().unwrap().join(" ");
        println!("{}", o);
        std::process::exit(3);
    }
}

fn main() {
    hx::quiet_panics();
    let stdin = std::io::stdin();
    for line in stdin.lock().lines() {
        let line = line.unwrap();
        let line = line.trim();
        let outs = Mutex::new(Vec::<String>::new());
        let r = catch_unwind(AssertUnwindSafe(|| {
            let (mode, rest) = match line.find(' ') {
                Some(i) => (&line[..i], &line[i + 1..]),
                None => (line, ""),
            };
            match mode {
                "" => {}
                "lru" => lru_case(rest, &outs),
                "lruc" => lruc_case(rest, &outs),
                "wl" => wl_case(rest, &outs),
                "wcq" => wcq_case(rest, &outs),
                _ => panic!("bad mode"),
            }
        }));
        let mut o = outs.lock().unwrap().clone();
        if r.is_err() {
            o.push("PANIC".to_string());
        }
        println!("{}", o.join(" "));
    }
}
