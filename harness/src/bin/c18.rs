//! C18 harness: sync42's LRU cache, wait list and work-coalescing queue on the real code.
//! One case per stdin line, one output line per case; the first word selects the part.
//!
//!   lru CAP ; op ; op ...      sequential op list on LeastRecentlyUsedCache<u64, Val>
//!        i K ID SZ   insert            n K ID SZ   insert_no_evict
//!        l K         lookup  -> ID:SZ | -
//!        r K         remove            p           pop -> K=ID:SZ | -
//!        s           approximate_size -> number
//!     after the ops the cache is drained with pop: `| size K=ID:SZ ...` (LRU first)
use std::io::BufRead;
use std::panic::{catch_unwind, AssertUnwindSafe};

use sync42::lru::{LeastRecentlyUsedCache, Value};

#[derive(Clone, Debug)]
struct Val {
    id: u64,
    sz: usize,
}

impl Value for Val {
    fn approximate_size(&self) -> usize {
        self.sz
    }
}

fn lru_case(rest: &str, outs: &std::sync::Mutex<Vec<String>>) {
    let mut parts = rest.split(';');
    let cap: usize = parts.next().unwrap().trim().parse().unwrap();
    let lru: LeastRecentlyUsedCache<u64, Val> = LeastRecentlyUsedCache::new(cap);
    let push = |s: String| outs.lock().unwrap().push(s);
    for op in parts {
        let t: Vec<&str> = op.split_whitespace().collect();
        if t.is_empty() {
            continue;
        }
        let n = |i: usize| t[i].parse::<u64>().unwrap();
        match t[0] {
            "i" => lru.insert(n(1), Val { id: n(2), sz: n(3) as usize }),
            "n" => lru.insert_no_evict(n(1), Val { id: n(2), sz: n(3) as usize }),
            "l" => match lru.lookup(&n(1)) {
                Some(v) => push(format!("{}:{}", v.id, v.sz)),
                None => push("-".to_string()),
            },
            "r" => lru.remove(&n(1)),
            "p" => match lru.pop() {
                Some((k, v)) => push(format!("{}={}:{}", k, v.id, v.sz)),
                None => push("-".to_string()),
            },
            "s" => push(format!("{}", lru.approximate_size())),
            _ => panic!("bad lru op {:?}", t),
        }
    }
    push(format!("| {}", lru.approximate_size()));
    while let Some((k, v)) = lru.pop() {
        push(format!("{}={}:{}", k, v.id, v.sz));
    }
}

fn main() {
    hx::quiet_panics();
    let stdin = std::io::stdin();
    for line in stdin.lock().lines() {
        let line = line.unwrap();
        let line = line.trim();
        let outs = std::sync::Mutex::new(Vec::<String>::new());
        let r = catch_unwind(AssertUnwindSafe(|| {
            let (mode, rest) = match line.find(' ') {
                Some(i) => (&line[..i], &line[i + 1..]),
                None => (line, ""),
            };
            match mode {
                "" => {}
                "lru" => lru_case(rest, &outs),
                _ => panic!("bad mode"),
            }
        }));
        let mut o = outs.lock().unwrap().clone();
        if r.is_err() {
            o.push("PANIC".to_string());
        }
        println!("{}", o.join(" "));
    }
}
