//! c08: drives one *session* of a real lsmtk::KeyValueStore (as `lsm` does) and additionally
//! observes what property C08 is about: the files present in sst/ trash/ and the root, the
//! reference counts, held snapshots and held scan cursors, the manifest fragments edit by edit,
//! the verifier's own manifest, and verifier passes (in this process, or as a process of their own
//! so that a pass can be killed before any of its system calls).
//!
//! usage: c08 <dir> [lsmtk option flags...]            session: ops on stdin, one output line per op
//!        c08 --verify <dir> [lsmtk option flags...]   one LsmVerifier::open + verify(), then exit
//! ops (keys/values hex, `-` = empty):
//!   put K V | del K | batch K=V,K=~,... | get K,K,... | flush | compact | state | dump
//!   ls | mani | vmani | refs | verify
//!   snap take ID | snap drop ID | snap show ID         hold / release a VersionRef (what readers do)
//!   cur open ID LO HI | cur step ID PROG | cur close ID   a held range_scan cursor
//!   select | perform IDX   the two halves of a compaction step (several may be selected before any
//!                  is performed, as with several compaction threads)
//!   hookperform IDX  the next perform runs pending compaction IDX entirely between the linking of
//!                  its own outputs and its manifest edit
//!   racedrop ID IDX  snapshot ID is dropped while another thread performs pending compaction IDX,
//!                  placed so that the compaction reaches `inc_and(X, hard_link)` for an output X
//!                  that only the snapshot still references exactly when the reader is inside
//!                  `dec_and`'s callback for X (count gone, sst/X not yet renamed).  The table lock
//!                  makes the pin wait for the rename (`window=blocked`); `window=entered` = it did not
//!   hookdrop ID    the next compaction drops snapshot ID between linking its outputs and applying
//!                  its manifest edit (the step of a concurrent reader, placed deterministically)
use std::collections::{BTreeMap, BTreeSet, HashMap, HashSet};
use std::io::{BufRead, Write};
use std::ops::Bound;
use std::sync::{Arc, Condvar, Mutex};

use arrrg::CommandLine;
use hx::{hex, unhex};
use lsmtk::{KeyValueStore, LsmVerifier, LsmtkOptions, VersionRef, WriteBatch};
use sst::Cursor;

fn hx0(b: &[u8]) -> String {
    if b.is_empty() { "-".to_string() } else { hex(b) }
}

fn err_class(e: &lsmtk::SError) -> String {
    let s = e.to_string();
    match lsmtk::error_code(e) {
        Some(c) => c.to_string(),
        None => {
            let t: String = s.chars().filter(|c| !c.is_whitespace()).take(60).collect();
            if let Some(i) = s.find("(code ") {
                let rest = &s[i + 6..];
                let end = rest.find(')').unwrap_or(rest.len());
                rest[..end].trim().trim_matches('"').to_string()
            } else if s.contains("No such file") || s.contains("NotFound") {
                "not-found".to_string()
            } else {
                t
            }
        }
    }
}

fn bound(s: &str) -> Bound<Vec<u8>> {
    match s.as_bytes()[0] {
        b'U' => Bound::Unbounded,
        b'I' => Bound::Included(unhex(&s[1..])),
        b'E' => Bound::Excluded(unhex(&s[1..])),
        _ => panic!("bad bound"),
    }
}

fn names(dir: &str, pred: impl Fn(&str) -> bool) -> String {
    let mut v: Vec<String> = match std::fs::read_dir(dir) {
        Ok(rd) => rd
            .filter_map(|e| e.ok())
            .map(|e| e.file_name().to_string_lossy().to_string())
            .filter(|n| pred(n))
            .collect(),
        Err(_) => vec!["?".to_string()],
    };
    v.sort();
    v.join(",")
}

fn ls(root: &str) -> String {
    format!(
        "LS sst={} trash={} root={} mani={} verify={} tmp={} compaction={}",
        names(&format!("{root}/sst"), |_| true),
        names(&format!("{root}/trash"), |_| true),
        names(root, |n| n.starts_with("log.")),
        names(&format!("{root}/mani"), |n| n != "LOCKFILE"),
        names(&format!("{root}/verify"), |n| n != "LOCKFILE"),
        names(&format!("{root}/tmp"), |_| true),
        names(&format!("{root}/compaction"), |_| true),
    )
}

/// fragments of a manifest directory in the order `list_mani_fragments` uses (numbered ascending,
/// MANIFEST last), each as the list of its edits: `F name E -rm +add @Kvalue E ...`
fn mani_dump(dir: &str) -> String {
    let mut ids: Vec<u64> = vec![];
    if let Ok(rd) = std::fs::read_dir(dir) {
        for e in rd.filter_map(|e| e.ok()) {
            if let Some(id) = mani::extract_backup(e.path()) {
                ids.push(id);
            }
        }
    }
    ids.sort();
    let mut files: Vec<String> = ids.iter().map(|i| format!("MANIFEST.{i}")).collect();
    if std::path::Path::new(&format!("{dir}/MANIFEST")).exists() {
        files.push("MANIFEST".to_string());
    }
    let mut out = String::new();
    for f in files {
        out.push_str(&format!(" F {f}"));
        match mani::ManifestIterator::open(format!("{dir}/{f}")) {
            Err(_) => out.push_str(" OPENERR"),
            Ok(it) => {
                for edit in it {
                    match edit {
                        Err(_) => {
                            out.push_str(" ERR");
                            break;
                        }
                        Ok(edit) => {
                            out.push_str(" E");
                            for r in edit.rmed() {
                                out.push_str(&format!(" -{r}"));
                            }
                            for a in edit.added() {
                                out.push_str(&format!(" +{a}"));
                            }
                            for k in ['I', 'O', 'D', 'L', 'M'] {
                                if let Some(v) = edit.get_info(k) {
                                    out.push_str(&format!(" @{k}{v}"));
                                }
                            }
                        }
                    }
                }
            }
        }
    }
    out
}

/// state of a manifest directory = fold of the edits of its MANIFEST file (what Manifest::open reads)
fn mani_state(dir: &str) -> String {
    let mut strs: BTreeSet<String> = BTreeSet::new();
    let mut info: BTreeMap<char, String> = BTreeMap::new();
    let p = format!("{dir}/MANIFEST");
    if std::path::Path::new(&p).exists() {
        match mani::ManifestIterator::open(&p) {
            Err(_) => return "OPENERR".to_string(),
            Ok(it) => {
                for edit in it {
                    let Ok(edit) = edit else { return "ERR".to_string() };
                    for r in edit.rmed() {
                        strs.remove(r);
                    }
                    for a in edit.added() {
                        strs.insert(a.clone());
                    }
                    for k in ['I', 'O', 'D', 'L', 'M'] {
                        if let Some(v) = edit.get_info(k) {
                            info.insert(k, v.clone());
                        }
                    }
                }
            }
        }
    }
    format!(
        "strs={} info={}",
        strs.into_iter().collect::<Vec<_>>().join(","),
        info.into_iter().map(|(k, v)| format!("{k}:{v}")).collect::<Vec<_>>().join(",")
    )
}

fn verify_pass(o: LsmtkOptions) -> String {
    let r = std::panic::catch_unwind(std::panic::AssertUnwindSafe(|| -> String {
        let mut v = match LsmVerifier::open(o) {
            Ok(v) => v,
            Err(e) => return format!("VERIFY openerr {}", err_class(&e)),
        };
        match v.verify() {
            Ok(()) => "VERIFY ok".to_string(),
            Err(e) => match lsmtk::backoff_path(&e) {
                Some(p) => format!("VERIFY backoff {p}"),
                None => {
                    let d: String = e.to_string().split_whitespace().collect::<Vec<_>>().join("_");
                    format!("VERIFY err {} {}", err_class(&e), d.chars().take(400).collect::<String>())
                }
            },
        }
    }));
    r.unwrap_or_else(|_| "VERIFY PANIC".to_string())
}

fn print_files(out: &mut impl Write, root: &str, kvs: &KeyValueStore, seen: &mut HashSet<String>) {
    let dump = kvs.verif_tree().verif_dump();
    for (_, md) in dump.iter() {
        let name = hex(&md.setsum);
        if seen.insert(name.clone()) {
            let path = format!("{root}/sst/{name}.sst");
            let mut line = format!("FILE {name}");
            match sst::Sst::<sst::file_manager::FileHandle>::new(sst::SstOptions::default(), &path) {
                Ok(sst) => {
                    let mut c = sst.cursor();
                    let mut ok = c.seek_to_first().is_ok();
                    while ok {
                        if c.next().is_err() {
                            line.push_str(" ERR");
                            break;
                        }
                        match c.key_value() {
                            Some(kv) => {
                                line.push_str(&format!(
                                    " {}:{}:{}",
                                    hx0(kv.key),
                                    kv.timestamp,
                                    match kv.value { Some(v) => hx0(v), None => "~".to_string() }
                                ));
                            }
                            None => { ok = false; }
                        }
                    }
                }
                Err(e) => line.push_str(&format!(" OPENERR:{}", err_class(&e))),
            }
            writeln!(out, "{line}").unwrap();
        }
    }
    let mut line = "DUMP".to_string();
    for (lvl, md) in dump.iter() {
        line.push_str(&format!(
            " {}:{}:{}:{}:{}:{}:{}",
            lvl, hex(&md.setsum), hx0(&md.first_key), hx0(&md.last_key),
            md.smallest_timestamp, md.biggest_timestamp, md.file_size
        ));
    }
    writeln!(out, "{line}").unwrap();
}

static SNAPS: Mutex<Option<HashMap<String, VersionRef<'static>>>> = Mutex::new(None);
static HOOK_DROP: Mutex<Option<String>> = Mutex::new(None);
/// compactions selected (`select`) and not yet performed, as several compaction threads have them
static PENDING: Mutex<Vec<Option<lsmtk::VerifPending>>> = Mutex::new(Vec::new());
/// index of a pending compaction to perform entirely at the next `compaction_finish:linked` point
static HOOK_PERFORM: Mutex<Option<usize>> = Mutex::new(None);
static HOOK_PERFORM_RESULT: Mutex<Option<String>> = Mutex::new(None);

/// the placed race of `racedrop`: thread B (the compaction) stops before pinning `held_at`; thread
/// A (the reader's release) lets it go from inside the release callback of the same sst and waits
/// for it to get past the pin, or for a timeout when the table lock keeps B out
struct Race {
    armed: bool,
    candidates: Vec<String>,
    held_at: Option<String>,
    go: bool,
    pinned: bool,
    b_done: Option<String>,
    window: &'static str,
}
static RACE: Mutex<Race> = Mutex::new(Race {
    armed: false,
    candidates: Vec::new(),
    held_at: None,
    go: false,
    pinned: false,
    b_done: None,
    window: "none",
});
static RACE_CV: Condvar = Condvar::new();
const RACE_WINDOW_MS: u64 = 1000;

fn race_point(name: &'static str, x: &str) {
    let mut r = RACE.lock().unwrap();
    if !r.armed {
        return;
    }
    match name {
        "compaction_finish:before_pin" => {
            if r.held_at.is_none() && !r.go && r.candidates.iter().any(|c| c == x) {
                r.held_at = Some(x.to_string());
                RACE_CV.notify_all();
                while !r.go {
                    r = RACE_CV.wait(r).unwrap();
                }
            }
        }
        "compaction_finish:pinned" => {
            if r.held_at.as_deref() == Some(x) {
                r.pinned = true;
                RACE_CV.notify_all();
            }
        }
        "release_sst:before_rename" => {
            if r.held_at.as_deref() == Some(x) && !r.go {
                r.go = true;
                RACE_CV.notify_all();
                let deadline = std::time::Instant::now() + std::time::Duration::from_millis(RACE_WINDOW_MS);
                while !r.pinned {
                    let now = std::time::Instant::now();
                    if now >= deadline {
                        break;
                    }
                    r = RACE_CV.wait_timeout(r, deadline - now).unwrap().0;
                }
                r.window = if r.pinned { "entered" } else { "blocked" };
            }
        }
        _ => {}
    }
}

fn main() {
    let args: Vec<String> = std::env::args().collect();
    if std::env::var("C08_LOUD").is_err() {
        hx::quiet_panics();
    }
    if args.len() >= 3 && args[1] == "--verify" {
        let root = args[2].clone();
        let mut a: Vec<&str> = vec!["--path", &root];
        for e in args[3..].iter() {
            a.push(e);
        }
        let o = LsmtkOptions::from_arguments_relaxed("c08", &a).0;
        println!("{}", verify_pass(o));
        std::process::exit(0);
    }
    let root = args[1].clone();
    let mut a: Vec<&str> = vec!["--path", &root];
    for e in args[2..].iter() {
        a.push(e);
    }
    let stdout = std::io::stdout();
    let mut out = std::io::BufWriter::new(stdout.lock());
    let o = LsmtkOptions::from_arguments_relaxed("c08", &a).0;
    let o2 = o.clone();
    let opened = std::panic::catch_unwind(|| KeyValueStore::open(o));
    let kvs: &'static KeyValueStore = match opened {
        Ok(Ok(k)) => Box::leak(Box::new(k)),
        Ok(Err(e)) => {
            writeln!(out, "OPEN err {}", err_class(&e)).unwrap();
            out.flush().unwrap();
            std::process::exit(0);
        }
        Err(_) => {
            writeln!(out, "OPEN PANIC").unwrap();
            out.flush().unwrap();
            std::process::exit(0);
        }
    };
    writeln!(out, "OPEN ok").unwrap();
    out.flush().unwrap();
    std::thread::spawn(move || {
        let r = std::panic::catch_unwind(std::panic::AssertUnwindSafe(|| kvs.memtable_thread()));
        let msg = match r {
            Ok(Ok(())) => "ok".to_string(),
            Ok(Err(e)) => format!("err {}", err_class(&e)),
            Err(_) => "PANIC".to_string(),
        };
        println!("THREAD memtable {msg}");
    });
    *SNAPS.lock().unwrap() = Some(HashMap::new());
    lsmtk::verif_set_point_hook(Some(Box::new(move |name: &'static str| {
        if name == "compaction_finish:linked" {
            let id = HOOK_DROP.lock().unwrap().take();
            if let Some(id) = id {
                let snap = SNAPS.lock().unwrap().as_mut().unwrap().remove(&id);
                drop(snap);
            }
            // another compaction thread's whole perform phase runs here: after this compaction
            // linked its outputs, before it takes the compaction mutex for its manifest edit
            let idx = HOOK_PERFORM.lock().unwrap().take();
            if let Some(idx) = idx {
                let p = PENDING.lock().unwrap().get_mut(idx).and_then(|x| x.take());
                let r = match p {
                    None => "no-such-pending".to_string(),
                    Some(p) => match kvs.verif_tree().verif_compaction_perform(p) {
                        Ok(()) => "ok".to_string(),
                        Err(e) => format!("err {}", err_class(&e)),
                    },
                };
                *HOOK_PERFORM_RESULT.lock().unwrap() = Some(r);
            }
        }
    })));
    lsmtk::verif_set_sst_point_hook(Some(Arc::new(race_point)));
    let mut cursors: HashMap<String, Box<dyn Cursor + 'static>> = HashMap::new();
    let mut seen = HashSet::new();
    let stdin = std::io::stdin();
    for line in stdin.lock().lines() {
        let line = line.unwrap();
        let t: Vec<&str> = line.split_whitespace().collect();
        if t.is_empty() {
            continue;
        }
        let r = std::panic::catch_unwind(std::panic::AssertUnwindSafe(|| -> String {
            match t[0] {
                "put" => match kvs.put(&unhex(t[1]), &unhex(t[2])) { Ok(()) => "PUT ok".into(), Err(e) => format!("PUT err {}", err_class(&e)) },
                "del" => match kvs.del(&unhex(t[1])) { Ok(()) => "DEL ok".into(), Err(e) => format!("DEL err {}", err_class(&e)) },
                "batch" => {
                    let mut wb = WriteBatch::default();
                    for kv in t[1].split(',') {
                        let (k, v) = kv.split_once('=').unwrap();
                        if v == "~" { wb.del(&unhex(k)); } else { wb.put(&unhex(k), &unhex(v)); }
                    }
                    match kvs.write(wb) { Ok(()) => "BATCH ok".into(), Err(e) => format!("BATCH err {}", err_class(&e)) }
                }
                "get" | "getall" => {
                    let mut s = "GET".to_string();
                    for k in t[1].split(',') {
                        let mut tomb = false;
                        match kvs.load(&unhex(k), &mut tomb) {
                            Ok(Some(v)) => s.push_str(&format!(" {}", hx0(&v))),
                            Ok(None) => s.push_str(if tomb { " ~" } else { " ." }),
                            Err(e) => s.push_str(&format!(" err:{}", err_class(&e))),
                        }
                    }
                    s
                }
                "flush" => {
                    let target = kvs.verif_request_flush();
                    kvs.verif_wait_flush(target);
                    format!("FLUSH {target}")
                }
                "compact" => match kvs.verif_tree().verif_compaction_step() {
                    Ok(None) => "COMPACT none".into(),
                    Ok(Some(c)) => format!("COMPACT {} {} {} {} {} {}", c.lower_level, c.upper_level, hx0(&c.first_key), hx0(&c.last_key), c.size, c.inputs.join(",")),
                    Err(e) => format!("COMPACT err {}", err_class(&e)),
                },
                "state" => {
                    let st = kvs.verif_state();
                    format!("STATE {} {} {} {} {}", st.seq_no, st.mem_seq_no, st.imm_trigger, st.has_imm as u8, st.mem_size)
                }
                "dump" => "DUMPREQ".into(),
                "ls" => ls(&root),
                "mani" => format!("MANI{}", mani_dump(&format!("{root}/mani"))),
                "vmani" => format!("VMANI {} |{}", mani_state(&format!("{root}/verify")), mani_dump(&format!("{root}/verify"))),
                "mstate" => format!("MSTATE {}", mani_state(&format!("{root}/mani"))),
                "refs" => {
                    let refs = kvs.verif_tree().verif_refs();
                    format!("REFS {}", refs.iter().map(|(k, v)| format!("{k}:{v}")).collect::<Vec<_>>().join(","))
                }
                "verify" => verify_pass(o2.clone()),
                "snap" => {
                    let id = t[2].to_string();
                    match t[1] {
                        "take" => {
                            let s = kvs.verif_tree().verif_snapshot();
                            let line = format!("SNAP take {} strong={}", s.verif_setsums().join(","), s.verif_strong_count());
                            SNAPS.lock().unwrap().as_mut().unwrap().insert(id, s);
                            line
                        }
                        "drop" => {
                            let s = SNAPS.lock().unwrap().as_mut().unwrap().remove(&id);
                            match s {
                                Some(s) => {
                                    let line = format!("SNAP drop strong={}", s.verif_strong_count());
                                    drop(s);
                                    line
                                }
                                None => "SNAP none".to_string(),
                            }
                        }
                        "show" => match SNAPS.lock().unwrap().as_ref().unwrap().get(&id) {
                            Some(s) => format!("SNAP show {} strong={}", s.verif_setsums().join(","), s.verif_strong_count()),
                            None => "SNAP none".to_string(),
                        },
                        _ => "BADOP snap".to_string(),
                    }
                }
                "select" => match kvs.verif_tree().verif_compaction_select() {
                    None => "SELECT none".into(),
                    Some((c, p)) => {
                        let mut pend = PENDING.lock().unwrap();
                        pend.push(Some(p));
                        format!("SELECT {} {} {} {} {} {} {}", pend.len() - 1, c.lower_level, c.upper_level, hx0(&c.first_key), hx0(&c.last_key), c.size, c.inputs.join(","))
                    }
                },
                "perform" => {
                    let idx: usize = t[1].parse().unwrap();
                    let p = PENDING.lock().unwrap().get_mut(idx).and_then(|x| x.take());
                    let r = match p {
                        None => "PERFORM err no-such-pending".to_string(),
                        Some(p) => match kvs.verif_tree().verif_compaction_perform(p) {
                            Ok(()) => "PERFORM ok".to_string(),
                            Err(e) => format!("PERFORM err {}", err_class(&e)),
                        },
                    };
                    match HOOK_PERFORM_RESULT.lock().unwrap().take() {
                        Some(inner) => format!("{r} inner={}", inner.replace(' ', "_")),
                        None => r,
                    }
                }
                "racedrop" => {
                    let id = t[1].to_string();
                    let idx: usize = t[2].parse().unwrap();
                    let snap = SNAPS.lock().unwrap().as_mut().unwrap().remove(&id);
                    let p = PENDING.lock().unwrap().get_mut(idx).and_then(|x| x.take());
                    match (snap, p) {
                        (Some(snap), Some(p)) => {
                            // ssts that go to the trash when this snapshot lets go: it is the only
                            // holder of its version and the version is their only reference
                            let refs: HashMap<String, u64> = kvs.verif_tree().verif_refs().into_iter().collect();
                            let candidates: Vec<String> = if snap.verif_strong_count() == 1 {
                                snap.verif_setsums().into_iter().filter(|x| refs.get(x) == Some(&1)).collect()
                            } else {
                                vec![]
                            };
                            let ncand = candidates.len();
                            {
                                let mut r = RACE.lock().unwrap();
                                *r = Race { armed: true, candidates, held_at: None, go: false, pinned: false, b_done: None, window: "none" };
                            }
                            let b = std::thread::spawn(move || {
                                let res = std::panic::catch_unwind(std::panic::AssertUnwindSafe(|| kvs.verif_tree().verif_compaction_perform(p)));
                                let msg = match res {
                                    Ok(Ok(())) => "ok".to_string(),
                                    Ok(Err(e)) => format!("err_{}", err_class(&e)),
                                    Err(_) => "PANIC".to_string(),
                                };
                                let mut r = RACE.lock().unwrap();
                                r.b_done = Some(msg);
                                RACE_CV.notify_all();
                            });
                            {
                                let mut r = RACE.lock().unwrap();
                                while r.held_at.is_none() && r.b_done.is_none() {
                                    r = RACE_CV.wait(r).unwrap();
                                }
                            }
                            let strong = snap.verif_strong_count();
                            let raced = RACE.lock().unwrap().held_at.is_some();
                            if raced {
                                drop(snap);
                            } else {
                                // the compaction pinned nothing that only this snapshot holds: the
                                // snapshot stays (the caller may try the next compaction)
                                SNAPS.lock().unwrap().as_mut().unwrap().insert(id.clone(), snap);
                            }
                            {
                                let mut r = RACE.lock().unwrap();
                                r.go = true;
                                RACE_CV.notify_all();
                                while r.b_done.is_none() {
                                    r = RACE_CV.wait(r).unwrap();
                                }
                            }
                            let _ = b.join();
                            let mut r = RACE.lock().unwrap();
                            r.armed = false;
                            format!("RACEDROP perform={} candidates={} held={} window={} strong={}",
                                r.b_done.clone().unwrap_or_default().replace(' ', "_"), ncand,
                                r.held_at.clone().unwrap_or("-".to_string()), r.window, strong)
                        }
                        _ => "RACEDROP err no-such-snapshot-or-pending".to_string(),
                    }
                }
                "hookperform" => {
                    *HOOK_PERFORM.lock().unwrap() = t[1].parse().ok();
                    "HOOKPERFORM armed".to_string()
                }
                "hookdrop" => {
                    *HOOK_DROP.lock().unwrap() = Some(t[1].to_string());
                    "HOOKDROP armed".to_string()
                }
                "cur" => {
                    let id = t[2].to_string();
                    match t[1] {
                        "open" => {
                            let lo: &'static Bound<Vec<u8>> = Box::leak(Box::new(bound(t[3])));
                            let hi: &'static Bound<Vec<u8>> = Box::leak(Box::new(bound(t[4])));
                            match kvs.range_scan(lo, hi) {
                                Err(e) => format!("CUR err {}", err_class(&e)),
                                Ok(c) => {
                                    cursors.insert(id, Box::new(c));
                                    "CUR open".to_string()
                                }
                            }
                        }
                        "close" => {
                            let c = cursors.remove(&id);
                            let had = c.is_some();
                            drop(c);
                            format!("CUR close {}", had as u8)
                        }
                        "step" => match cursors.get_mut(&id) {
                            None => "CUR none".to_string(),
                            Some(c) => {
                                let mut s = "CUR".to_string();
                                for step in t[3].split(',') {
                                    let r = match step.as_bytes()[0] {
                                        b'F' => c.seek_to_first(),
                                        b'L' => c.seek_to_last(),
                                        b'N' => c.next(),
                                        b'P' => c.prev(),
                                        b'S' => c.seek(&unhex(&step[1..])),
                                        _ => panic!("bad step"),
                                    };
                                    match r {
                                        Err(e) => { s.push_str(&format!(" err:{}", err_class(&e))); break; }
                                        Ok(()) => match c.key_value() {
                                            Some(kv) => s.push_str(&format!(" {}={}", hx0(kv.key), match kv.value { Some(v) => hx0(v), None => "~".to_string() })),
                                            None => s.push_str(" ."),
                                        },
                                    }
                                }
                                s
                            }
                        },
                        _ => "BADOP cur".to_string(),
                    }
                }
                _ => format!("BADOP {}", t[0]),
            }
        }));
        match r {
            Ok(s) if s == "DUMPREQ" => print_files(&mut out, &root, kvs, &mut seen),
            Ok(s) => writeln!(out, "{s}").unwrap(),
            Err(_) => writeln!(out, "PANIC {}", t[0]).unwrap(),
        }
        out.flush().unwrap();
    }
    out.flush().unwrap();
    std::process::exit(0);
}
