//! C13 harness: runs manifest cases on the real `mani::Manifest` / `mani::ManifestIterator`.
//!
//! default mode — one case per stdin line, one output line per case, prefixed "@@ " (Manifest::verify
//! prints to stdout itself; unmarked lines are ignored by the check); same language and the same
//! canonical output as ocaml/mani/mx_mani.ml, minus the model-only items `tr[..]`/`sw[..]`):
//!   case ::= "ratio=" INT ";" op (";" op)*
//!   op   ::= open | rollover | close | verify | dump | cut INT | apply RAW* | sweep .. (ignored)
//!          | iter HEX | readfile HEX | lockprobe | selfopen | foreign OP (/ OP)*
//!   selfopen: a SECOND Manifest::open of the same root inside this process (fail_if_locked):
//!             `self:<error class>` or `self:opened`;  foreign: ANOTHER PROCESS opens the root
//!             (fail_if_locked) and, if it gets in, runs the ops: `foreign:locked` / `foreign:ok`
//!   RAW  ::= a:HEX | r:HEX | i:CODEPOINT:HEX
//!   a line "@img DIR RATIO" re-opens an existing directory image: prints `RES | vf[..] | RES | vf[..]`
//!   (open, read the state, drop, Manifest::verify; and all of that once more) — the image is
//!   modified by the opens.
//! `c13 --exec DIR` — runs ONE case (stdin) inside DIR (kept), writing "@@OP <i> <result>\n" with a
//!   single write(2) to stdout after every op (the Python side runs this under strace).
//!   a line "@lock EV EV .." drives the lock-file protocol itself (utilz::lockfile::Lockfile::lock on
//!   one file) in TWO real processes, sequentially: EV = <pid 0|1> 'l' (try to lock: `got`/`none`)
//!   or <pid> 'u' (drop that process's newest handle: `ok`/`nohandle`); prints the results.
//! `c13 --trylock DIR` — prints "locked" or "free" (Manifest::open with --fail-if-locked).
//! `c13 --foreign DIR RATIO` — Manifest::open(fail_if_locked); on success runs the ops of stdin
//!   (separated by ';') and prints "ok", else "locked" / "err:<class>".
//! `c13 --lockagent FILE` — stdin commands `l` / `u` / `q`, one answer line each.
//! Every op runs under catch_unwind: a panic is the output `PANIC`.
use std::io::{BufRead, Write};
use std::os::unix::fs::MetadataExt;
use std::path::{Path, PathBuf};

use arrrg::CommandLine;
use hx::{hex, unhex};
use mani::{Edit, Manifest, ManifestIterator, ManifestOptions};

fn options(ratio: u64, fail_if_locked: bool) -> ManifestOptions {
    let r = ratio.to_string();
    let mut args = vec!["--log-rollover-ratio", r.as_str()];
    if fail_if_locked {
        args.push("--fail-if-locked");
    }
    ManifestOptions::from_arguments_relaxed("c13", &args).0
}

fn err_class(e: &handled::SError) -> String {
    mani::error_code(e).unwrap_or("unknown").to_string()
}

fn unhex_str(h: &str) -> String {
    String::from_utf8(unhex(if h.is_empty() { "-" } else { h })).expect("generator must emit valid UTF-8")
}

fn show_state(m: &Manifest, keys: &[char]) -> String {
    let strs: Vec<String> = m.strs().map(|s| hex(s.as_bytes())).collect();
    let mut infos = vec![];
    for c in keys {
        if let Some(v) = m.info(*c) {
            infos.push(format!("{}:{}", *c as u32, hex(v.as_bytes())));
        }
    }
    format!("{{{}/{}}}", strs.join(","), infos.join(","))
}

fn fname_tag(name: &str) -> Option<(u8, u64, String)> {
    // sort key: MANIFEST, then MANIFEST.tmp, then backups by index (the order is re-done in Python)
    if name == "MANIFEST" {
        Some((0, 0, "M".to_string()))
    } else if name == "MANIFEST.tmp" {
        Some((1, 0, "T".to_string()))
    } else if let Some(rest) = name.strip_prefix("MANIFEST.") {
        rest.parse::<u64>().ok().map(|n| (2, n, format!("B{n}")))
    } else {
        None
    }
}

fn show_fs(dir: &Path) -> String {
    let mut ents = vec![];
    if let Ok(rd) = std::fs::read_dir(dir) {
        for e in rd.flatten() {
            let name = e.file_name().to_string_lossy().to_string();
            if name == "LOCKFILE" {
                continue;
            }
            let md = std::fs::metadata(e.path()).unwrap();
            let data = std::fs::read(e.path()).unwrap();
            match fname_tag(&name) {
                Some((a, b, tag)) => ents.push((a, b, format!("{}@{}={}", tag, md.ino(), hex(&data)))),
                None => ents.push((3, 0, format!("?{}@{}={}", name, md.ino(), hex(&data)))),
            }
        }
    }
    ents.sort();
    format!("fs[{}]", ents.into_iter().map(|x| x.2).collect::<Vec<_>>().join(","))
}

fn all_keys(case: &str) -> Vec<char> {
    let mut keys: Vec<char> = (0u32..128).filter_map(char::from_u32).collect();
    for tok in case.split(|c: char| c == ' ' || c == ';') {
        let p: Vec<&str> = tok.split(':').collect();
        if p.len() == 3 && p[0] == "i" {
            if let Some(c) = p[1].parse::<u32>().ok().and_then(char::from_u32) {
                if !keys.contains(&c) {
                    keys.push(c);
                }
            }
        }
    }
    keys.sort();
    keys
}

fn show_edit(e: &Edit, keys: &[char]) -> String {
    let adds: Vec<String> = e.added().map(|s| hex(s.as_bytes())).collect();
    let rms: Vec<String> = e.rmed().map(|s| hex(s.as_bytes())).collect();
    let mut infos = vec![];
    for c in keys {
        if let Some(v) = e.get_info(*c) {
            infos.push(format!("{}:{}", *c as u32, hex(v.as_bytes())));
        }
    }
    format!("{{{}/{}/{}}}", adds.join(","), rms.join(","), infos.join(","))
}

fn verify_str(ratio: u64, dir: &Path) -> String {
    let r = std::panic::catch_unwind(|| {
        let errs: Vec<String> = Manifest::verify(options(ratio, false), dir).map(|e| err_class(&e)).collect();
        format!("vf[{}]", errs.join(","))
    });
    r.unwrap_or_else(|_| "vfPANIC".to_string())
}

fn open_res(ratio: u64, dir: &Path, keys: &[char]) -> String {
    let d = dir.to_path_buf();
    let k = keys.to_vec();
    let r = std::panic::catch_unwind(move || match Manifest::open(options(ratio, false), &d) {
        Ok(m) => format!("S{}", show_state(&m, &k)),
        Err(e) => format!("E{}", err_class(&e)),
    });
    r.unwrap_or_else(|_| "PANIC".to_string())
}

struct Runner {
    dir: PathBuf,
    ratio: u64,
    keys: Vec<char>,
    mani: Option<Manifest>,
    scratch: PathBuf,
    nscratch: usize,
}

impl Runner {
    /// run one op; None = the op prints nothing (model-only)
    fn op(&mut self, op: &str) -> Option<String> {
        let t: Vec<&str> = op.split_whitespace().collect();
        if t.is_empty() {
            return None;
        }
        let r = std::panic::catch_unwind(std::panic::AssertUnwindSafe(|| self.op_inner(&t)));
        match r {
            Ok(x) => x,
            Err(_) => {
                // a panic inside an operation: the handle is gone (as after a process death)
                self.mani = None;
                Some("PANIC".to_string())
            }
        }
    }

    fn op_inner(&mut self, t: &[&str]) -> Option<String> {
        match t[0] {
            "open" => {
                if self.mani.is_some() {
                    return Some("BAD".to_string());
                }
                match Manifest::open(options(self.ratio, false), &self.dir) {
                    Ok(m) => {
                        self.mani = Some(m);
                        Some("ok".to_string())
                    }
                    Err(e) => Some(format!("err:{}", err_class(&e))),
                }
            }
            "apply" => {
                let mut edit = Edit::default();
                let mut chk = vec![];
                for raw in &t[1..] {
                    let p: Vec<&str> = raw.split(':').collect();
                    let r = match p[0] {
                        "a" => edit.add(&unhex_str(p[1])),
                        "r" => edit.rm(&unhex_str(p[1])),
                        "i" => {
                            let c = char::from_u32(p[1].parse::<u32>().unwrap()).expect("generator must emit scalar values");
                            edit.info(c, &unhex_str(p[2]))
                        }
                        _ => panic!("bad raw op"),
                    };
                    chk.push(match r {
                        Ok(()) => "ok".to_string(),
                        Err(e) => format!("err:{}", err_class(&e)),
                    });
                }
                let m = match self.mani.as_mut() {
                    Some(m) => m,
                    None => return Some("BAD".to_string()),
                };
                let res = match m.apply(edit) {
                    Ok(()) => "ok".to_string(),
                    Err(e) => {
                        let s = format!("err:{}", err_class(&e));
                        self.mani = None;
                        s
                    }
                };
                Some(format!("chk[{}] | {}", chk.join(","), res))
            }
            "rollover" => {
                let m = match self.mani.as_mut() {
                    Some(m) => m,
                    None => return Some("BAD".to_string()),
                };
                match m.rollover() {
                    Ok(()) => Some("ok".to_string()),
                    Err(e) => {
                        let s = format!("err:{}", err_class(&e));
                        self.mani = None;
                        Some(s)
                    }
                }
            }
            "close" => {
                self.mani = None;
                Some(String::new())
            }
            "cut" => {
                if self.mani.is_some() {
                    return Some("BAD".to_string());
                }
                let n: u64 = t[1].parse().unwrap();
                let p = self.dir.join("MANIFEST");
                if let Ok(md) = std::fs::metadata(&p) {
                    if n < md.len() {
                        // a fresh inode is not needed: nothing else is appended through other links
                        let f = std::fs::OpenOptions::new().write(true).open(&p).unwrap();
                        f.set_len(n).unwrap();
                    }
                }
                Some(String::new())
            }
            "verify" => Some(verify_str(self.ratio, &self.dir)),
            "dump" => {
                let st = match &self.mani {
                    Some(m) => format!("st{}", show_state(m, &self.keys)),
                    None => "st-".to_string(),
                };
                Some(format!("{} | {}", st, show_fs(&self.dir)))
            }
            "sweep" | "trace" | "point" => None,
            "iter" => {
                let bytes = if t.len() > 1 { unhex(t[1]) } else { vec![] };
                self.nscratch += 1;
                let p = self.scratch.join(format!("iter{}", self.nscratch));
                std::fs::write(&p, &bytes).unwrap();
                let nlines = bytes.iter().filter(|b| **b == b'\n').count() + 2;
                let mut items = vec![];
                match ManifestIterator::open(&p) {
                    Ok(it) => {
                        for item in it.take(nlines + 1) {
                            match item {
                                Ok(e) => items.push(format!("E{}", show_edit(&e, &self.keys))),
                                Err(e) => items.push(format!("X{}", err_class(&e))),
                            }
                        }
                    }
                    Err(e) => items.push(format!("OPEN{}", err_class(&e))),
                }
                let _ = std::fs::remove_file(&p);
                Some(format!("it[{}]", items.join(",")))
            }
            "readfile" => {
                let bytes = if t.len() > 1 { unhex(t[1]) } else { vec![] };
                self.nscratch += 1;
                let d = self.scratch.join(format!("rf{}", self.nscratch));
                std::fs::create_dir_all(&d).unwrap();
                std::fs::write(d.join("MANIFEST"), &bytes).unwrap();
                let r = open_res(self.ratio, &d, &self.keys);
                let _ = std::fs::remove_dir_all(&d);
                Some(format!("op:{}", r))
            }
            "selfopen" => {
                // a second handle on the same root inside the process that already holds one
                match Manifest::open(options(self.ratio, true), &self.dir) {
                    Ok(m) => {
                        drop(m);
                        Some("self:opened".to_string())
                    }
                    Err(e) => Some(format!("self:{}", err_class(&e))),
                }
            }
            "foreign" => {
                use std::process::{Command, Stdio};
                let ops: String = t[1..].join(" ").split('/').map(|x| x.trim().to_string()).collect::<Vec<_>>().join("; ");
                let exe = std::env::current_exe().unwrap();
                let mut child = Command::new(exe)
                    .arg("--foreign")
                    .arg(&self.dir)
                    .arg(self.ratio.to_string())
                    .stdin(Stdio::piped())
                    .stdout(Stdio::piped())
                    .spawn()
                    .unwrap();
                child.stdin.take().unwrap().write_all(format!("{}\n", ops).as_bytes()).unwrap();
                let out = child.wait_with_output().unwrap();
                let text = String::from_utf8_lossy(&out.stdout);
                let last = text.lines().filter(|l| l.starts_with("@@F ")).last().unwrap_or("@@F died").to_string();
                Some(format!("foreign:{}", &last[4..]))
            }
            "lockprobe" => {
                let exe = std::env::current_exe().unwrap();
                let out = std::process::Command::new(exe).arg("--trylock").arg(&self.dir).output().unwrap();
                Some(format!("lock:{}", String::from_utf8_lossy(&out.stdout).trim()))
            }
            _ => panic!("bad op {}", t[0]),
        }
    }
}

/// two real processes, each running `--lockagent FILE`, driven one event at a time
fn lock_case(lockfile: &Path, events: &str) -> String {
    use std::io::BufReader;
    use std::process::{Command, Stdio};
    let exe = std::env::current_exe().unwrap();
    let mut agents = vec![];
    for _ in 0..2 {
        let mut c = Command::new(&exe).arg("--lockagent").arg(lockfile).stdin(Stdio::piped()).stdout(Stdio::piped()).spawn().unwrap();
        let sin = c.stdin.take().unwrap();
        let sout = BufReader::new(c.stdout.take().unwrap());
        agents.push((c, sin, sout));
    }
    let mut res = vec![];
    for ev in events.split_whitespace() {
        let p = if ev.starts_with('1') { 1 } else { 0 };
        let cmd = &ev[1..];
        let (_, sin, sout) = &mut agents[p];
        sin.write_all(format!("{}\n", cmd).as_bytes()).unwrap();
        sin.flush().unwrap();
        let mut ans = String::new();
        sout.read_line(&mut ans).unwrap();
        res.push(ans.trim().to_string());
    }
    for (mut c, mut sin, _) in agents {
        let _ = sin.write_all(b"q\n");
        drop(sin);
        let _ = c.wait();
    }
    res.join(" ")
}

fn parse_case(line: &str) -> (u64, Vec<String>) {
    let mut parts = line.split(';').map(|s| s.trim().to_string()).filter(|s| !s.is_empty());
    let hd = parts.next().expect("ratio");
    let ratio: u64 = hd.strip_prefix("ratio=").expect("ratio=").parse().unwrap();
    (ratio, parts.collect())
}

fn base_dir() -> PathBuf {
    let shm = Path::new("/dev/shm");
    let base = if shm.is_dir() { shm.to_path_buf() } else { std::env::temp_dir() };
    base.join(format!("c13-{}", std::process::id()))
}

fn main() {
    hx::quiet_panics();
    let args: Vec<String> = std::env::args().collect();
    if args.len() >= 3 && args[1] == "--trylock" {
        match Manifest::open(options(2, true), &args[2]) {
            Ok(_) => println!("free"),
            Err(e) => println!("{}", if err_class(&e) == "lock-not-obtained" { "locked".to_string() } else { format!("err:{}", err_class(&e)) }),
        }
        return;
    }
    if args.len() >= 4 && args[1] == "--foreign" {
        let dir = PathBuf::from(&args[2]);
        let ratio: u64 = args[3].parse().unwrap();
        let mut line = String::new();
        std::io::stdin().read_line(&mut line).unwrap();
        match Manifest::open(options(ratio, true), &dir) {
            Ok(m) => {
                let scratch = dir.with_extension("fscratch");
                let mut r = Runner { dir, ratio, keys: all_keys(&line), mani: Some(m), scratch, nscratch: 0 };
                // the result of every op is reported (an op may fail, e.g. rollover of a manifest
                // that was never written): "ok <r1>/<r2>/.." with " | " written as ","
                let mut res = vec![];
                for op in line.trim().split(';').map(|x| x.trim()).filter(|x| !x.is_empty()) {
                    res.push(r.op(op).unwrap_or_default().replace(" | ", ","));
                }
                println!("@@F ok {}", res.join("/"));
            }
            Err(e) => println!("@@F {}", if err_class(&e) == "lock-not-obtained" { "locked".to_string() } else { format!("err:{}", err_class(&e)) }),
        }
        return;
    }
    if args.len() >= 3 && args[1] == "--lockagent" {
        let path = PathBuf::from(&args[2]);
        let mut held: Vec<utilz::lockfile::Lockfile> = vec![];
        let stdin = std::io::stdin();
        for line in stdin.lock().lines() {
            let line = line.unwrap();
            let ans = match line.trim() {
                "l" => match utilz::lockfile::Lockfile::lock(&path) {
                    Ok(Some(l)) => {
                        held.push(l);
                        "got".to_string()
                    }
                    Ok(None) => "none".to_string(),
                    Err(e) => format!("err:{:?}", e.kind()),
                },
                "u" => match held.pop() {
                    Some(l) => {
                        drop(l);
                        "ok".to_string()
                    }
                    None => "nohandle".to_string(),
                },
                "q" => break,
                _ => "bad".to_string(),
            };
            println!("{}", ans);
            let _ = std::io::stdout().flush();
        }
        return;
    }
    if args.len() >= 3 && args[1] == "--exec" {
        let dir = PathBuf::from(&args[2]);
        let mut line = String::new();
        std::io::stdin().read_line(&mut line).unwrap();
        let (ratio, ops) = parse_case(line.trim());
        let scratch = dir.with_extension("scratch");
        let mut r = Runner { dir, ratio, keys: all_keys(&line), mani: None, scratch, nscratch: 0 };
        for (i, op) in ops.iter().enumerate() {
            let out = r.op(op).unwrap_or_default();
            let msg = format!("@@OP {} {}\n", i, out);
            // one write(2) per marker so that the strace log shows it as one call
            let _ = std::io::stdout().write_all(msg.as_bytes());
            let _ = std::io::stdout().flush();
        }
        return;
    }
    let base = base_dir();
    let _ = std::fs::remove_dir_all(&base);
    std::fs::create_dir_all(&base).unwrap();
    let stdin = std::io::stdin();
    // Manifest::verify prints to stdout with println!: write whole lines through the same
    // line-buffered handle so that the two never interleave inside a line
    let mut out = std::io::stdout();
    let mut ncase = 0usize;
    for line in stdin.lock().lines() {
        let line = line.unwrap();
        if line.trim().is_empty() {
            writeln!(out, "@@").unwrap();
            continue;
        }
        if let Some(rest) = line.strip_prefix("@lock ") {
            ncase += 1;
            let lockfile = base.join(format!("lockcase{}.LOCK", ncase));
            let res = lock_case(&lockfile, rest);
            let _ = std::fs::remove_file(&lockfile);
            writeln!(out, "@@ {}", res).unwrap();
            continue;
        }
        if let Some(rest) = line.strip_prefix("@img ") {
            let t: Vec<&str> = rest.split_whitespace().collect();
            let dir = PathBuf::from(t[0]);
            let ratio: u64 = t[1].parse().unwrap();
            let keys = all_keys("");
            let r = open_res(ratio, &dir, &keys);
            let v = verify_str(ratio, &dir);
            // once more: what the first open left behind must itself be a good manifest
            let r2 = open_res(ratio, &dir, &keys);
            let v2 = verify_str(ratio, &dir);
            writeln!(out, "@@ {} | {} | {} | {}", r, v, r2, v2).unwrap();
            continue;
        }
        ncase += 1;
        let dir = base.join(format!("case{}", ncase));
        let scratch = base.join(format!("scratch{}", ncase));
        std::fs::create_dir_all(&scratch).unwrap();
        let (ratio, ops) = parse_case(&line);
        let mut r = Runner { dir: dir.clone(), ratio, keys: all_keys(&line), mani: None, scratch: scratch.clone(), nscratch: 0 };
        let mut outs = vec![];
        for op in &ops {
            if let Some(o) = r.op(op) {
                outs.push(o);
            } else {
                outs.push("~".to_string());
            }
        }
        drop(r);
        writeln!(out, "@@ {}", outs.join(" ;; ")).unwrap();
        let _ = std::fs::remove_dir_all(&dir);
        let _ = std::fs::remove_dir_all(&scratch);
    }
    out.flush().unwrap();
    let _ = std::fs::remove_dir_all(&base);
}
