//! c06: drives ONE multi-threaded session of a real lsmtk::KeyValueStore and prints the totally
//! ordered trace of hook events (lsmtk::kvs::verif_events + sync42::verif) together with the
//! invocation / response events of every client operation.
//!
//! usage: c06 <dir>          (the case is ONE line on stdin; the process exits when done: the store's
//!                            threads never return)
//! case line:  HEADER | PROG0 | PROG1 | ...
//!   HEADER: space separated  key=value  items
//!     opts=<lsmtk flags joined by ','>   comp=<number of real compaction threads>
//!     yield=<per mille>  seed=<n>  slots=<wait-list slots, 0 = default>  keys=<size of the key universe>
//!     ctl=<controller script, commands joined by ';'>   (default: startall;joinall;final)
//!   PROGi: space separated client operations of thread i
//!     p<key>=<val>   d<key>   b<key>=<val>,<key>=~,...   (e = empty batch)   g<key>
//!     s<lo>-<hi> (scan of the inclusive key-id range, forward)   s (whole store)
//!     S<lo>-<hi> / S  the same scan walked forward (seek_to_first + next) and then, on the SAME cursor,
//!                     backward (seek_to_last + prev): events skv (forward) and skb (backward)
//!     m<key>,<key>,...  multi-get through ONE snapshot cursor over the whole store: one seek per listed key
//!                     (sorted or not, with repeats and absent keys): events mgv(op, key, value | MAX = absent)
//!     r (request a flush, do not wait)
//!   keys are ids (bytes "k%04d"), values are u64 (8 bytes big endian followed by (val % 5) * 7 filler bytes)
//! controller commands:
//!   arm:<what>:<tid>:<skip>  start:<tid>  startall  parked:<what>:<tid>  release:<what>:<tid>
//!   join:<tid>  joinall  flush (request + wait)  reqflush  sleep:<ms>  final (scan both ways + multi-get of every key twice and one absent key + get of every key)
//!   p<key>=<val> / d<key> / b... / g<key> / s...   (an operation issued by the controller itself, tid 900)
//! output:
//!   OPEN ok|err ..
//!   EV <tid> <what> <a> <b> <c>          one per recorded event, in recording order
//!   FINAL <seq_no> <mem_seq_no> <imm_trigger> <has_imm>   the store's scalars after the run
//!   CTL <what> <result>                  controller notes (timeouts)
//!   END
//! recorded client events (kinds: 0 put 1 del 2 batch 3 get 4 scan 5 reqflush 6 scan both ways 7 multi-get): inv(op, kind, 0)  got(op, 0 none|1 value|2 tombstone|3 err, value)
//!   skv(op, key, value)  ret(op, 0 ok|1 err|2 panic, 0)
use std::io::{BufRead, Write};
use std::ops::Bound;
use std::sync::atomic::{AtomicBool, Ordering};
use std::sync::{Arc, Condvar, Mutex};
use std::time::Duration;

use arrrg::CommandLine;
use lsmtk::{KeyValueStore, LsmtkOptions, WriteBatch};
use sst::Cursor;
use sync42::verif;

const CTL_TID: u64 = 900;
const FLUSH_TID: u64 = 1000;
const COMP_TID: u64 = 2000;

fn key_bytes(id: u64) -> Vec<u8> {
    format!("k{:04}", id).into_bytes()
}

fn key_id(b: &[u8]) -> u64 {
    std::str::from_utf8(&b[1..]).ok().and_then(|s| s.parse().ok()).unwrap_or(u64::MAX)
}

fn val_bytes(v: u64) -> Vec<u8> {
    let mut b = v.to_be_bytes().to_vec();
    b.extend(std::iter::repeat_n(0x2e, ((v % 5) * 7) as usize));
    b
}

/// The id of a value.  A value is its 8-byte big-endian id followed by a filler whose length and bytes
/// are a function of the id, so the first 8 bytes identify it; anything that is not exactly the
/// bytes `val_bytes(id)` is reported as the impossible id MAX - 3 (no write has it).
fn val_id(b: &[u8]) -> u64 {
    if b.len() < 8 {
        return u64::MAX - 3;
    }
    let mut x = [0u8; 8];
    x.copy_from_slice(&b[..8]);
    let v = u64::from_be_bytes(x);
    if val_bytes(v).as_slice() == b { v } else { u64::MAX - 3 }
}

#[derive(Clone, Debug)]
enum Op {
    Put(u64, u64),
    Del(u64),
    Batch(Vec<(u64, Option<u64>)>),
    Get(u64),
    Scan(Option<(u64, u64)>),
    Scan2(Option<(u64, u64)>),
    MultiGet(Vec<u64>),
    ReqFlush,
}

fn parse_op(s: &str) -> Option<Op> {
    let (h, t) = s.split_at(1);
    match h {
        "p" => {
            let (k, v) = t.split_once('=')?;
            Some(Op::Put(k.parse().ok()?, v.parse().ok()?))
        }
        "d" => Some(Op::Del(t.parse().ok()?)),
        "e" => Some(Op::Batch(vec![])),
        "b" => {
            let mut es = vec![];
            for kv in t.split(',') {
                let (k, v) = kv.split_once('=')?;
                es.push((k.parse().ok()?, if v == "~" { None } else { Some(v.parse().ok()?) }));
            }
            Some(Op::Batch(es))
        }
        "g" => Some(Op::Get(t.parse().ok()?)),
        "s" => {
            if t.is_empty() {
                Some(Op::Scan(None))
            } else {
                let (lo, hi) = t.split_once('-')?;
                Some(Op::Scan(Some((lo.parse().ok()?, hi.parse().ok()?))))
            }
        }
        "S" => {
            if t.is_empty() {
                Some(Op::Scan2(None))
            } else {
                let (lo, hi) = t.split_once('-')?;
                Some(Op::Scan2(Some((lo.parse().ok()?, hi.parse().ok()?))))
            }
        }
        "m" => {
            let mut ks = vec![];
            for k in t.split(',') {
                ks.push(k.parse().ok()?);
            }
            Some(Op::MultiGet(ks))
        }
        "r" => Some(Op::ReqFlush),
        _ => None,
    }
}

fn kind_of(op: &Op) -> u64 {
    match op {
        Op::Put(..) => 0,
        Op::Del(..) => 1,
        Op::Batch(..) => 2,
        Op::Get(..) => 3,
        Op::Scan(..) => 4,
        Op::Scan2(..) => 6,
        Op::MultiGet(..) => 7,
        Op::ReqFlush => 5,
    }
}

/// run one client operation, recording inv / got / skv / ret
fn run_op(kvs: &KeyValueStore, idx: u64, op: &Op) {
    verif::event("inv", idx, kind_of(op), 0);
    let r = std::panic::catch_unwind(std::panic::AssertUnwindSafe(|| -> u64 {
        match op {
            Op::Put(k, v) => kvs.put(&key_bytes(*k), &val_bytes(*v)).is_err() as u64,
            Op::Del(k) => kvs.del(&key_bytes(*k)).is_err() as u64,
            Op::Batch(es) => {
                let mut wb = WriteBatch::default();
                for (k, v) in es.iter() {
                    match v {
                        Some(v) => wb.put(&key_bytes(*k), &val_bytes(*v)),
                        None => wb.del(&key_bytes(*k)),
                    }
                }
                kvs.write(wb).is_err() as u64
            }
            Op::Get(k) => {
                let mut tomb = false;
                match kvs.load(&key_bytes(*k), &mut tomb) {
                    Ok(Some(v)) => {
                        verif::event("got", idx, 1, val_id(&v));
                        0
                    }
                    Ok(None) => {
                        verif::event("got", idx, if tomb { 2 } else { 0 }, 0);
                        0
                    }
                    Err(_) => {
                        verif::event("got", idx, 3, 0);
                        1
                    }
                }
            }
            Op::Scan(range) => {
                let (lo, hi) = match range {
                    None => (Bound::Unbounded, Bound::Unbounded),
                    Some((lo, hi)) => (Bound::Included(key_bytes(*lo)), Bound::Included(key_bytes(*hi))),
                };
                match kvs.range_scan(&lo, &hi) {
                    Err(_) => 1,
                    Ok(mut c) => {
                        let mut st = 0;
                        if c.seek_to_first().is_err() {
                            st = 1;
                        }
                        while st == 0 {
                            if c.next().is_err() {
                                st = 1;
                                break;
                            }
                            match c.key_value() {
                                Some(kv) => match kv.value {
                                    Some(v) => verif::event("skv", idx, key_id(kv.key), val_id(v)),
                                    None => verif::event("skv", idx, key_id(kv.key), u64::MAX),
                                },
                                None => break,
                            }
                        }
                        st
                    }
                }
            }
            Op::Scan2(range) => {
                let (lo, hi) = match range {
                    None => (Bound::Unbounded, Bound::Unbounded),
                    Some((lo, hi)) => (Bound::Included(key_bytes(*lo)), Bound::Included(key_bytes(*hi))),
                };
                match kvs.range_scan(&lo, &hi) {
                    Err(_) => 1,
                    Ok(mut c) => {
                        let mut st = 0;
                        if c.seek_to_first().is_err() {
                            st = 1;
                        }
                        while st == 0 {
                            if c.next().is_err() {
                                st = 1;
                                break;
                            }
                            match c.key_value() {
                                Some(kv) => match kv.value {
                                    Some(v) => verif::event("skv", idx, key_id(kv.key), val_id(v)),
                                    None => verif::event("skv", idx, key_id(kv.key), u64::MAX),
                                },
                                None => break,
                            }
                        }
                        verif::event("sturn", idx, 0, 0);
                        if st == 0 && c.seek_to_last().is_err() {
                            st = 1;
                        }
                        while st == 0 {
                            if c.prev().is_err() {
                                st = 1;
                                break;
                            }
                            match c.key_value() {
                                Some(kv) => match kv.value {
                                    Some(v) => verif::event("skb", idx, key_id(kv.key), val_id(v)),
                                    None => verif::event("skb", idx, key_id(kv.key), u64::MAX),
                                },
                                None => break,
                            }
                        }
                        st
                    }
                }
            }
            Op::MultiGet(ks) => match kvs.range_scan::<Vec<u8>>(&Bound::Unbounded, &Bound::Unbounded) {
                Err(_) => 1,
                Ok(mut c) => {
                    let mut st = 0;
                    for k in ks.iter() {
                        let kb = key_bytes(*k);
                        if c.seek(&kb).is_err() {
                            st = 1;
                            break;
                        }
                        match c.key_value() {
                            Some(kv) if kv.key == kb.as_slice() => match kv.value {
                                Some(v) => verif::event("mgv", idx, *k, val_id(v)),
                                None => verif::event("mgv", idx, *k, u64::MAX - 1),
                            },
                            _ => verif::event("mgv", idx, *k, u64::MAX),
                        }
                    }
                    st
                }
            },
            Op::ReqFlush => {
                kvs.verif_request_flush();
                0
            }
        }
    }));
    match r {
        Ok(st) => verif::event("ret", idx, st, 0),
        Err(_) => verif::event("ret", idx, 2, 0),
    }
}

struct Starter {
    go: Mutex<bool>,
    cv: Condvar,
}

fn main() {
    let args: Vec<String> = std::env::args().collect();
    let root = args[1].clone();
    let stdout = std::io::stdout();
    let mut out = std::io::BufWriter::new(stdout.lock());
    hx::quiet_panics();
    let mut line = String::new();
    std::io::stdin().lock().read_line(&mut line).unwrap();
    let mut parts = line.trim().split('|');
    let header = parts.next().unwrap_or("");
    let mut opts: Vec<String> = vec![];
    let mut comp = 0u64;
    let mut yield_pm = 0u64;
    let mut seed = 0u64;
    let mut slots = 0usize;
    let mut nkeys = 0u64;
    let mut ctl: Vec<String> = vec!["startall".into(), "joinall".into(), "final".into()];
    for item in header.split_whitespace() {
        let Some((k, v)) = item.split_once('=') else { continue };
        match k {
            "opts" => opts = v.split(',').filter(|x| !x.is_empty()).map(|x| x.to_string()).collect(),
            "comp" => comp = v.parse().unwrap(),
            "yield" => yield_pm = v.parse().unwrap(),
            "seed" => seed = v.parse().unwrap(),
            "slots" => slots = v.parse().unwrap(),
            "keys" => nkeys = v.parse().unwrap(),
            "ctl" => ctl = v.split(';').map(|x| x.to_string()).collect(),
            _ => {}
        }
    }
    let progs: Vec<Vec<Op>> = parts
        .map(|p| p.split_whitespace().map(|s| parse_op(s).unwrap_or_else(|| panic!("bad op {s}"))).collect())
        .collect();

    if slots > 0 {
        verif::set_slots(slots);
    }
    let mut a: Vec<&str> = vec!["--path", &root];
    for e in opts.iter() {
        a.push(e);
    }
    let o = LsmtkOptions::from_arguments_relaxed("c06", &a).0;
    let kvs = match std::panic::catch_unwind(|| KeyValueStore::open(o)) {
        Ok(Ok(k)) => Arc::new(k),
        Ok(Err(e)) => {
            writeln!(out, "OPEN err {}", e.to_string().replace('\n', " ")).unwrap();
            out.flush().unwrap();
            std::process::exit(0);
        }
        Err(_) => {
            writeln!(out, "OPEN PANIC").unwrap();
            out.flush().unwrap();
            std::process::exit(0);
        }
    };
    let st0 = kvs.verif_state();
    writeln!(out, "OPEN ok {} {} {}", st0.seq_no, st0.mem_seq_no, st0.imm_trigger).unwrap();
    verif::start();
    KeyValueStore::verif_set_tid(CTL_TID);
    KeyValueStore::verif_set_yield(seed, yield_pm);
    let dead = Arc::new(AtomicBool::new(false));
    {
        let k2 = Arc::clone(&kvs);
        let dead = Arc::clone(&dead);
        std::thread::spawn(move || {
            KeyValueStore::verif_set_tid(FLUSH_TID);
            let r = std::panic::catch_unwind(std::panic::AssertUnwindSafe(|| k2.memtable_thread()));
            // the memtable thread never returns unless something failed
            verif::event("f_exit", match r { Ok(Ok(())) => 0, Ok(Err(_)) => 1, Err(_) => 2 }, 0, 0);
            dead.store(true, Ordering::SeqCst);
        });
    }
    for j in 0..comp {
        let k2 = Arc::clone(&kvs);
        std::thread::spawn(move || {
            KeyValueStore::verif_set_tid(COMP_TID + j);
            let r = std::panic::catch_unwind(std::panic::AssertUnwindSafe(|| k2.compaction_thread()));
            verif::event("c_exit", match r { Ok(Ok(())) => 0, Ok(Err(_)) => 1, Err(_) => 2 }, j, 0);
        });
    }
    let mut starters = vec![];
    let mut finished: Vec<Arc<AtomicBool>> = vec![];
    let mut handles: Vec<Option<std::thread::JoinHandle<()>>> = vec![];
    for (tid, prog) in progs.iter().enumerate() {
        let st = Arc::new(Starter { go: Mutex::new(false), cv: Condvar::new() });
        starters.push(Arc::clone(&st));
        let k2 = Arc::clone(&kvs);
        let prog = prog.clone();
        let fin = Arc::new(AtomicBool::new(false));
        finished.push(Arc::clone(&fin));
        handles.push(Some(std::thread::spawn(move || {
            KeyValueStore::verif_set_tid(tid as u64);
            {
                let mut go = st.go.lock().unwrap();
                while !*go {
                    go = st.cv.wait(go).unwrap();
                }
            }
            for (i, op) in prog.iter().enumerate() {
                run_op(&k2, i as u64, op);
            }
            fin.store(true, Ordering::SeqCst);
        })));
    }
    let start = |tid: usize| {
        if let Some(st) = starters.get(tid) {
            *st.go.lock().unwrap() = true;
            st.cv.notify_all();
        }
    };
    let mut notes: Vec<String> = vec![];
    let mut ctl_idx = 0u64;
    for cmd in ctl.iter() {
        let f: Vec<&str> = cmd.split(':').collect();
        match f[0] {
            "arm" => KeyValueStore::verif_gate_arm(f[1], f[2].parse().unwrap(), f[3].parse().unwrap()),
            "start" => start(f[1].parse().unwrap()),
            "startall" => (0..starters.len()).for_each(&start),
            "parked" => {
                if !KeyValueStore::verif_gate_wait_parked(f[1], f[2].parse().unwrap(), Duration::from_secs(20)) {
                    notes.push(format!("CTL parked:{}:{} timeout", f[1], f[2]));
                }
            }
            "release" => KeyValueStore::verif_gate_release(f[1], f[2].parse().unwrap()),
            "join" => {
                let t: usize = f[1].parse().unwrap();
                let t0 = std::time::Instant::now();
                while t < finished.len() && !finished[t].load(Ordering::SeqCst) && t0.elapsed() < Duration::from_secs(30) {
                    std::thread::sleep(Duration::from_millis(1));
                }
                if t < finished.len() && !finished[t].load(Ordering::SeqCst) {
                    notes.push(format!("CTL join:{t} timeout"));
                } else if let Some(h) = handles.get_mut(t).and_then(|h| h.take()) {
                    let _ = h.join();
                }
            }
            "joinall" => {
                KeyValueStore::verif_gate_release_all();
                // a thread that does not come back within the deadline is left behind (its operation
                // stays without a response in the history); the process exits at the end anyway
                let t0 = std::time::Instant::now();
                while finished.iter().any(|f| !f.load(Ordering::SeqCst)) && t0.elapsed() < Duration::from_secs(60) {
                    std::thread::sleep(Duration::from_millis(1));
                }
                for (t, h) in handles.iter_mut().enumerate() {
                    if finished[t].load(Ordering::SeqCst) {
                        if let Some(h) = h.take() {
                            let _ = h.join();
                        }
                    } else {
                        notes.push(format!("CTL joinall thread {t} did not finish"));
                    }
                }
            }
            "flush" => {
                // NOTE: a request made while the previous flush is finishing is forgotten by the store
                // (_memtable_thread overwrites imm_trigger with the older value when it clears imm), so
                // the request is repeated while the targeted memtable is still the current one.
                if !dead.load(Ordering::SeqCst) {
                    let target = kvs.verif_request_flush();
                    let t0 = std::time::Instant::now();
                    let mut last = std::time::Instant::now();
                    loop {
                        let st = kvs.verif_state();
                        if st.imm_trigger >= target && !st.has_imm && st.mem_seq_no > target {
                            break;
                        }
                        if dead.load(Ordering::SeqCst) || t0.elapsed() > Duration::from_secs(20) {
                            notes.push("CTL flush timeout".into());
                            break;
                        }
                        if st.mem_seq_no == target && st.imm_trigger < target && last.elapsed() > Duration::from_millis(20) {
                            kvs.verif_request_flush();
                            last = std::time::Instant::now();
                        }
                        std::thread::sleep(Duration::from_millis(1));
                    }
                }
            }
            "reqflush" => {
                kvs.verif_request_flush();
            }
            "sleep" => std::thread::sleep(Duration::from_millis(f[1].parse().unwrap())),
            "final" => {
                run_op(&kvs, ctl_idx, &Op::Scan2(None));
                ctl_idx += 1;
                let mut ks = vec![];
                for k in 0..nkeys {
                    ks.push(k);
                    ks.push(k);
                }
                ks.push(nkeys);
                run_op(&kvs, ctl_idx, &Op::MultiGet(ks));
                ctl_idx += 1;
                for k in 0..nkeys {
                    run_op(&kvs, ctl_idx, &Op::Get(k));
                    ctl_idx += 1;
                }
            }
            other => match parse_op(other) {
                Some(op) => {
                    run_op(&kvs, ctl_idx, &op);
                    ctl_idx += 1;
                }
                None => notes.push(format!("CTL badcmd {other}")),
            },
        }
    }
    let trace = verif::take();
    // the store's scalars, read with a deadline: a store whose mutex is held forever must not hang the harness
    {
        let k2 = Arc::clone(&kvs);
        let cell = Arc::new(Mutex::new(None));
        let c2 = Arc::clone(&cell);
        std::thread::spawn(move || {
            let st = k2.verif_state();
            *c2.lock().unwrap() = Some((st.seq_no, st.mem_seq_no, st.imm_trigger, st.has_imm as u8));
        });
        let t0 = std::time::Instant::now();
        while cell.lock().unwrap().is_none() && t0.elapsed() < Duration::from_secs(3) {
            std::thread::sleep(Duration::from_millis(1));
        }
        match *cell.lock().unwrap() {
            Some((a, b, c, d)) => writeln!(out, "FINAL {a} {b} {c} {d}").unwrap(),
            None => writeln!(out, "CTL final state unavailable: the store mutex is held (timeout)").unwrap(),
        }
    }
    for e in trace.iter() {
        writeln!(out, "EV {} {} {} {} {}", e.tid, e.what, e.a, e.b, e.c).unwrap();
    }
    for n in notes.iter() {
        writeln!(out, "{n}").unwrap();
    }
    writeln!(out, "END").unwrap();
    out.flush().unwrap();
    std::process::exit(0);
}
