//! C10 harness: builds real blocks / SSTs and runs cursor programs on them.
//!
//! One case per line:   HEAD | ENTRIES | PROG
//! HEAD:
//!   B bri kri                 BlockBuilder with bytes_restart_interval, key_value_pairs_restart_interval
//!   S bri kri tbs bits        SstBuilder; tbs = target_block_size (unclamped, via the option parser),
//!                             bits = bloom_filter_bits
//!   M bri kri tbs tfs mfs     SstMultiBuilder; tfs/mfs = target/minimum file size (unclamped)
//! ENTRIES (space separated):  KEYHEX@TS=VALHEX | KEYHEX@TS~ (tombstone) | H (split_hint, M only)
//!   a key or value may also be written  *LEN:BYTEHEX  (LEN copies of one byte) for oversize input
//! PROG tokens: F (seek_to_first) E (seek_to_last) S:HEX (seek) N (next) V (prev) G:HEX:TS (load)
//!
//! Output, space separated:
//!   rejI:CODE            the I-th entry was rejected by the builder (the builder is used further)
//!   seal:ok | seal:CODE
//!   B: bytes:HEX         the sealed block's bytes
//!   S: meta:FIRST:LAST:SMALLEST:BIGGEST:SETSUMHEX:FILESIZE  then f:FILEHEX (the whole file when it
//!      is at most 4096 bytes, else f:-)
//!   M: files:K then per file  meta:... and the entries enumerated forward  [ e e e ]
//!   then key_value() after every cursor call:  - | KEYHEX@TS=VALHEX | KEYHEX@TS~ ; a call returning
//!   Err prints ERR:CODE (the cursor is used further); G prints get:VALHEX | get:~ | get:- | ERR:CODE
//!   a panic prints the outputs so far and PANIC.
use hx::{hex, unhex};
use sst::block::{BlockBuilder, BlockBuilderOptions};
use sst::{Builder, Cursor, SError, Sst, SstBuilder, SstMultiBuilder, SstOptions};
use std::path::PathBuf;
use std::sync::Mutex;

type Entry = (Vec<u8>, u64, Option<Vec<u8>>);

fn bytes_e(s: &str) -> Vec<u8> {
    if s.is_empty() {
        vec![]
    } else if let Some(r) = s.strip_prefix('*') {
        let c = r.find(':').expect("*LEN:BYTE");
        let n: usize = r[..c].parse().expect("len");
        let b = unhex(&r[c + 1..]);
        vec![b[0]; n]
    } else {
        unhex(s)
    }
}

fn parse_entry(t: &str) -> Entry {
    let at = t.find('@').expect("entry @");
    let key = bytes_e(&t[..at]);
    let rest = &t[at + 1..];
    if let Some(ts) = rest.strip_suffix('~') {
        (key, ts.parse().expect("ts"), None)
    } else {
        let eq = rest.find('=').expect("entry =");
        (key, rest[..eq].parse().expect("ts"), Some(bytes_e(&rest[eq + 1..])))
    }
}

fn code(e: &SError) -> String {
    sst::error_code(e).unwrap_or("unknown").to_string()
}

fn show(c: &dyn Cursor) -> String {
    match (c.key(), c.value()) {
        (None, _) => "-".to_string(),
        (Some(k), Some(v)) => format!("{}@{}={}", hex(k.key), k.timestamp, hex(v)),
        (Some(k), None) => format!("{}@{}~", hex(k.key), k.timestamp),
    }
}

fn feed<B: Builder>(b: &mut B, i: usize, e: &Entry, out: &Mutex<Vec<String>>) {
    let r = match &e.2 {
        Some(v) => b.put(&e.0, e.1, v),
        None => b.del(&e.0, e.1),
    };
    if let Err(err) = r {
        out.lock().unwrap().push(format!("rej{}:{}", i, code(&err)));
    }
}

fn run_prog<C: Cursor>(
    cur: &mut C,
    prog: &[&str],
    load: &dyn Fn(&[u8], u64, &mut bool) -> Result<Option<Vec<u8>>, SError>,
    out: &Mutex<Vec<String>>,
) {
    for t in prog {
        let r = if *t == "F" {
            cur.seek_to_first()
        } else if *t == "E" {
            cur.seek_to_last()
        } else if *t == "N" {
            cur.next()
        } else if *t == "V" {
            cur.prev()
        } else if let Some(h) = t.strip_prefix("S:") {
            cur.seek(&bytes_e(h))
        } else if let Some(r) = t.strip_prefix("G:") {
            let c = r.find(':').expect("G:HEX:TS");
            let key = bytes_e(&r[..c]);
            let ts: u64 = r[c + 1..].parse().expect("ts");
            let mut tomb = false;
            let s = match load(&key, ts, &mut tomb) {
                Ok(Some(v)) => format!("get:{}", hex(&v)),
                Ok(None) => {
                    if tomb {
                        "get:~".to_string()
                    } else {
                        "get:-".to_string()
                    }
                }
                Err(e) => format!("ERR:{}", code(&e)),
            };
            out.lock().unwrap().push(s);
            continue;
        } else {
            panic!("bad prog token {}", t)
        };
        let s = match r {
            Ok(()) => show(cur),
            Err(e) => format!("ERR:{}", code(&e)),
        };
        out.lock().unwrap().push(s);
    }
}

fn sst_options(bri: &str, kri: &str, tbs: &str, bits: &str, tfs: Option<&str>, mfs: Option<&str>) -> SstOptions {
    use arrrg::CommandLine;
    let mut a: Vec<&str> = vec![
        "--block-bytes-restart-interval",
        bri,
        "--block-key-value-pairs-restart-interval",
        kri,
        "--target-block-size",
        tbs,
        "--bloom-filter-bits",
        bits,
    ];
    if let Some(x) = tfs {
        a.push("--target-file-size");
        a.push(x);
    }
    if let Some(x) = mfs {
        a.push("--minimum-file-size");
        a.push(x);
    }
    SstOptions::from_arguments_relaxed("c10", &a).0
}

fn meta_str(m: &sst::SstMetadata) -> String {
    format!(
        "meta:{}:{}:{}:{}:{}:{}",
        hex(&m.first_key),
        hex(&m.last_key),
        m.smallest_timestamp,
        m.biggest_timestamp,
        hex(&m.setsum),
        m.file_size
    )
}

fn run_case(line: &str, dir: &PathBuf, nfile: &mut usize, out: &Mutex<Vec<String>>) {
    let parts: Vec<&str> = line.split('|').collect();
    assert!(parts.len() == 3, "HEAD | ENTRIES | PROG");
    let head: Vec<&str> = parts[0].split_whitespace().collect();
    let ents: Vec<&str> = parts[1].split_whitespace().collect();
    let prog: Vec<&str> = parts[2].split_whitespace().collect();
    match head[0] {
        "B" => {
            let bri: u32 = head[1].parse().expect("bri");
            let kri: u32 = head[2].parse().expect("kri");
            let opts = BlockBuilderOptions::default()
                .bytes_restart_interval(bri)
                .key_value_pairs_restart_interval(kri);
            let mut b = BlockBuilder::new(opts);
            for (i, t) in ents.iter().enumerate() {
                feed(&mut b, i, &parse_entry(t), out);
            }
            let block = match b.seal() {
                Ok(x) => x,
                Err(e) => {
                    out.lock().unwrap().push(format!("seal:{}", code(&e)));
                    return;
                }
            };
            out.lock().unwrap().push("seal:ok".to_string());
            out.lock().unwrap().push(format!("bytes:{}", hex(block.as_bytes())));
            let mut cur = block.cursor();
            let b2 = block.clone();
            run_prog(&mut cur, &prog, &move |k, ts, tomb| b2.load(k, ts, tomb), out);
        }
        "S" => {
            let opts = sst_options(head[1], head[2], head[3], head[4], None, None);
            *nfile += 1;
            let path = dir.join(format!("{}.sst", nfile));
            let _ = std::fs::remove_file(&path);
            let mut b = match SstBuilder::new(opts, &path) {
                Ok(b) => b,
                Err(e) => {
                    out.lock().unwrap().push(format!("new:{}", code(&e)));
                    return;
                }
            };
            for (i, t) in ents.iter().enumerate() {
                feed(&mut b, i, &parse_entry(t), out);
            }
            let table = match b.seal() {
                Ok(x) => x,
                Err(e) => {
                    out.lock().unwrap().push(format!("seal:{}", code(&e)));
                    let _ = std::fs::remove_file(&path);
                    return;
                }
            };
            out.lock().unwrap().push("seal:ok".to_string());
            match table.metadata() {
                Ok(m) => {
                    // the length of the file actually written must be what metadata() reports
                    let flen = std::fs::metadata(&path).map(|x| x.len()).unwrap_or(u64::MAX);
                    if flen != m.file_size {
                        out.lock().unwrap().push(format!("FILELEN-MISMATCH:{}:{}", flen, m.file_size));
                    }
                    out.lock().unwrap().push(meta_str(&m))
                }
                Err(e) => out.lock().unwrap().push(format!("meta:ERR:{}", code(&e))),
            }
            // the bytes of the file (small files only): the check parses the frames and compares
            // the filter block with the model's
            let bytes = std::fs::read(&path).expect("read sst");
            if bytes.len() <= 4096 {
                out.lock().unwrap().push(format!("f:{}", hex(&bytes)));
            } else {
                out.lock().unwrap().push("f:-".to_string());
            }
            let mut cur = table.cursor();
            let t2 = table.clone();
            run_prog(&mut cur, &prog, &move |k, ts, tomb| t2.load(k, ts, tomb), out);
            let _ = std::fs::remove_file(&path);
        }
        "M" => {
            let opts = sst_options(head[1], head[2], head[3], "17", Some(head[4]), Some(head[5]));
            *nfile += 1;
            let sub = dir.join(format!("m{}", nfile));
            let _ = std::fs::remove_dir_all(&sub);
            std::fs::create_dir_all(&sub).expect("mkdir");
            let mut b = SstMultiBuilder::new(sub.clone(), ".sst".to_string(), opts.clone());
            let mut i = 0usize;
            for t in ents.iter() {
                if *t == "H" {
                    if let Err(e) = b.split_hint() {
                        out.lock().unwrap().push(format!("hint:{}", code(&e)));
                    }
                    continue;
                }
                feed(&mut b, i, &parse_entry(t), out);
                i += 1;
            }
            let paths = match b.seal() {
                Ok(x) => x,
                Err(e) => {
                    out.lock().unwrap().push(format!("seal:{}", code(&e)));
                    let _ = std::fs::remove_dir_all(&sub);
                    return;
                }
            };
            out.lock().unwrap().push("seal:ok".to_string());
            out.lock().unwrap().push(format!("files:{}", paths.len()));
            for p in paths.iter() {
                match Sst::<sst::file_manager::FileHandle>::new(opts.clone(), p) {
                    Ok(table) => {
                        match table.metadata() {
                            Ok(m) => {
                                let flen = std::fs::metadata(p).map(|x| x.len()).unwrap_or(u64::MAX);
                                if flen != m.file_size {
                                    out.lock().unwrap().push(format!("FILELEN-MISMATCH:{}:{}", flen, m.file_size));
                                }
                                out.lock().unwrap().push(meta_str(&m))
                            }
                            Err(e) => out.lock().unwrap().push(format!("meta:ERR:{}", code(&e))),
                        }
                        out.lock().unwrap().push("[".to_string());
                        let mut cur = table.cursor();
                        let mut guard = 0;
                        loop {
                            if let Err(e) = cur.next() {
                                out.lock().unwrap().push(format!("ERR:{}", code(&e)));
                                break;
                            }
                            if cur.key().is_none() {
                                break;
                            }
                            out.lock().unwrap().push(show(&cur));
                            guard += 1;
                            if guard > 1_000_000 {
                                out.lock().unwrap().push("RUNAWAY".to_string());
                                break;
                            }
                        }
                        out.lock().unwrap().push("]".to_string());
                    }
                    Err(e) => out.lock().unwrap().push(format!("open:{}", code(&e))),
                }
            }
            let _ = std::fs::remove_dir_all(&sub);
        }
        _ => panic!("bad head"),
    }
}

fn main() {
    hx::quiet_panics();
    use std::io::{BufRead, Write};
    let dir = PathBuf::from(format!("/dev/shm/c10-hx-{}", std::process::id()));
    std::fs::create_dir_all(&dir).expect("mkdir");
    let mut nfile = 0usize;
    let stdin = std::io::stdin();
    let stdout = std::io::stdout();
    let mut w = std::io::BufWriter::new(stdout.lock());
    for line in stdin.lock().lines() {
        let line = line.expect("stdin");
        if line.trim().is_empty() {
            writeln!(w).unwrap();
            continue;
        }
        let out = Mutex::new(Vec::<String>::new());
        let r = std::panic::catch_unwind(std::panic::AssertUnwindSafe(|| {
            run_case(&line, &dir, &mut nfile, &out);
        }));
        let mut o = out.into_inner().unwrap_or_else(|e| e.into_inner());
        if r.is_err() {
            o.push("PANIC".to_string());
        }
        writeln!(w, "{}", o.join(" ")).unwrap();
    }
    w.flush().unwrap();
    let _ = std::fs::remove_dir_all(&dir);
}
