//! C09 harness: real builders produce SSTs, logs and manifests; the real readers are run on
//! damaged copies of those files (or on arbitrary bytes).
//!
//! One command per stdin line, one output line per command.  Byte strings are kept in a registry
//! under small integer ids so that a damaged variant is described by a short patch.
//!
//!   def ID HEX                         register bytes
//!   mksst ID bri kri tbs bits | ENTRIES      real SstBuilder; ENTRIES: KEYHEX@TS=VALHEX | KEYHEX@TS~
//!   mklog ID | BATCH ; BATCH ; ...     real LogBuilder<File>; BATCH: entries as above (a WriteBatch each)
//!   mkmani ID | EDIT ; EDIT ; ...      real Manifest (apply per edit); EDIT tokens: +HEX -HEX iCODE:HEX
//!                                      the registered bytes are those of the MANIFEST file
//!   get ID                             -> f:HEX
//!   sst[v] ID PATCH | QUERIES          Sst::new on the patched bytes, metadata, forward walk, backward
//!                                      walk, load per query  KEYHEX:TS
//!   log[v] ID PATCH                    LogIterator drain, log_to_builder (SstBuilder), log_to_setsum
//!   logi ID PATCH                      LogIterator drain and log_to_setsum only
//!   mani[v] ID PATCH                   ManifestIterator collect, Manifest::open state
//!   blk[v] ID PATCH | QUERIES          Block::new on the patched bytes, forward / backward walk, Block::load
//!
//! PATCH: `-` or comma separated  oOFF:BYTE (overwrite, decimal)  fOFF:BIT (flip)  tN (truncate to N)
//!        xHEX (append).  Applied left to right.
//! The `v` variants print every entry; the plain ones print  N:DIGEST  (FNV-1a 64 chained over the
//! canonical entry strings, each followed by '\n'), which is what the sweeps compare.
//! Every command also prints  ma=<largest single allocation request in bytes during the command>.
//! A panic prints what was produced so far and PANIC.  An allocation request above 2^34 bytes is
//! refused by the allocator wrapper after writing `ALLOC-HUGE <n>` to stderr (the process then
//! aborts; the check restarts the harness and records the case).
use hx::{hex, unhex};
use std::alloc::{GlobalAlloc, Layout, System};
use std::collections::HashMap;
use std::path::{Path, PathBuf};
use std::sync::Mutex;
use std::sync::atomic::{AtomicUsize, Ordering};

use arrrg::CommandLine;
use mani::{Edit, Manifest, ManifestIterator, ManifestOptions};
use sst::block::Block;
use sst::log::{LogBuilder, LogIterator, LogOptions, WriteBatch};
use sst::{Builder, Cursor, Sst, SstBuilder, SstOptions};

// ------------------------------------------------------------------ allocation bookkeeping
static MAXREQ: AtomicUsize = AtomicUsize::new(0);
const HUGE: usize = 1usize << 34;

struct Counting;

fn note(size: usize) -> bool {
    MAXREQ.fetch_max(size, Ordering::Relaxed);
    if size > HUGE {
        let msg = format_small(size);
        unsafe {
            libc_write(2, msg.as_ptr(), msg.len());
        }
        return false;
    }
    true
}

// no allocation allowed in here
fn format_small(n: usize) -> [u8; 40] {
    let mut out = [b' '; 40];
    let head = b"ALLOC-HUGE ";
    out[..head.len()].copy_from_slice(head);
    let mut digits = [0u8; 24];
    let mut k = 0;
    let mut x = n;
    if x == 0 {
        digits[0] = b'0';
        k = 1;
    }
    while x > 0 {
        digits[k] = b'0' + (x % 10) as u8;
        x /= 10;
        k += 1;
    }
    for i in 0..k {
        out[head.len() + i] = digits[k - 1 - i];
    }
    out[39] = b'\n';
    out
}

unsafe extern "C" {
    #[link_name = "write"]
    fn libc_write(fd: i32, buf: *const u8, count: usize) -> isize;
}

unsafe impl GlobalAlloc for Counting {
    unsafe fn alloc(&self, l: Layout) -> *mut u8 {
        if !note(l.size()) {
            return std::ptr::null_mut();
        }
        unsafe { System.alloc(l) }
    }
    unsafe fn alloc_zeroed(&self, l: Layout) -> *mut u8 {
        if !note(l.size()) {
            return std::ptr::null_mut();
        }
        unsafe { System.alloc_zeroed(l) }
    }
    unsafe fn realloc(&self, p: *mut u8, l: Layout, new_size: usize) -> *mut u8 {
        if !note(new_size) {
            return std::ptr::null_mut();
        }
        unsafe { System.realloc(p, l, new_size) }
    }
    unsafe fn dealloc(&self, p: *mut u8, l: Layout) {
        unsafe { System.dealloc(p, l) }
    }
}

#[global_allocator]
static GLOBAL: Counting = Counting;

// ------------------------------------------------------------------ helpers
type Entry = (Vec<u8>, u64, Option<Vec<u8>>);

fn parse_entry(t: &str) -> Entry {
    let at = t.find('@').expect("entry @");
    let key = unhex(if at == 0 { "-" } else { &t[..at] });
    let rest = &t[at + 1..];
    if let Some(ts) = rest.strip_suffix('~') {
        (key, ts.parse().expect("ts"), None)
    } else {
        let eq = rest.find('=').expect("entry =");
        let v = &rest[eq + 1..];
        (key, rest[..eq].parse().expect("ts"), Some(unhex(if v.is_empty() { "-" } else { v })))
    }
}

fn show_entry(k: &[u8], ts: u64, v: Option<&[u8]>) -> String {
    match v {
        Some(v) => format!("{}@{}={}", hex(k), ts, hex(v)),
        None => format!("{}@{}~", hex(k), ts),
    }
}

const FNV_INIT: u64 = 0xcbf29ce484222325;
fn fnv(mut h: u64, b: &[u8]) -> u64 {
    for x in b {
        h = (h ^ (*x as u64)).wrapping_mul(0x100000001b3);
    }
    h
}

/// a list of canonical strings, printed in full (verbose) or as count:digest
struct Acc {
    verbose: bool,
    n: usize,
    h: u64,
    items: Vec<String>,
}
impl Acc {
    fn new(verbose: bool) -> Self {
        Acc { verbose, n: 0, h: FNV_INIT, items: vec![] }
    }
    fn push(&mut self, s: String) {
        self.n += 1;
        self.h = fnv(fnv(self.h, s.as_bytes()), b"\n");
        if self.verbose {
            self.items.push(s);
        }
    }
    /// the same as push(show_entry(..)) without building the string when only the digest is kept
    fn push_entry(&mut self, k: &[u8], ts: u64, v: Option<&[u8]>) {
        if self.verbose {
            self.push(show_entry(k, ts, v));
            return;
        }
        const HEX: &[u8; 16] = b"0123456789abcdef";
        let mut h = self.h;
        let mut hexb = |h: &mut u64, b: &[u8]| {
            for x in b {
                *h = (*h ^ (HEX[(x >> 4) as usize] as u64)).wrapping_mul(0x100000001b3);
                *h = (*h ^ (HEX[(x & 15) as usize] as u64)).wrapping_mul(0x100000001b3);
            }
        };
        hexb(&mut h, k);
        h = fnv(h, b"@");
        h = fnv(h, ts.to_string().as_bytes());
        match v {
            Some(v) => {
                h = fnv(h, b"=");
                hexb(&mut h, v);
            }
            None => h = fnv(h, b"~"),
        }
        h = fnv(h, b"\n");
        self.h = h;
        self.n += 1;
    }
    fn show(&self) -> String {
        if self.verbose {
            format!("{}:{:016x}[{}]", self.n, self.h, self.items.join(","))
        } else {
            format!("{}:{:016x}", self.n, self.h)
        }
    }
}

fn sst_code(e: &sst::SError) -> String {
    sst::error_code(e).unwrap_or("unknown").to_string()
}

fn mani_code(e: &handled::SError) -> String {
    mani::error_code(e).unwrap_or("unknown").to_string()
}

fn apply_patch(base: &[u8], patch: &str) -> Vec<u8> {
    let mut d = base.to_vec();
    if patch == "-" || patch.is_empty() {
        return d;
    }
    for p in patch.split(',') {
        let (k, r) = p.split_at(1);
        match k {
            "o" => {
                let (a, b) = r.split_once(':').expect("oOFF:BYTE");
                let off: usize = a.parse().unwrap();
                let v: u8 = b.parse().unwrap();
                if off < d.len() {
                    d[off] = v;
                }
            }
            "f" => {
                let (a, b) = r.split_once(':').expect("fOFF:BIT");
                let off: usize = a.parse().unwrap();
                let bit: u32 = b.parse().unwrap();
                if off < d.len() {
                    d[off] ^= 1u8 << bit;
                }
            }
            "t" => {
                let n: usize = r.parse().unwrap();
                d.truncate(n);
            }
            "x" => d.extend_from_slice(&unhex(r)),
            _ => panic!("bad patch {p}"),
        }
    }
    d
}

fn sst_options(bri: &str, kri: &str, tbs: &str, bits: &str) -> SstOptions {
    let a: Vec<&str> = vec![
        "--block-bytes-restart-interval",
        bri,
        "--block-key-value-pairs-restart-interval",
        kri,
        "--target-block-size",
        tbs,
        "--bloom-filter-bits",
        bits,
    ];
    SstOptions::from_arguments_relaxed("c09", &a).0
}

struct St {
    dir: PathBuf,
    reg: HashMap<String, Vec<u8>>,
    serial: u64,
}

fn walk<C: Cursor>(cur: &mut C, forward: bool, verbose: bool) -> String {
    let mut acc = Acc::new(verbose);
    let start = if forward { cur.seek_to_first() } else { cur.seek_to_last() };
    if let Err(e) = start {
        return format!("{}!{}", acc.show(), sst_code(&e));
    }
    let mut guard = 0usize;
    loop {
        let r = if forward { cur.next() } else { cur.prev() };
        if let Err(e) = r {
            return format!("{}!{}", acc.show(), sst_code(&e));
        }
        match cur.key() {
            None => return format!("{}!end", acc.show()),
            Some(k) => acc.push_entry(k.key, k.timestamp, cur.value()),
        }
        guard += 1;
        if guard > 50_000_000 {
            return format!("{}!RUNAWAY", acc.show());
        }
    }
}

fn get_str(r: Result<Option<Vec<u8>>, sst::SError>, tomb: bool) -> String {
    match r {
        Ok(Some(v)) => format!("={}", hex(&v)),
        Ok(None) => {
            if tomb {
                "~".to_string()
            } else {
                "-".to_string()
            }
        }
        Err(e) => format!("!{}", sst_code(&e)),
    }
}

fn parse_queries(q: &str) -> Vec<(Vec<u8>, u64)> {
    q.split_whitespace()
        .map(|t| {
            let (k, ts) = t.split_once(':').expect("KEY:TS");
            (unhex(if k.is_empty() { "-" } else { k }), ts.parse().expect("ts"))
        })
        .collect()
}

fn run(st: &mut St, line: &str, out: &Mutex<Vec<String>>) {
    let push = |s: String| out.lock().unwrap().push(s);
    let (head, tail) = match line.split_once('|') {
        Some((a, b)) => (a.trim(), b.trim()),
        None => (line.trim(), ""),
    };
    let h: Vec<&str> = head.split_whitespace().collect();
    let cmd = h[0];
    let verbose = cmd.ends_with('v') && cmd != "logi";
    st.serial += 1;
    match cmd {
        "def" => {
            st.reg.insert(h[1].to_string(), unhex(if h.len() > 2 { h[2] } else { "-" }));
            push("ok".to_string());
        }
        "get" => {
            push(format!("f:{}", hex(&st.reg[h[1]])));
        }
        "mksst" => {
            let opts = sst_options(h[2], h[3], h[4], h[5]);
            let path = st.dir.join(format!("mk{}.sst", st.serial));
            let _ = std::fs::remove_file(&path);
            let mut b = SstBuilder::new(opts, &path).expect("SstBuilder::new");
            for (i, t) in tail.split_whitespace().enumerate() {
                let e = parse_entry(t);
                let r = match &e.2 {
                    Some(v) => b.put(&e.0, e.1, v),
                    None => b.del(&e.0, e.1),
                };
                if let Err(err) = r {
                    push(format!("rej{}:{}", i, sst_code(&err)));
                }
            }
            match b.seal() {
                Ok(_) => {
                    let bytes = std::fs::read(&path).expect("read");
                    push(format!("ok f:{}", hex(&bytes)));
                    st.reg.insert(h[1].to_string(), bytes);
                }
                Err(e) => push(format!("seal:{}", sst_code(&e))),
            }
            let _ = std::fs::remove_file(&path);
        }
        "mklog" => {
            let path = st.dir.join(format!("mk{}.log", st.serial));
            let _ = std::fs::remove_file(&path);
            let (lo, _) = LogOptions::from_arguments_relaxed("c09", &[]);
            let mut b = LogBuilder::new(lo, &path).expect("LogBuilder::new");
            let mut res = vec![];
            for bs in tail.split(';') {
                let bs = bs.trim();
                if bs.is_empty() {
                    continue;
                }
                let mut wb = WriteBatch::default();
                for t in bs.split_whitespace() {
                    // `zN` = a put of an N-byte value of zeros under the empty key (filler)
                    let e = if let Some(n) = t.strip_prefix('z') {
                        (vec![], 1u64, Some(vec![0u8; n.parse().unwrap()]))
                    } else {
                        parse_entry(t)
                    };
                    let r = match &e.2 {
                        Some(v) => wb.put(&e.0, e.1, v),
                        None => wb.del(&e.0, e.1),
                    };
                    if let Err(err) = r {
                        res.push(format!("rej:{}", sst_code(&err)));
                    }
                }
                match b.append(&wb) {
                    Ok(()) => res.push(format!("a:{}", b.approximate_size())),
                    Err(e) => res.push(format!("a!{}", sst_code(&e))),
                }
            }
            b.seal().expect("seal log");
            let bytes = std::fs::read(&path).expect("read");
            let _ = std::fs::remove_file(&path);
            push(format!("ok {} len={}", res.join(" "), bytes.len()));
            if bytes.len() <= 65536 {
                push(format!("f:{}", hex(&bytes)));
            }
            st.reg.insert(h[1].to_string(), bytes);
        }
        "mkmani" => {
            let d = st.dir.join(format!("mk{}.mani", st.serial));
            let _ = std::fs::remove_dir_all(&d);
            let (mo, _) = ManifestOptions::from_arguments_relaxed("c09", &["--log-rollover-ratio", "1000000"]);
            {
                let mut m = Manifest::open(mo, &d).expect("Manifest::open");
                for es in tail.split(';') {
                    let es = es.trim();
                    if es.is_empty() {
                        continue;
                    }
                    let mut edit = Edit::default();
                    for t in es.split_whitespace() {
                        let r = if let Some(x) = t.strip_prefix('+') {
                            edit.add(&String::from_utf8(unhex(x)).expect("utf8"))
                        } else if let Some(x) = t.strip_prefix('-') {
                            edit.rm(&String::from_utf8(unhex(x)).expect("utf8"))
                        } else if let Some(x) = t.strip_prefix('i') {
                            let (c, v) = x.split_once(':').expect("iCODE:HEX");
                            let c = char::from_u32(c.parse().unwrap()).expect("char");
                            edit.info(c, &String::from_utf8(unhex(if v.is_empty() { "-" } else { v })).expect("utf8"))
                        } else {
                            panic!("bad edit token {t}")
                        };
                        if let Err(e) = r {
                            push(format!("rej:{}", mani_code(&e)));
                        }
                    }
                    if let Err(e) = m.apply(edit) {
                        push(format!("apply!{}", mani_code(&e)));
                    }
                }
            }
            let bytes = std::fs::read(mani::MANIFEST(&d)).expect("read MANIFEST");
            let _ = std::fs::remove_dir_all(&d);
            push(format!("ok f:{}", hex(&bytes)));
            st.reg.insert(h[1].to_string(), bytes);
        }
        "sst" | "sstv" => {
            let bytes = apply_patch(&st.reg[h[1]], h[2]);
            let path = st.dir.join("cur.sst");
            std::fs::write(&path, &bytes).expect("write");
            MAXREQ.store(0, Ordering::Relaxed);
            let t = match Sst::<sst::file_manager::FileHandle>::new(SstOptions::default(), &path) {
                Ok(t) => t,
                Err(e) => {
                    push(format!("open!{}", sst_code(&e)));
                    return;
                }
            };
            push("open:ok".to_string());
            match t.metadata() {
                Ok(m) => push(format!(
                    "meta:{}:{}:{}:{}:{}:{}",
                    hex(&m.first_key),
                    hex(&m.last_key),
                    m.smallest_timestamp,
                    m.biggest_timestamp,
                    hex(&m.setsum),
                    m.file_size
                )),
                Err(e) => push(format!("meta!{}", sst_code(&e))),
            }
            let mut cur = t.cursor();
            push(format!("fw:{}", walk(&mut cur, true, verbose)));
            let mut cur = t.cursor();
            push(format!("bw:{}", walk(&mut cur, false, verbose)));
            for (k, ts) in parse_queries(tail) {
                let mut tomb = false;
                let r = t.load(&k, ts, &mut tomb);
                push(format!("g{}", get_str(r, tomb)));
            }
        }
        "blk" | "blkv" => {
            let bytes = apply_patch(&st.reg[h[1]], h[2]);
            MAXREQ.store(0, Ordering::Relaxed);
            let b = match Block::new(bytes) {
                Ok(b) => b,
                Err(e) => {
                    push(format!("new!{}", sst_code(&e)));
                    return;
                }
            };
            push("new:ok".to_string());
            let mut cur = b.cursor();
            push(format!("fw:{}", walk(&mut cur, true, verbose)));
            let mut cur = b.cursor();
            push(format!("bw:{}", walk(&mut cur, false, verbose)));
            for (k, ts) in parse_queries(tail) {
                let mut tomb = false;
                let r = b.load(&k, ts, &mut tomb);
                push(format!("g{}", get_str(r, tomb)));
            }
        }
        "log" | "logv" | "logi" => {
            let bytes = apply_patch(&st.reg[h[1]], h[2]);
            let path = st.dir.join("cur.log");
            std::fs::write(&path, &bytes).expect("write");
            MAXREQ.store(0, Ordering::Relaxed);
            let (lo, _) = LogOptions::from_arguments_relaxed("c09", &[]);
            let mut acc = Acc::new(verbose);
            match LogIterator::new(lo.clone(), &path) {
                Ok(mut it) => loop {
                    match it.next() {
                        Ok(Some(kvr)) => acc.push_entry(kvr.key, kvr.timestamp, kvr.value),
                        Ok(None) => {
                            push(format!("it:{}!end", acc.show()));
                            break;
                        }
                        Err(e) => {
                            push(format!("it:{}!{}", acc.show(), sst_code(&e)));
                            break;
                        }
                    }
                },
                Err(e) => push(format!("it:open!{}", sst_code(&e))),
            }
            // a damaged size field makes the reader allocate and zero up to TABLE_FULL_SIZE bytes; the
            // two consumers below run the same LogIterator, so they are skipped after such a drain
            if MAXREQ.load(Ordering::Relaxed) > (64usize << 20) {
                push("ltb:skipped lts:skipped".to_string());
                return;
            }
            if cmd == "logi" {
                // iterator and setsum only (for the 1 MiB logs)
                match sst::log::log_to_setsum(lo, &path) {
                    Ok(s) => push(format!("lts:{}", s.hexdigest())),
                    Err(e) => push(format!("lts!{}", sst_code(&e))),
                }
                return;
            }
            // log_to_builder into a real SstBuilder, then the table is walked
            let sp = st.dir.join("ltb.sst");
            let _ = std::fs::remove_file(&sp);
            let sb = SstBuilder::new(SstOptions::default(), &sp).expect("SstBuilder::new");
            match sst::log::log_to_builder(lo.clone(), &path, sb) {
                Ok(Some(t)) => {
                    let mut cur = t.cursor();
                    push(format!("ltb:{}", walk(&mut cur, true, verbose)));
                }
                Ok(None) => push("ltb:none".to_string()),
                Err(e) => push(format!("ltb!{}", sst_code(&e))),
            }
            let _ = std::fs::remove_file(&sp);
            match sst::log::log_to_setsum(lo, &path) {
                Ok(s) => push(format!("lts:{}", s.hexdigest())),
                Err(e) => push(format!("lts!{}", sst_code(&e))),
            }
        }
        "mani" | "maniv" => {
            let bytes = apply_patch(&st.reg[h[1]], h[2]);
            let d = st.dir.join("cur.mani");
            let _ = std::fs::remove_dir_all(&d);
            std::fs::create_dir_all(&d).expect("mkdir");
            let p = mani::MANIFEST(&d);
            std::fs::write(&p, &bytes).expect("write");
            MAXREQ.store(0, Ordering::Relaxed);
            let keys: Vec<char> = (0u32..128).filter_map(char::from_u32).collect();
            let nlines = bytes.iter().filter(|b| **b == b'\n').count() + 2;
            let mut acc = Acc::new(verbose);
            let mut end = "end".to_string();
            match ManifestIterator::open(&p) {
                Ok(it) => {
                    for item in it.take(nlines + 1) {
                        match item {
                            Ok(e) => {
                                let adds: Vec<String> = e.added().map(|s| hex(s.as_bytes())).collect();
                                let rms: Vec<String> = e.rmed().map(|s| hex(s.as_bytes())).collect();
                                let mut infos = vec![];
                                for c in keys.iter() {
                                    if let Some(v) = e.get_info(*c) {
                                        infos.push(format!("{}:{}", *c as u32, hex(v.as_bytes())));
                                    }
                                }
                                acc.push(format!("{{{}/{}/{}}}", adds.join(";"), rms.join(";"), infos.join(";")));
                            }
                            Err(e) => {
                                // the iterator API: an error item; a consumer using `?` stops here
                                end = mani_code(&e);
                                break;
                            }
                        }
                    }
                }
                Err(e) => end = format!("open!{}", mani_code(&e)),
            }
            push(format!("it:{}!{}", acc.show(), end));
            let (mo, _) = ManifestOptions::from_arguments_relaxed("c09", &["--log-rollover-ratio", "1000000"]);
            match Manifest::open(mo, &d) {
                Ok(m) => {
                    let strs: Vec<String> = m.strs().map(|s| hex(s.as_bytes())).collect();
                    let mut infos = vec![];
                    for c in keys.iter() {
                        if let Some(v) = m.info(*c) {
                            infos.push(format!("{}:{}", *c as u32, hex(v.as_bytes())));
                        }
                    }
                    let s = format!("{{{}/{}}}", strs.join(";"), infos.join(";"));
                    if verbose {
                        push(format!("op:{}", s));
                    } else {
                        push(format!("op:{:016x}", fnv(FNV_INIT, s.as_bytes())));
                    }
                }
                Err(e) => push(format!("op!{}", mani_code(&e))),
            }
            let _ = std::fs::remove_dir_all(&d);
        }
        _ => panic!("bad command {cmd}"),
    }
}

fn main() {
    hx::quiet_panics();
    use std::io::{BufRead, Write};
    let dir = Path::new("/dev/shm").join(format!("c09-hx-{}", std::process::id()));
    std::fs::create_dir_all(&dir).expect("mkdir");
    let mut st = St { dir: dir.clone(), reg: HashMap::new(), serial: 0 };
    let stdin = std::io::stdin();
    let stdout = std::io::stdout();
    let mut w = std::io::BufWriter::new(stdout.lock());
    for line in stdin.lock().lines() {
        let line = line.expect("stdin");
        if line.trim().is_empty() {
            writeln!(w).unwrap();
            continue;
        }
        let out = Mutex::new(Vec::<String>::new());
        MAXREQ.store(0, Ordering::Relaxed);
        let r = std::panic::catch_unwind(std::panic::AssertUnwindSafe(|| {
            run(&mut st, &line, &out);
        }));
        let ma = MAXREQ.load(Ordering::Relaxed);
        let mut o = out.into_inner().unwrap_or_else(|e| e.into_inner());
        if r.is_err() {
            o.push("PANIC".to_string());
        }
        o.push(format!("ma={}", ma));
        writeln!(w, "{}", o.join(" ")).unwrap();
        // one line per command must reach the reader even if the next command kills the process
        w.flush().unwrap();
    }
    w.flush().unwrap();
    let _ = std::fs::remove_dir_all(&dir);
}
