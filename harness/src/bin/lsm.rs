//! lsm: drives one *session* of a real lsmtk::KeyValueStore from a script on stdin and prints what
//! it observes, one line per op.  A session is open .. exit (there is no clean close: the store's
//! threads never return, so `reopen` in a history is process exit + a new session on the same dir).
//!
//! usage: lsm <dir> [lsmtk option flags...]
//! ops (one per line, keys/values hex, `-` = empty):
//!   put K V | del K | batch K=V,K=~,...   (~ = delete) | get K | getall K,K,...
//!   scan LO HI PROG     bounds: U | I<hex> | E<hex> ; PROG: comma list of F L N P S<hex>
//!   flush | compact | select | perform IDX | peek | state | dump | ls | mani | verify | sleep MS
//! The memtable thread is the real one (flush = verif_request_flush + verif_wait_flush);
//! compaction is single-stepped through LsmTree::verif_compaction_step.
use std::collections::HashSet;
use std::io::{BufRead, Write};
use std::ops::Bound;
use std::sync::Arc;

use arrrg::CommandLine;
use hx::{hex, unhex};
use lsmtk::{KeyValueStore, LsmtkOptions, WriteBatch};
use sst::Cursor;

fn hx0(b: &[u8]) -> String {
    if b.is_empty() { "-".to_string() } else { hex(b) }
}

fn err_class(e: &lsmtk::SError) -> String {
    let s = e.to_string();
    // canonical: the error code if present, else a short prefix
    match lsmtk::error_code(e) {
        Some(c) => c.to_string(),
        None => {
            let t: String = s.chars().filter(|c| !c.is_whitespace()).take(60).collect();
            // codes of other crates appear as (code xyz)
            if let Some(i) = s.find("(code ") {
                let rest = &s[i + 6..];
                let end = rest.find(')').unwrap_or(rest.len());
                rest[..end].trim().trim_matches('"').to_string()
            } else {
                t
            }
        }
    }
}

fn bound(s: &str) -> Bound<Vec<u8>> {
    match s.as_bytes()[0] {
        b'U' => Bound::Unbounded,
        b'I' => Bound::Included(unhex(&s[1..])),
        b'E' => Bound::Excluded(unhex(&s[1..])),
        _ => panic!("bad bound"),
    }
}

fn print_files(out: &mut impl Write, root: &str, kvs: &KeyValueStore, seen: &mut HashSet<String>) {
    let dump = kvs.verif_tree().verif_dump();
    for (_, md) in dump.iter() {
        let name = hex(&md.setsum);
        if seen.insert(name.clone()) {
            let path = format!("{root}/sst/{name}.sst");
            let mut line = format!("FILE {name}");
            match sst::Sst::<sst::file_manager::FileHandle>::new(sst::SstOptions::default(), &path) {
                Ok(sst) => {
                    let mut c = sst.cursor();
                    let mut ok = c.seek_to_first().is_ok();
                    while ok {
                        if c.next().is_err() {
                            line.push_str(" ERR");
                            break;
                        }
                        match c.key_value() {
                            Some(kv) => {
                                line.push_str(&format!(
                                    " {}:{}:{}",
                                    hx0(kv.key),
                                    kv.timestamp,
                                    match kv.value { Some(v) => hx0(v), None => "~".to_string() }
                                ));
                            }
                            None => { ok = false; }
                        }
                    }
                }
                Err(e) => line.push_str(&format!(" OPENERR:{}", err_class(&e))),
            }
            writeln!(out, "{line}").unwrap();
        }
    }
    let mut line = "DUMP".to_string();
    for (lvl, md) in dump.iter() {
        line.push_str(&format!(
            " {}:{}:{}:{}:{}:{}:{}",
            lvl, hex(&md.setsum), hx0(&md.first_key), hx0(&md.last_key),
            md.smallest_timestamp, md.biggest_timestamp, md.file_size
        ));
    }
    writeln!(out, "{line}").unwrap();
}

fn ls(root: &str) -> String {
    let mut parts = vec![];
    for sub in ["sst", "trash", "tmp", "compaction", "ingest", ""] {
        let mut names: Vec<String> = match std::fs::read_dir(format!("{root}/{sub}")) {
            Ok(rd) => rd.filter_map(|e| e.ok()).filter(|e| sub != "" || e.file_name().to_string_lossy().starts_with("log."))
                .map(|e| e.file_name().to_string_lossy().to_string()).collect(),
            Err(_) => vec!["?".to_string()],
        };
        names.sort();
        parts.push(format!("{}={}", if sub == "" { "root" } else { sub }, names.join(",")));
    }
    parts.join(" ")
}

fn main() {
    let args: Vec<String> = std::env::args().collect();
    let root = args[1].clone();
    let mut a: Vec<&str> = vec!["--path", &root];
    for e in args[2..].iter() {
        a.push(e);
    }
    let stdout = std::io::stdout();
    let mut out = std::io::BufWriter::new(stdout.lock());
    hx::quiet_panics();
    let o = LsmtkOptions::from_arguments_relaxed("lsm", &a).0;
    let opened = std::panic::catch_unwind(|| KeyValueStore::open(o));
    let kvs = match opened {
        Ok(Ok(k)) => Arc::new(k),
        Ok(Err(e)) => {
            writeln!(out, "OPEN err {}", err_class(&e)).unwrap();
            out.flush().unwrap();
            std::process::exit(0);
        }
        Err(_) => {
            writeln!(out, "OPEN PANIC").unwrap();
            out.flush().unwrap();
            std::process::exit(0);
        }
    };
    writeln!(out, "OPEN ok").unwrap();
    out.flush().unwrap();
    {
        let k2 = Arc::clone(&kvs);
        std::thread::spawn(move || {
            let r = std::panic::catch_unwind(std::panic::AssertUnwindSafe(|| k2.memtable_thread()));
            let msg = match r {
                Ok(Ok(())) => "ok".to_string(),
                Ok(Err(e)) => format!("err {}", err_class(&e)),
                Err(_) => "PANIC".to_string(),
            };
            println!("THREAD memtable {msg}");
        });
    }
    let mut seen = HashSet::new();
    // compactions selected (left in the ongoing list) and not yet performed
    let pending: std::sync::Mutex<Vec<Option<lsmtk::VerifPending>>> = std::sync::Mutex::new(vec![]);
    let stdin = std::io::stdin();
    for line in stdin.lock().lines() {
        let line = line.unwrap();
        let t: Vec<&str> = line.split_whitespace().collect();
        if t.is_empty() {
            continue;
        }
        let kvs2 = Arc::clone(&kvs);
        let r = std::panic::catch_unwind(std::panic::AssertUnwindSafe(|| -> String {
            let kvs = &kvs2;
            match t[0] {
                "put" => match kvs.put(&unhex(t[1]), &unhex(t[2])) { Ok(()) => "PUT ok".into(), Err(e) => format!("PUT err {}", err_class(&e)) },
                "del" => match kvs.del(&unhex(t[1])) { Ok(()) => "DEL ok".into(), Err(e) => format!("DEL err {}", err_class(&e)) },
                "batch" => {
                    let mut wb = WriteBatch::default();
                    for kv in t[1].split(',') {
                        let (k, v) = kv.split_once('=').unwrap();
                        if v == "~" { wb.del(&unhex(k)); } else { wb.put(&unhex(k), &unhex(v)); }
                    }
                    match kvs.write(wb) { Ok(()) => "BATCH ok".into(), Err(e) => format!("BATCH err {}", err_class(&e)) }
                }
                "get" | "getall" => {
                    let mut s = "GET".to_string();
                    for k in t[1].split(',') {
                        let mut tomb = false;
                        match kvs.load(&unhex(k), &mut tomb) {
                            Ok(Some(v)) => s.push_str(&format!(" {}", hx0(&v))),
                            Ok(None) => s.push_str(if tomb { " ~" } else { " ." }),
                            Err(e) => s.push_str(&format!(" err:{}", err_class(&e))),
                        }
                    }
                    s
                }
                "scan" => {
                    let lo = bound(t[1]);
                    let hi = bound(t[2]);
                    let mut s = "SCAN".to_string();
                    match kvs.range_scan(&lo, &hi) {
                        Err(e) => format!("SCAN err {}", err_class(&e)),
                        Ok(mut c) => {
                            for step in t[3].split(',') {
                                let r = match step.as_bytes()[0] {
                                    b'F' => c.seek_to_first(),
                                    b'L' => c.seek_to_last(),
                                    b'N' => c.next(),
                                    b'P' => c.prev(),
                                    b'S' => c.seek(&unhex(&step[1..])),
                                    _ => panic!("bad step"),
                                };
                                match r {
                                    Err(e) => { s.push_str(&format!(" err:{}", err_class(&e))); break; }
                                    Ok(()) => match c.key_value() {
                                        Some(kv) => s.push_str(&format!(" {}={}", hx0(kv.key), match kv.value { Some(v) => hx0(v), None => "~".to_string() })),
                                        None => s.push_str(" ."),
                                    },
                                }
                            }
                            s
                        }
                    }
                }
                "flush" => {
                    let target = kvs.verif_request_flush();
                    kvs.verif_wait_flush(target);
                    format!("FLUSH {target}")
                }
                "compact" => match kvs.verif_tree().verif_compaction_step() {
                    Ok(None) => "COMPACT none".into(),
                    Ok(Some(c)) => format!("COMPACT {} {} {} {} {} {}", c.lower_level, c.upper_level, hx0(&c.first_key), hx0(&c.last_key), c.size, c.inputs.join(",")),
                    Err(e) => format!("COMPACT err {}", err_class(&e)),
                },
                "select" => match kvs.verif_tree().verif_compaction_select() {
                    None => "SELECT none".into(),
                    Some((c, p)) => {
                        let mut pend = pending.lock().unwrap();
                        pend.push(Some(p));
                        format!("SELECT {} {} {} {} {} {} {}", pend.len() - 1, c.lower_level, c.upper_level, hx0(&c.first_key), hx0(&c.last_key), c.size, c.inputs.join(","))
                    }
                },
                "perform" => {
                    let idx: usize = t[1].parse().unwrap();
                    let p = pending.lock().unwrap().get_mut(idx).and_then(|x| x.take());
                    match p {
                        None => "PERFORM err no-such-pending".into(),
                        Some(p) => match kvs.verif_tree().verif_compaction_perform(p) {
                            Ok(()) => "PERFORM ok".into(),
                            Err(e) => format!("PERFORM err {}", err_class(&e)),
                        },
                    }
                }
                "peek" => match kvs.verif_tree().verif_peek_compaction() {
                    None => "PEEK none".into(),
                    Some(c) => format!("PEEK {} {} {} {} {} {}", c.lower_level, c.upper_level, hx0(&c.first_key), hx0(&c.last_key), c.size, c.inputs.join(",")),
                },
                "state" => {
                    let st = kvs.verif_state();
                    format!("STATE {} {} {} {} {} stall={} mandatory={} ongoing={}", st.seq_no, st.mem_seq_no, st.imm_trigger, st.has_imm as u8, st.mem_size,
                        kvs.verif_tree().verif_should_stall() as u8, kvs.verif_tree().verif_should_mandatory() as u8, kvs.verif_tree().verif_ongoing())
                }
                "dump" => "DUMPREQ".into(),
                "versions" => {
                    // every entry (key, ts, value-or-tombstone) stored in an sst of the current version must be
                    // what a point read of key AT ts through that version returns: "reachable through the tree"
                    // for readers at earlier timestamps, not only for the newest version of each key
                    let snap = kvs.verif_tree().verif_snapshot();
                    let mut n = 0usize;
                    let mut bad = String::new();
                    for name in snap.verif_setsums() {
                        let path = format!("{root}/sst/{name}.sst");
                        let Ok(sst) = sst::Sst::<sst::file_manager::FileHandle>::new(sst::SstOptions::default(), &path) else {
                            bad = format!(" openerr:{name}");
                            break;
                        };
                        let mut c = sst.cursor();
                        if c.seek_to_first().is_err() {
                            bad = format!(" cursorerr:{name}");
                            break;
                        }
                        loop {
                            if c.next().is_err() {
                                bad = format!(" cursorerr:{name}");
                                break;
                            }
                            let Some(kv) = c.key_value() else { break };
                            let mut tomb = false;
                            let got = snap.verif_load_at(kv.key, kv.timestamp, &mut tomb);
                            n += 1;
                            let want: Option<Vec<u8>> = kv.value.map(|v| v.to_vec());
                            let ok = match &got {
                                Ok(g) => *g == want && (want.is_some() || tomb),
                                Err(_) => false,
                            };
                            if !ok && bad.is_empty() {
                                bad = format!(
                                    " {}@{}:got={}:want={}",
                                    hx0(kv.key),
                                    kv.timestamp,
                                    match &got { Ok(Some(v)) => hx0(v), Ok(None) => if tomb { "~".to_string() } else { ".".to_string() }, Err(e) => format!("err:{}", err_class(e)) },
                                    match &want { Some(v) => hx0(v), None => "~".to_string() }
                                );
                            }
                        }
                        if !bad.is_empty() {
                            break;
                        }
                    }
                    if bad.is_empty() { format!("VERSIONS ok {n}") } else { format!("VERSIONS bad{bad}") }
                }
                "ls" => format!("LS {}", ls(&root)),
                "sleep" => { std::thread::sleep(std::time::Duration::from_millis(t[1].parse().unwrap())); "SLEEP".into() }
                _ => format!("BADOP {}", t[0]),
            }
        }));
        match r {
            Ok(s) if s == "DUMPREQ" => print_files(&mut out, &root, &kvs, &mut seen),
            Ok(s) => writeln!(out, "{s}").unwrap(),
            Err(_) => writeln!(out, "PANIC {}", t[0]).unwrap(),
        }
        out.flush().unwrap();
    }
    out.flush().unwrap();
    std::process::exit(0);
}
