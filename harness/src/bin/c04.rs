//! c04: harness for property C04 (setsum bookkeeping of manifest transactions, offline verifier).
//!
//! `c04 session <dir> [lsmtk option flags...]`
//!     drives one *session* of a real lsmtk::KeyValueStore from a script on stdin (copy of the
//!     relevant part of lsm.rs): put K V | del K | batch K=V,K=~ | flush | compact | state | dump
//!     | ingest k:ts:v ...  (an external sst through LsmTree::ingest)
//!     One output line per op (dump: FILE lines + DUMP line).  The session ends at EOF by
//!     process exit (the store has no close).
//! `c04 race <dir> <ingest threads> <ssts per thread> <keys per sst> <compaction threads> <seed> [opts]`
//!     the concurrent stage: a real LsmTree with real compaction_thread()s while several threads
//!     ingest overlapping external ssts as fast as they can (a compaction step is NOT atomic in the
//!     real store: its commit races with the ingests' commits).  Waits for quiescence (all ingests
//!     returned, nothing ongoing, no manifest write for one second), then prints the same
//!     inspection as `tool inspect <dir>` (whole manifest history, directory listing, every sst
//!     with its recomputed setsum) and exits.
//! `c04 tool`
//!     stateless commands, one per stdin line, every command under catch_unwind; multi-line answers
//!     end with a line `END`:
//!       inspect <dir>                 manifest fragments (real mani::ManifestIterator), every file
//!                                     of sst/ and trash/ with the setsum of its final block, the
//!                                     setsum recomputed from its entries, its entries; logs; the
//!                                     verifier's manifest; ManifestVerifier::verify per fragment
//!       inspect <dir> brief           the same, restricted to what can have changed (see `inspect`)
//!       sst <path>                    one sst: final-block setsum, recomputed setsum, entries
//!       verify <dir> <passes> [opts]  LsmVerifier::open + verify() `passes` times
//!       build <path> <k:ts:v>...      SstBuilder over the given entries; prints the setsum
//!       mv <path>                     ManifestVerifier::verify on one fragment
//!       mklog <path> <k:ts:v>...      a write-ahead log holding the entries (sst::LogBuilder)
//!       logsum <path> <batches>       sst::log: WriteBatches (entries k:ts:vlen, ',' inside a batch,
//!                                     ';' between batches; a value is vlen bytes of ts%251) appended
//!                                     to a LogBuilder; prints the setsum seal() returns, the setsum
//!                                     log_to_setsum reads back, and which puts were accepted
use std::collections::{BTreeMap, BTreeSet, HashSet};
use std::io::{BufRead, Write};
use std::path::{Path, PathBuf};
use std::sync::Arc;

use arrrg::CommandLine;
use hx::{hex, unhex};
use lsmtk::{KeyValueStore, LsmVerifier, LsmtkOptions, ManifestVerifier, WriteBatch};
use sst::{Builder, Cursor};

fn hx0(b: &[u8]) -> String {
    if b.is_empty() { "-".to_string() } else { hex(b) }
}

/// canonical error class: the error code, and for verifier corruptions the context string with
/// everything after the first ':' (digests, paths) cut off
fn err_class(e: &lsmtk::SError) -> String {
    let s = e.to_string();
    let code = match lsmtk::error_code(e) {
        Some(c) => c.to_string(),
        None => {
            if let Some(i) = s.find("(code ") {
                let rest = &s[i + 6..];
                let end = rest.find(')').unwrap_or(rest.len());
                rest[..end].trim().trim_matches('"').to_string()
            } else {
                "other".to_string()
            }
        }
    };
    let mut ctx = String::new();
    for key in ["(context ", "(path "] {
        if let Some(i) = s.find(key) {
            let rest = &s[i + key.len()..];
            let rest = rest.trim_start();
            let body = if rest.starts_with('"') {
                let r = &rest[1..];
                &r[..r.find('"').unwrap_or(r.len())]
            } else {
                &rest[..rest.find(')').unwrap_or(rest.len())]
            };
            let body = body.split(':').next().unwrap_or("");
            ctx = body.trim().replace(' ', "_");
            break;
        }
    }
    if ctx.is_empty() { code } else { format!("{code}:{ctx}") }
}

fn read_sst(path: &Path) -> String {
    // "<final-block setsum> <recomputed setsum> <entries...>"  or  "ERR <class>"
    match sst::Sst::<sst::file_manager::FileHandle>::new(sst::SstOptions::default(), path) {
        Ok(sst) => {
            let meta = sst.fast_setsum().hexdigest();
            let mut acc = sst::Setsum::default();
            let mut ents = String::new();
            let mut c = sst.cursor();
            if let Err(e) = c.seek_to_first() {
                return format!("ERR {}", err_class(&e));
            }
            loop {
                if let Err(e) = c.next() {
                    return format!("ERR {}", err_class(&e));
                }
                match c.key_value() {
                    Some(kv) => {
                        ents.push_str(&format!(
                            " {}:{}:{}",
                            hx0(kv.key),
                            kv.timestamp,
                            match kv.value { Some(v) => hx0(v), None => "~".to_string() }
                        ));
                        acc.insert(kv);
                    }
                    None => break,
                }
            }
            format!("{} {}{}", meta, acc.hexdigest(), ents)
        }
        Err(e) => format!("ERR {}", err_class(&e)),
    }
}

fn sorted_names(dir: &Path) -> Vec<String> {
    let mut names: Vec<String> = match std::fs::read_dir(dir) {
        Ok(rd) => rd.filter_map(|e| e.ok()).map(|e| e.file_name().to_string_lossy().to_string()).collect(),
        Err(_) => vec![],
    };
    names.sort();
    names
}

fn edit_line(edit: &mani::Edit) -> String {
    let g = |c: char| edit.get_info(c).cloned().unwrap_or_else(|| "-".to_string());
    let adds: Vec<String> = edit.added().cloned().collect();
    let rms: Vec<String> = edit.rmed().cloned().collect();
    format!(
        "EDIT I={} O={} D={} L={} M={} +{} -{}",
        g('I'), g('O'), g('D'), g('L'), g('M'),
        if adds.is_empty() { "".to_string() } else { adds.join(",") },
        if rms.is_empty() { "".to_string() } else { rms.join(",") }
    )
}

fn fragments(mani_root: &Path) -> Vec<(String, PathBuf)> {
    let mut ids: Vec<u64> = sorted_names(mani_root)
        .iter()
        .filter_map(|n| mani::extract_backup(mani_root.join(n)))
        .collect();
    ids.sort();
    let mut out: Vec<(String, PathBuf)> = ids.iter().map(|i| (format!("{i}"), mani::BACKUP(mani_root, *i))).collect();
    out.push(("cur".to_string(), mani::MANIFEST(mani_root)));
    out
}

/// brief: only the newest three manifest fragments (older ones are frozen and were inspected
/// when they were new), only the live verify manifest, and ssts by name only (`sst <path>` reads one)
fn inspect(out: &mut impl Write, root: &str, brief: bool) {
    let rootp = PathBuf::from(root);
    for (tag, dir) in [("mani", rootp.join("mani")), ("verify", rootp.join("verify"))] {
        let mut strs: BTreeSet<String> = BTreeSet::new();
        let mut info: BTreeMap<char, String> = BTreeMap::new();
        let frs = fragments(&dir);
        let skip = if !brief { 0 } else if tag == "mani" { frs.len().saturating_sub(3) } else { frs.len().saturating_sub(1) };
        for (id, path) in frs.iter() {
            if skip > 0 && id != "cur" {
                writeln!(out, "FRAGID {tag} {id}").unwrap();
            }
        }
        for (id, path) in frs.into_iter().skip(skip) {
            if !path.is_file() {
                continue;
            }
            // the inode tells an interrupted rollover (backup linked, MANIFEST not yet replaced) from two
            // fragments with equal contents
            let ino = {
                use std::os::unix::fs::MetadataExt;
                std::fs::metadata(&path).map(|m| m.ino()).unwrap_or(0)
            };
            writeln!(out, "FRAG {tag} {id} {ino}").unwrap();
            match mani::ManifestIterator::open(&path) {
                Ok(it) => {
                    for edit in it {
                        match edit {
                            Ok(edit) => {
                                writeln!(out, "{}", edit_line(&edit)).unwrap();
                                if id == "cur" {
                                    for s in edit.rmed() { strs.remove(s); }
                                    for s in edit.added() { strs.insert(s.clone()); }
                                    for c in ['I', 'O', 'D', 'L', 'M'] {
                                        if let Some(v) = edit.get_info(c) { info.insert(c, v.clone()); }
                                    }
                                }
                            }
                            Err(e) => {
                                writeln!(out, "EDITERR {}", err_class(&e)).unwrap();
                                break;
                            }
                        }
                    }
                }
                Err(e) => writeln!(out, "FRAGERR {}", err_class(&e)).unwrap(),
            }
            if tag == "mani" {
                // the stand-alone manifest verifier of lsmtk on this fragment
                let r = std::panic::catch_unwind(|| ManifestVerifier::open().and_then(|v| v.verify(&path)));
                match r {
                    Ok(Ok(v)) => writeln!(out, "MV {id} ok {}", v.len()).unwrap(),
                    Ok(Err(e)) => writeln!(out, "MV {id} err {}", err_class(&e)).unwrap(),
                    Err(_) => writeln!(out, "MV {id} PANIC").unwrap(),
                }
            }
        }
        let g = |c: char| info.get(&c).cloned().unwrap_or_else(|| "-".to_string());
        writeln!(
            out,
            "STATE {tag} I={} O={} D={} L={} M={} strs={}",
            g('I'), g('O'), g('D'), g('L'), g('M'),
            strs.iter().cloned().collect::<Vec<_>>().join(",")
        )
        .unwrap();
    }
    for sub in ["sst", "trash"] {
        for n in sorted_names(&rootp.join(sub)) {
            if n.ends_with(".sst") {
                if brief {
                    writeln!(out, "SSTNAME {sub} {}", &n[..n.len() - 4]).unwrap();
                } else {
                    writeln!(out, "SST {sub} {} {}", &n[..n.len() - 4], read_sst(&rootp.join(sub).join(&n))).unwrap();
                }
            } else {
                writeln!(out, "OTHER {sub} {n}").unwrap();
            }
        }
    }
    let logs: Vec<String> = sorted_names(&rootp).into_iter().filter(|n| n.starts_with("log.")).collect();
    writeln!(out, "LOGS {}", logs.join(",")).unwrap();
    for sub in ["tmp", "compaction", "ingest"] {
        writeln!(out, "DIR {sub} {}", sorted_names(&rootp.join(sub)).join(",")).unwrap();
    }
}

fn parse_entries(toks: &[&str]) -> Vec<(Vec<u8>, u64, Option<Vec<u8>>)> {
    toks.iter()
        .map(|t| {
            let p: Vec<&str> = t.split(':').collect();
            (unhex(p[0]), p[1].parse::<u64>().unwrap(), if p[2] == "~" { None } else { Some(unhex(p[2])) })
        })
        .collect()
}

fn tool() {
    hx::quiet_panics();
    let stdin = std::io::stdin();
    let stdout = std::io::stdout();
    let mut out = std::io::BufWriter::new(stdout.lock());
    for line in stdin.lock().lines() {
        let line = line.expect("stdin");
        let t: Vec<&str> = line.split_whitespace().collect();
        if t.is_empty() {
            continue;
        }
        let mut buf: Vec<u8> = vec![];
        let r = std::panic::catch_unwind(std::panic::AssertUnwindSafe(|| match t[0] {
            "inspect" => {
                inspect(&mut buf, t[1], t.len() > 2 && t[2] == "brief");
                writeln!(buf, "END").unwrap();
            }
            "sst" => {
                writeln!(buf, "SST1 {}", read_sst(Path::new(t[1]))).unwrap();
            }
            "verify" => {
                let passes: usize = t[2].parse().unwrap();
                let mut a: Vec<&str> = vec!["--path", t[1]];
                a.extend_from_slice(&t[3..]);
                let o = LsmtkOptions::from_arguments_relaxed("c04", &a).0;
                match LsmVerifier::open(o) {
                    Ok(mut v) => {
                        for _ in 0..passes {
                            let r = std::panic::catch_unwind(std::panic::AssertUnwindSafe(|| v.verify()));
                            match r {
                                Ok(Ok(())) => writeln!(buf, "PASS ok").unwrap(),
                                Ok(Err(e)) => writeln!(buf, "PASS err {}", err_class(&e)).unwrap(),
                                Err(_) => {
                                    writeln!(buf, "PASS PANIC").unwrap();
                                    break;
                                }
                            }
                        }
                    }
                    Err(e) => writeln!(buf, "OPENERR {}", err_class(&e)).unwrap(),
                }
                writeln!(buf, "END").unwrap();
            }
            "build" => {
                let ents = parse_entries(&t[2..]);
                let _ = std::fs::remove_file(t[1]);
                let res = (|| -> Result<String, lsmtk::SError> {
                    let mut b = sst::SstBuilder::new(sst::SstOptions::default(), t[1])?;
                    for (k, ts, v) in ents.iter() {
                        match v {
                            Some(v) => b.put(k, *ts, v)?,
                            None => b.del(k, *ts)?,
                        }
                    }
                    let sst = b.seal()?;
                    Ok(sst.fast_setsum().hexdigest())
                })();
                match res {
                    Ok(s) => writeln!(buf, "BUILT {s}").unwrap(),
                    Err(e) => writeln!(buf, "BUILT err {}", err_class(&e)).unwrap(),
                }
            }
            "mv" => {
                // lsmtk's stand-alone ManifestVerifier on one fragment
                let path = PathBuf::from(t[1]);
                let r = std::panic::catch_unwind(|| ManifestVerifier::open().and_then(|v| v.verify(&path)));
                match r {
                    Ok(Ok(v)) => writeln!(buf, "MV ok {}", v.len()).unwrap(),
                    Ok(Err(e)) => writeln!(buf, "MV err {}", err_class(&e)).unwrap(),
                    Err(_) => writeln!(buf, "MV PANIC").unwrap(),
                }
            }
            "mklog" => {
                // a write-ahead log as the store writes it (sst::LogBuilder), e.g. the log of a new
                // memtable that took writes while the old one was being flushed
                let ents = parse_entries(&t[2..]);
                let _ = std::fs::remove_file(t[1]);
                let res = (|| -> Result<(), lsmtk::SError> {
                    let mut lb = sst::log::LogBuilder::new(sst::log::LogOptions::default(), t[1])?;
                    for (k, ts, v) in ents.iter() {
                        match v {
                            Some(v) => lb.put(k, *ts, v)?,
                            None => lb.del(k, *ts)?,
                        }
                    }
                    lb.seal()?;
                    Ok(())
                })();
                match res {
                    Ok(()) => writeln!(buf, "MKLOG ok").unwrap(),
                    Err(e) => writeln!(buf, "MKLOG err {}", err_class(&e)).unwrap(),
                }
            }
            "logsum" => {
                let _ = std::fs::remove_file(t[1]);
                let res = (|| -> Result<String, lsmtk::SError> {
                    let mut lb = sst::log::LogBuilder::new(sst::log::LogOptions::default(), t[1])?;
                    let mut accepted = vec![];
                    let mut refused = 0;
                    for batch in t[2].split(';') {
                        let mut wb = sst::log::WriteBatch::default();
                        let mut any = false;
                        for e in batch.split(',').filter(|x| !x.is_empty()) {
                            let p: Vec<&str> = e.split(':').collect();
                            let key = unhex(p[0]);
                            let ts: u64 = p[1].parse().unwrap();
                            let r = if p[2] == "~" {
                                wb.del(&key, ts)
                            } else {
                                let vlen: usize = p[2].parse().unwrap();
                                wb.put(&key, ts, &vec![(ts % 251) as u8; vlen])
                            };
                            match r {
                                Ok(()) => { accepted.push(e.to_string()); any = true; }
                                Err(_) => refused += 1,
                            }
                        }
                        if any {
                            lb.append(&wb)?;
                        }
                    }
                    let (sum, _) = lb.seal()?;
                    let back = sst::log::log_to_setsum(sst::log::LogOptions::default(), t[1])?;
                    Ok(format!("LOGSUM seal={} file={} refused={} accepted={}", sum.hexdigest(), back.hexdigest(), refused, accepted.join(",")))
                })();
                let _ = std::fs::remove_file(t[1]);
                match res {
                    Ok(s) => writeln!(buf, "{s}").unwrap(),
                    Err(e) => writeln!(buf, "LOGSUM err {}", err_class(&e)).unwrap(),
                }
            }
            _ => writeln!(buf, "BADOP {}", t[0]).unwrap(),
        }));
        if r.is_err() {
            buf.clear();
            writeln!(buf, "PANIC {}", t[0]).unwrap();
            if t[0] == "inspect" || t[0] == "verify" {
                writeln!(buf, "END").unwrap();
            }
        }
        // Manifest::verify and friends may println!: our lines carry no marker but are the only
        // ones written through `out`; stray prints go to the same stdout, so prefix ours.
        for l in String::from_utf8_lossy(&buf).lines() {
            writeln!(out, "@@{l}").unwrap();
        }
        out.flush().unwrap();
    }
}

fn print_files(out: &mut impl Write, root: &str, kvs: &KeyValueStore, seen: &mut HashSet<String>) {
    let dump = kvs.verif_tree().verif_dump();
    for (_, md) in dump.iter() {
        let name = hex(&md.setsum);
        if seen.insert(name.clone()) {
            let path = format!("{root}/sst/{name}.sst");
            writeln!(out, "FILE {name} {}", read_sst(Path::new(&path))).unwrap();
        }
    }
    let mut line = "DUMP".to_string();
    for (lvl, md) in dump.iter() {
        line.push_str(&format!(
            " {}:{}:{}:{}:{}:{}:{}",
            lvl, hex(&md.setsum), hx0(&md.first_key), hx0(&md.last_key),
            md.smallest_timestamp, md.biggest_timestamp, md.file_size
        ));
    }
    writeln!(out, "{line}").unwrap();
}

static LAST_PANIC: std::sync::Mutex<String> = std::sync::Mutex::new(String::new());

fn session(args: &[String]) {
    let root = args[0].clone();
    let mut a: Vec<&str> = vec!["--path", &root];
    for e in args[1..].iter() {
        a.push(e);
    }
    let stdout = std::io::stdout();
    let mut out = std::io::BufWriter::new(stdout.lock());
    if std::env::var("C04_LOUD").is_err() {
        // a panic is an output: keep its message and location (which check fired matters to the check)
        std::panic::set_hook(Box::new(|info| {
            let msg = info.to_string().replace(['\n', ' '], "_");
            if let Ok(mut g) = LAST_PANIC.lock() {
                *g = msg;
            }
        }));
    }
    let o = LsmtkOptions::from_arguments_relaxed("c04", &a).0;
    let opened = std::panic::catch_unwind(|| KeyValueStore::open(o));
    let kvs = match opened {
        Ok(Ok(k)) => Arc::new(k),
        Ok(Err(e)) => {
            writeln!(out, "OPEN err {}", err_class(&e)).unwrap();
            out.flush().unwrap();
            std::process::exit(0);
        }
        Err(_) => {
            writeln!(out, "OPEN PANIC").unwrap();
            out.flush().unwrap();
            std::process::exit(0);
        }
    };
    writeln!(out, "OPEN ok").unwrap();
    out.flush().unwrap();
    {
        let k2 = Arc::clone(&kvs);
        std::thread::spawn(move || {
            let r = std::panic::catch_unwind(std::panic::AssertUnwindSafe(|| k2.memtable_thread()));
            let msg = match r {
                Ok(Ok(())) => "ok".to_string(),
                Ok(Err(e)) => format!("err {}", err_class(&e)),
                Err(_) => "PANIC".to_string(),
            };
            println!("THREAD memtable {msg}");
        });
    }
    let mut seen = HashSet::new();
    let stdin = std::io::stdin();
    for line in stdin.lock().lines() {
        let line = line.unwrap();
        let t: Vec<&str> = line.split_whitespace().collect();
        if t.is_empty() {
            continue;
        }
        let kvs2 = Arc::clone(&kvs);
        let root2 = root.clone();
        let r = std::panic::catch_unwind(std::panic::AssertUnwindSafe(|| -> String {
            let kvs = &kvs2;
            match t[0] {
                "put" => match kvs.put(&unhex(t[1]), &unhex(t[2])) { Ok(()) => "PUT ok".into(), Err(e) => format!("PUT err {}", err_class(&e)) },
                "del" => match kvs.del(&unhex(t[1])) { Ok(()) => "DEL ok".into(), Err(e) => format!("DEL err {}", err_class(&e)) },
                "batch" => {
                    let mut wb = WriteBatch::default();
                    for kv in t[1].split(',') {
                        let (k, v) = kv.split_once('=').unwrap();
                        if v == "~" { wb.del(&unhex(k)); } else { wb.put(&unhex(k), &unhex(v)); }
                    }
                    match kvs.write(wb) { Ok(()) => "BATCH ok".into(), Err(e) => format!("BATCH err {}", err_class(&e)) }
                }
                "ingest" => {
                    // LsmTree::ingest of an external sst holding the given (sorted) entries
                    let ents = parse_entries(&t[1..]);
                    let path = format!("{}/ingest/c04.{}.sst", root2, std::process::id());
                    let _ = std::fs::remove_file(&path);
                    let res = (|| -> Result<(), lsmtk::SError> {
                        let mut b = sst::SstBuilder::new(sst::SstOptions::default(), &path)?;
                        for (k, ts, v) in ents.iter() {
                            match v {
                                Some(v) => b.put(k, *ts, v)?,
                                None => b.del(k, *ts)?,
                            }
                        }
                        b.seal()?;
                        kvs.verif_tree().ingest(&path)
                    })();
                    let _ = std::fs::remove_file(&path);
                    match res { Ok(()) => "INGEST ok".into(), Err(e) => format!("INGEST err {}", err_class(&e)) }
                }
                "flush" => {
                    let target = kvs.verif_request_flush();
                    kvs.verif_wait_flush(target);
                    format!("FLUSH {target}")
                }
                "compact" => match kvs.verif_tree().verif_compaction_step() {
                    Ok(None) => "COMPACT none".into(),
                    Ok(Some(c)) => format!("COMPACT {} {} {} {} {} {}", c.lower_level, c.upper_level, hx0(&c.first_key), hx0(&c.last_key), c.size, c.inputs.join(",")),
                    Err(e) => format!("COMPACT err {}", err_class(&e)),
                },
                "state" => {
                    let st = kvs.verif_state();
                    format!("STATE {} {} {} {} {}", st.seq_no, st.mem_seq_no, st.imm_trigger, st.has_imm as u8, st.mem_size)
                }
                "dump" => "DUMPREQ".into(),
                _ => format!("BADOP {}", t[0]),
            }
        }));
        match r {
            Ok(s) if s == "DUMPREQ" => print_files(&mut out, &root, &kvs, &mut seen),
            Ok(s) => writeln!(out, "{s}").unwrap(),
            Err(_) => {
                let msg = LAST_PANIC.lock().map(|g| g.clone()).unwrap_or_default();
                writeln!(out, "PANIC {} {}", t[0], msg).unwrap()
            }
        }
        out.flush().unwrap();
    }
    out.flush().unwrap();
    std::process::exit(0);
}

fn newest_mtime(dir: &Path) -> std::time::SystemTime {
    let mut newest = std::time::SystemTime::UNIX_EPOCH;
    if let Ok(rd) = std::fs::read_dir(dir) {
        for e in rd.filter_map(|e| e.ok()) {
            if let Ok(m) = e.metadata().and_then(|m| m.modified()) {
                newest = std::cmp::max(newest, m);
            }
        }
    }
    newest
}

fn race(args: &[String]) {
    use std::sync::atomic::{AtomicUsize, Ordering};
    let root = args[0].clone();
    let n_ingest: usize = args[1].parse().unwrap();
    let per_thread: usize = args[2].parse().unwrap();
    let keys_per: usize = args[3].parse().unwrap();
    let n_compact: usize = args[4].parse().unwrap();
    let seed: u64 = args[5].parse().unwrap();
    let mut a: Vec<&str> = vec!["--path", &root];
    for e in args[6..].iter() {
        a.push(e);
    }
    let stdout = std::io::stdout();
    let mut out = std::io::BufWriter::new(stdout.lock());
    let o = LsmtkOptions::from_arguments_relaxed("c04", &a).0;
    // the external ssts: number n writes at timestamp n; key windows overlap heavily
    let staging = format!("{root}.staging");
    let _ = std::fs::remove_dir_all(&staging);
    std::fs::create_dir_all(&staging).unwrap();
    let total = n_ingest * per_thread;
    let mut rng = hx::Rng(seed);
    let universe = 2 * keys_per;
    let mut paths = vec![];
    for ts in 1..=total as u64 {
        let path = format!("{staging}/{ts}.sst");
        let mut b = sst::SstBuilder::new(sst::SstOptions::default(), &path).unwrap();
        let start = rng.below((universe - keys_per + 1) as u64) as usize;
        for idx in start..start + keys_per {
            let key = format!("key-{idx:04}");
            if rng.below(8) == 0 {
                b.del(key.as_bytes(), ts).unwrap();
            } else {
                b.put(key.as_bytes(), ts, format!("v{ts}-{idx}").as_bytes()).unwrap();
            }
        }
        b.seal().unwrap();
        paths.push(path);
    }
    let tree = match lsmtk::LsmTree::open(o) {
        Ok(t) => Arc::new(t),
        Err(e) => {
            writeln!(out, "@@RACE openerr {}", err_class(&e)).unwrap();
            writeln!(out, "@@END").unwrap();
            out.flush().unwrap();
            std::process::exit(0);
        }
    };
    for _ in 0..n_compact {
        let t = Arc::clone(&tree);
        std::thread::spawn(move || {
            let r = t.compaction_thread();
            println!("@@RACE compaction-thread-exit {}", match r { Ok(()) => "ok".to_string(), Err(e) => err_class(&e) });
        });
    }
    let paths = Arc::new(paths);
    let next = Arc::new(AtomicUsize::new(0));
    let done = Arc::new(AtomicUsize::new(0));
    let failed = Arc::new(AtomicUsize::new(0));
    for _ in 0..n_ingest {
        let (t, paths, next, done, failed) = (Arc::clone(&tree), Arc::clone(&paths), Arc::clone(&next), Arc::clone(&done), Arc::clone(&failed));
        std::thread::spawn(move || loop {
            let idx = next.fetch_add(1, Ordering::SeqCst);
            if idx >= paths.len() {
                break;
            }
            if t.ingest(&paths[idx]).is_err() {
                failed.fetch_add(1, Ordering::SeqCst);
            }
            done.fetch_add(1, Ordering::SeqCst);
        });
    }
    // all ingests return unless the store is stuck: no ingest finished and no manifest write for 8 s
    let mani_dir = PathBuf::from(&root).join("mani");
    let hard_deadline = std::time::Instant::now() + std::time::Duration::from_secs(240);
    let mut quiet = true;
    let mut last_done = 0;
    let mut last_progress = std::time::Instant::now();
    while done.load(Ordering::SeqCst) < total {
        let d = done.load(Ordering::SeqCst);
        let fresh = matches!(newest_mtime(&mani_dir).elapsed(), Ok(age) if age < std::time::Duration::from_secs(8));
        if d != last_done || fresh {
            last_done = d;
            last_progress = std::time::Instant::now();
        }
        if last_progress.elapsed() > std::time::Duration::from_secs(8) || std::time::Instant::now() > hard_deadline {
            quiet = false;
            break;
        }
        std::thread::sleep(std::time::Duration::from_millis(10));
    }
    // quiescence: nothing ongoing and no manifest write for a full second
    let settle_deadline = std::time::Instant::now() + std::time::Duration::from_secs(30);
    while quiet {
        if std::time::Instant::now() > settle_deadline {
            quiet = false;
            break;
        }
        let idle = tree.verif_ongoing() == 0;
        match newest_mtime(&mani_dir).elapsed() {
            Ok(age) if idle && age >= std::time::Duration::from_millis(1000) => break,
            _ => std::thread::sleep(std::time::Duration::from_millis(100)),
        }
    }
    let mut buf: Vec<u8> = vec![];
    writeln!(buf, "RACE ingests={} failed={} quiet={}", done.load(Ordering::SeqCst), failed.load(Ordering::SeqCst), quiet as u8).unwrap();
    inspect(&mut buf, &root, false);
    writeln!(buf, "END").unwrap();
    for l in String::from_utf8_lossy(&buf).lines() {
        writeln!(out, "@@{l}").unwrap();
    }
    out.flush().unwrap();
    let _ = std::fs::remove_dir_all(&staging);
    std::process::exit(0);
}

fn main() {
    let args: Vec<String> = std::env::args().collect();
    match args.get(1).map(|s| s.as_str()) {
        Some("session") => session(&args[2..]),
        Some("race") => race(&args[2..]),
        Some("tool") => tool(),
        _ => {
            eprintln!("usage: c04 session <dir> [opts] | c04 tool");
            std::process::exit(2);
        }
    }
}
