#!/usr/bin/env python3
"""prints the per-property 'as built' table (DESIGN.md 0.6) from MANIFEST.json, the Props files and the evidence"""
import json, os, re, sys
ROOT = os.path.normpath(os.path.join(os.path.dirname(os.path.abspath(__file__)), ".."))
sys.path.insert(0, os.path.join(ROOT, "tools"))
import vlib
man = json.load(open(os.path.join(ROOT, "MANIFEST.json")))
print("| id | area / property file | property theorems (Qed, Print Assumptions checked each run) | obligations in the cone | quick tier: cases / wall | known findings |")
print("|---|---|---|---|---|---|")
for c in man["checks"]:
    pid = c["property_id"]
    ev = json.load(open(os.path.join(ROOT, c["evidence_file"])))
    cov = ev["coverage"]
    cone = [f for f in cov.get("cone_files", []) if "Props_" in f]
    thms = cov.get("property_theorems", [])
    part = [t for t in thms if t.endswith("_partial") or "_refuted" in t or "outside_known" in t]
    kf = [k[1] for k in vlib.known_findings(pid) if k[0] == "known"]
    print("| %s | %s | %d theorems%s | %s / %s | %s / %.0f s | %s |" % (
        pid, (cone[0] if cone else "?").replace("theories/", ""), len(thms),
        (" (incl. " + ", ".join(part[:6]) + ")") if part else "",
        cov.get("discharged", "?"), cov.get("obligations", "?"),
        cov.get("evaluations", cov.get("traces_validated_against_impl", "?")), ev["wall_s"], ", ".join(kf) or "-"))
na = man.get("not_applicable", [])
if na:
    print("\nNot claimed: " + ", ".join(x["property_id"] for x in na))
