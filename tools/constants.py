#!/usr/bin/env python3
"""Constants translator: re-extracts numeric/structural constants of the modelled code from
/repo's *current* source into coq/theories/Gen/Constants.v, so that the theorems are re-checked
against what the code says now.  Deliberately small: a restricted expression grammar; it fails
loudly (exit 2, not a violation) on anything it cannot parse.

Trusted for: "the number in the .v file is the number in the .rs file".
"""
import os
import re
import sys

REPO = os.environ.get("BLUE_REPO", "/repo")
OUT_DIR = os.path.normpath(os.path.join(os.path.dirname(os.path.abspath(__file__)), "..", "coq", "theories", "Gen"))

# Tables live in tools/constants.d/<Area>.tbl, one entry per line:
#   COQNAME  path/in/repo.rs  RUST_CONST_NAME  N|listN
# Each table is rendered to coq/theories/Gen/Const_<Area>.v (rewritten only when its text changes).
TBL_DIR = os.path.join(os.path.dirname(os.path.abspath(__file__)), "constants.d")


def load_tables():
    tables = {}
    for fn in sorted(os.listdir(TBL_DIR)):
        if not fn.endswith(".tbl"):
            continue
        rows = []
        with open(os.path.join(TBL_DIR, fn)) as fh:
            for ln in fh:
                ln = ln.split("#")[0].strip()
                if not ln:
                    continue
                parts = ln.split()
                if len(parts) != 4 or parts[3] not in ("N", "listN"):
                    raise ParseError("bad table line in %s: %r" % (fn, ln))
                rows.append(tuple(parts))
        tables[fn[:-4]] = rows
    return tables


OPTIONAL = set()  # names allowed to be absent (none)


class ParseError(Exception):
    pass


def strip_comments(src):
    src = re.sub(r"//[^\n]*", "", src)
    src = re.sub(r"/\*.*?\*/", "", src, flags=re.S)
    return src


def find_consts(src):
    """all `const NAME: TYPE = EXPR;` in a file -> {name: (type, expr)} (bracket-aware scanner)"""
    out = {}
    for m in re.finditer(r"\bconst\s+([A-Z_][A-Z0-9_]*)\s*:", src):
        name = m.group(1)
        i, depth = m.end(), 0
        ty_end = None
        while i < len(src):
            c = src[i]
            if c in "([{<":
                depth += 1
            elif c in ")]}>":
                depth -= 1
            elif c == "=" and depth == 0:
                ty_end = i
                break
            elif c == ";" and depth == 0:
                break
            i += 1
        if ty_end is None:
            continue
        j, depth = ty_end + 1, 0
        while j < len(src):
            c = src[j]
            if c in "([{":
                depth += 1
            elif c in ")]}":
                depth -= 1
            elif c == ";" and depth == 0:
                break
            j += 1
        if name not in out:
            out[name] = (src[m.end():ty_end].strip(), src[ty_end + 1:j].strip())
    return out


TOK = re.compile(r"\s*(?:(0x[0-9a-fA-F_]+|0b[01_]+|0o[0-7_]+|[0-9][0-9_]*)(?:[ui](?:8|16|32|64|128|size))?|([A-Za-z_][A-Za-z0-9_:]*)|(<<|>>|[-+*/%()|&^,\[\];]))")


def tokenize(s):
    pos, toks = 0, []
    s = s.strip()
    while pos < len(s):
        m = TOK.match(s, pos)
        if not m:
            raise ParseError("cannot tokenize %r at %d" % (s, pos))
        pos = m.end()
        if m.group(1) is not None:
            toks.append(("num", int(m.group(1).replace("_", ""), 0)))
        elif m.group(2) is not None:
            toks.append(("id", m.group(2)))
        else:
            toks.append(("op", m.group(3)))
    return toks


BUILTIN = {
    "u8::MAX": 2**8 - 1, "u16::MAX": 2**16 - 1, "u32::MAX": 2**32 - 1, "u64::MAX": 2**64 - 1,
    "usize::MAX": 2**64 - 1, "i32::MAX": 2**31 - 1, "i64::MAX": 2**63 - 1,
}


class Eval:
    def __init__(self, toks, env):
        self.t, self.i, self.env = toks, 0, env

    def peek(self):
        return self.t[self.i] if self.i < len(self.t) else (None, None)

    def eat(self, kind=None, val=None):
        k, v = self.peek()
        if (kind and k != kind) or (val is not None and v != val):
            raise ParseError("expected %s %s, got %s %s" % (kind, val, k, v))
        self.i += 1
        return v

    # precedence: | ^ & << >> + - * / %  (rust order: * / %, + -, << >>, &, ^, |)
    def expr(self):
        return self.bor()

    def bor(self):
        v = self.bxor()
        while self.peek() == ("op", "|"):
            self.eat(); v |= self.bxor()
        return v

    def bxor(self):
        v = self.band()
        while self.peek() == ("op", "^"):
            self.eat(); v ^= self.band()
        return v

    def band(self):
        v = self.shift()
        while self.peek() == ("op", "&"):
            self.eat(); v &= self.shift()
        return v

    def shift(self):
        v = self.add()
        while self.peek() in (("op", "<<"), ("op", ">>")):
            o = self.eat()
            r = self.add()
            v = v << r if o == "<<" else v >> r
        return v

    def add(self):
        v = self.mul()
        while self.peek() in (("op", "+"), ("op", "-")):
            o = self.eat()
            r = self.mul()
            v = v + r if o == "+" else v - r
        return v

    def mul(self):
        v = self.atom()
        while self.peek() in (("op", "*"), ("op", "/"), ("op", "%")):
            o = self.eat()
            r = self.atom()
            v = v * r if o == "*" else (v // r if o == "/" else v % r)
        return v

    def atom(self):
        k, v = self.peek()
        if k == "num":
            self.eat()
            r = v
        elif k == "id":
            self.eat()
            if v in BUILTIN:
                r = BUILTIN[v]
            elif v in self.env:
                r = self.env[v]
            else:
                raise ParseError("unknown identifier %s" % v)
        elif (k, v) == ("op", "("):
            self.eat()
            r = self.expr()
            self.eat("op", ")")
        elif (k, v) == ("op", "-"):
            self.eat()
            r = -self.atom()
        else:
            raise ParseError("unexpected token %s %s" % (k, v))
        # `as type` casts are ignored (values stay mathematical)
        while self.peek() == ("id", "as"):
            self.eat()
            self.eat("id")
        return r


def eval_scalar(expr, consts, depth=0):
    if depth > 20:
        raise ParseError("constant recursion")
    env = {}
    for idm in set(re.findall(r"[A-Z_][A-Z0-9_]*", expr)):
        if idm in consts:
            ty, e = consts[idm]
            if not e.startswith("["):
                env[idm] = eval_scalar(e, consts, depth + 1)
    ev = Eval(tokenize(expr), env)
    v = ev.expr()
    if ev.i != len(ev.t):
        raise ParseError("trailing tokens in %r" % expr)
    return v


def eval_list(expr, consts):
    expr = expr.strip()
    if not (expr.startswith("[") and expr.endswith("]")):
        raise ParseError("not an array literal: %r" % expr)
    inner = expr[1:-1].strip()
    if ";" in inner:  # [x; n]
        a, b = inner.split(";")
        return [eval_scalar(a, consts)] * eval_scalar(b, consts)
    items = [x.strip() for x in inner.split(",") if x.strip()]
    return [eval_scalar(x, consts) for x in items]


def extract(table, repo=REPO):
    cache = {}
    out = []
    for coqname, f, rname, kind in table:
        path = os.path.join(repo, f)
        if path not in cache:
            with open(path) as fh:
                cache[path] = find_consts(strip_comments(fh.read()))
        consts = cache[path]
        if rname not in consts:
            raise ParseError("%s: const %s not found" % (f, rname))
        ty, expr = consts[rname]
        if kind == "N":
            v = eval_scalar(expr, consts)
            if v < 0:
                raise ParseError("%s negative" % rname)
            out.append((coqname, kind, v, f, rname))
        else:
            out.append((coqname, kind, eval_list(expr, consts), f, rname))
    return out


def render(vals):
    lines = ["(* GENERATED by tools/constants.py from /repo's working tree on every run. DO NOT EDIT. *)",
             "From Coq Require Import NArith List.", "Import ListNotations.", "Open Scope N_scope.", ""]
    for coqname, kind, v, f, rname in vals:
        lines.append("(* %s :: %s *)" % (f, rname))
        if kind == "N":
            lines.append("Definition %s : N := %d." % (coqname, v))
        else:
            lines.append("Definition %s : list N := [%s]." % (coqname, "; ".join(str(x) for x in v)))
    return "\n".join(lines) + "\n"


def main():
    areas = [a for a in sys.argv[1:] if not a.startswith("-")]
    allvals = {}
    try:
        tables = load_tables()
        for area, table in tables.items():
            if areas and area not in areas:
                continue
            vals = extract(table)
            text = render(vals)
            out = os.path.join(OUT_DIR, "Const_%s.v" % area)
            old = None
            if os.path.exists(out):
                with open(out) as fh:
                    old = fh.read()
            if old != text:
                os.makedirs(OUT_DIR, exist_ok=True)
                with open(out, "w") as fh:
                    fh.write(text)
                sys.stderr.write("constants.py: wrote %s\n" % out)
            allvals[area] = {c: v for c, k, v, f, r in vals}
    except (ParseError, OSError) as e:
        sys.stderr.write("constants.py: %s\n" % e)
        sys.exit(2)
    if "--json" in sys.argv:
        import json
        print(json.dumps(allvals))


if __name__ == "__main__":
    main()
