#!/usr/bin/env python3
"""tools/seedtest.py <patch.diff> <Cnn> [<Cnn> ...] [--keep] [--tier quick|thorough]
Evaluate the checks against a seeded change WITHOUT touching /repo: make a scratch git worktree of
/repo's HEAD under /tmp/seedwt, apply the patch there, run `BLUE_REPO=<worktree> bin/check Cnn`,
print the verdict lines, restore evidence files, remove the worktree and its build output."""
import hashlib
import os
import shutil
import subprocess
import sys

VERIF = os.path.normpath(os.path.join(os.path.dirname(os.path.abspath(__file__)), ".."))


def main():
    args = [a for a in sys.argv[1:] if not a.startswith("--")]
    keep = "--keep" in sys.argv
    tier = "quick"
    if "--tier" in sys.argv:
        tier = sys.argv[sys.argv.index("--tier") + 1]
        args = [a for a in args if a != tier]
    patch, pids = os.path.abspath(args[0]), args[1:]
    tag = hashlib.sha1(patch.encode()).hexdigest()[:8]
    wt = "/tmp/seedwt/" + tag
    subprocess.run(["git", "-C", "/repo", "worktree", "remove", "--force", wt], stderr=subprocess.DEVNULL)
    shutil.rmtree(wt, ignore_errors=True)
    os.makedirs("/tmp/seedwt", exist_ok=True)
    subprocess.run(["git", "-C", "/repo", "worktree", "add", "--detach", wt, "HEAD"], check=True, stdout=subprocess.DEVNULL, stderr=subprocess.DEVNULL)
    rc = subprocess.run(["git", "-C", wt, "apply", patch]).returncode
    if rc != 0:
        # /repo's HEAD has moved since the change was written (later hook / fix commits): retry with fuzz
        rc = subprocess.run("patch -p1 --fuzz=3 --no-backup-if-mismatch < %s" % patch, shell=True, cwd=wt).returncode
    if rc != 0:
        print("PATCH DOES NOT APPLY to /repo HEAD")
        result = 2
    else:
        result = 0
        for pid in pids:
            env = dict(os.environ, BLUE_REPO=wt)
            p = subprocess.run([os.path.join(VERIF, "bin", "check"), pid, "--tier", tier], cwd=VERIF, env=env,
                               stdout=subprocess.PIPE, stderr=subprocess.PIPE)
            out = p.stdout.decode()
            lines = [l for l in out.splitlines() if l.startswith("VIOLATION") or l.startswith("KNOWN-FINDING")]
            print("== %s exit=%d" % (pid, p.returncode))
            for l in lines:
                print("   " + l[:300])
                if l.startswith("VIOLATION"):
                    # keep the replay next to the patch for the record
                    rp = l.split("replay=")[1].split()[0]
                    if os.path.exists(rp):
                        shutil.copy(rp, os.path.join(os.path.dirname(patch), "replay_%s_%s" % (pid, os.path.basename(rp))))
            if p.returncode not in (0, 1):
                print("   (machinery error)\n" + p.stderr.decode()[-1500:])
            subprocess.run(["git", "-C", VERIF, "checkout", "--", "evidence/%s.json" % pid], stderr=subprocess.DEVNULL)
    if not keep:
        subprocess.run(["git", "-C", "/repo", "worktree", "remove", "--force", wt], stderr=subprocess.DEVNULL)
        shutil.rmtree(wt, ignore_errors=True)
        alt = hashlib.sha1(os.path.normpath(wt).encode()).hexdigest()[:10]
        shutil.rmtree(os.path.join(VERIF, "work", "target_alt", alt), ignore_errors=True)
        shutil.rmtree(os.path.join(VERIF, "work", "harness_alt", alt), ignore_errors=True)
    sys.exit(result)


if __name__ == "__main__":
    main()
