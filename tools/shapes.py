#!/usr/bin/env python3
"""Shape translator: scans /repo's *current* source for `#[derive(... Message ...)]` structs and
enums with `#[prototk(N, type)]` attributes and renders them as values of the Wire shape language
(coq/theories/Wire/ModelMsg.v: msg / flds / vars / ty) into coq/theories/Gen/Shapes_<crate>.v, one
`Definition shape_<Type> : msg` per declared type, plus Gen/Shapes_all.v (every shape, by name).
Run on every build (vlib.gen_constants), so that the theorems instantiated in Wire/Instances.v are
about the messages the repository declares now.

What the derive macro does with a declaration is mirrored here and nowhere else:
  * a field / variant without a #[prototk(..)] attribute is not serialised (fields) or is an error
    of the macro (variants): fields are skipped and listed, variants fail the translation;
  * `Vec<T>` is repeated and `Option<T>` optional for every field type, except that `Vec<u8>` /
    `&[u8]` / `[u8; N]` / `String` / `&str` / `PathBuf` are the native values of the bytes / string
    field types; `Box<T>` is T; a PathBuf under `string` is the scalar StringPath (it packs the path's
    OS bytes, which need not be UTF-8, and unpacks through string::unpack);
  * `message` fields take their shape from the (last path segment of the) Rust type;
    `Result<T, E>` is the Result shape.
Types the shape language cannot express (generic parameters, types that contain themselves,
message fields whose type is not a derived message of the repository, e.g. SError) are listed in a
comment of the generated file and in the JSON, never silently dropped.  Anything this restricted
parser does not understand is a loud failure (exit 2), not a guess.

Trusted for: "the shape in the .v file is the declaration in the .rs file".
"""
import json
import os
import re
import sys

REPO = os.environ.get("BLUE_REPO", "/repo")
OUT_DIR = os.environ.get("BLUE_SHAPES_OUT") or os.path.normpath(os.path.join(os.path.dirname(os.path.abspath(__file__)), "..", "coq", "theories", "Gen"))

SCALARS = {"int32": "Int32", "int64": "Int64", "uint32": "UInt32", "uint64": "UInt64", "sint32": "SInt32",
           "sint64": "SInt64", "fixed32": "Fixed32", "fixed64": "Fixed64", "sfixed32": "SFixed32",
           "sfixed64": "SFixed64", "float": "Float", "double": "Double", "Bool": "Bool_", "bytes": "Bytes",
           "bytes16": "Bytes16", "bytes32": "Bytes32", "bytes64": "Bytes64", "string": "String_",
           # not a field type of prototk: `string` whose native type is PathBuf (its bytes need not be UTF-8)
           "string_path": "StringPath"}
SKIP_DIRS = {"target", ".git", "node_modules"}


class ParseError(Exception):
    pass


def strip_comments(src):
    """remove // and /* */ comments, keeping string / char literals and line structure"""
    out, i, n = [], 0, len(src)
    while i < n:
        c = src[i]
        if src.startswith("//", i):
            j = src.find("\n", i)
            i = n if j < 0 else j
        elif src.startswith("/*", i):
            depth, j = 1, i + 2
            while j < n and depth:
                if src.startswith("/*", j):
                    depth += 1
                    j += 2
                elif src.startswith("*/", j):
                    depth -= 1
                    j += 2
                else:
                    if src[j] == "\n":
                        out.append("\n")
                    j += 1
            i = j
        elif c == '"':
            j = i + 1
            while j < n and src[j] != '"':
                j += 2 if src[j] == "\\" else 1
            out.append('""' + "\n" * src.count("\n", i, j))
            i = j + 1
        elif c == "r" and re.match(r'r#*"', src[i:i + 8]) and (i == 0 or not (src[i - 1].isalnum() or src[i - 1] == "_")):
            m = re.match(r'r(#*)"', src[i:])
            close = '"' + m.group(1)
            j = src.find(close, i + len(m.group(0)))
            if j < 0:
                raise ParseError("unterminated raw string")
            out.append('""' + "\n" * src.count("\n", i, j))
            i = j + len(close)
        elif c == "'":
            # char literal or lifetime
            m = re.match(r"'(\\.[^']*|[^'\\])'", src[i:])
            if m:
                out.append("' '")
                i += len(m.group(0))
            else:
                out.append(c)
                i += 1
        else:
            out.append(c)
            i += 1
    return "".join(out)


OPEN, CLOSE = "([{<", ")]}>"


def match_close(s, i):
    """s[i] is one of ( [ { ; returns the index of its partner (angle brackets are not tracked here)"""
    pairs = {"(": ")", "[": "]", "{": "}"}
    stack = []
    j = i
    while j < len(s):
        c = s[j]
        if c in pairs:
            stack.append(pairs[c])
        elif c in ")]}":
            if not stack or stack.pop() != c:
                raise ParseError("unbalanced brackets near %r" % s[max(0, j - 30):j + 10])
            if not stack:
                return j
        j += 1
    raise ParseError("unterminated bracket")


def split_top(s, sep=","):
    """split at separators that are outside every bracket (angle brackets included, `->`/`=>` tolerated)"""
    parts, depth, angle, cur = [], 0, 0, []
    i = 0
    while i < len(s):
        c = s[i]
        if c in "([{":
            depth += 1
        elif c in ")]}":
            depth -= 1
        elif c == "<":
            angle += 1
        elif c == ">" and i > 0 and s[i - 1] not in "-=":
            angle = max(0, angle - 1)
        if c == sep and depth == 0 and angle == 0:
            parts.append("".join(cur))
            cur = []
        else:
            cur.append(c)
        i += 1
    if "".join(cur).strip():
        parts.append("".join(cur))
    return parts


ATTR_RE = re.compile(r"\s*#\s*\[")


def take_attrs(s, i):
    """attributes starting at s[i:] -> (list of attribute bodies, index after them)"""
    attrs = []
    while True:
        m = ATTR_RE.match(s, i)
        if not m:
            return attrs, i
        j = match_close(s, m.end() - 1)
        attrs.append(s[m.end():j].strip())
        i = j + 1


def prototk_attr(attrs, where):
    hits = []
    for a in attrs:
        m = re.match(r"prototk\s*\((.*)\)\s*$", a, flags=re.S)
        if m:
            args = [x.strip() for x in m.group(1).split(",")]
            if len(args) != 2 or not re.fullmatch(r"[0-9_]+", args[0]) or not re.fullmatch(r"[A-Za-z_][A-Za-z0-9_]*", args[1]):
                raise ParseError("%s: cannot read #[prototk(%s)]" % (where, m.group(1)))
            hits.append((int(args[0].replace("_", "")), args[1]))
    if len(hits) > 1:
        # the macro uses the first for variants and every one for fields; nothing in the repo does this
        raise ParseError("%s: more than one #[prototk] attribute" % where)
    return hits[0] if hits else None


def norm_type(t):
    return re.sub(r"\s+", "", t)


def last_segment(t):
    """`a::b::Name<'x, T>` -> Name"""
    t = re.sub(r"<.*>$", "", t)
    return t.split("::")[-1]


def outer_generic(t, name):
    """`Name<inner>` -> inner (top level), else None"""
    m = re.fullmatch(r"(?:[A-Za-z_][A-Za-z0-9_]*::)*" + name + r"<(.*)>", t)
    return m.group(1) if m else None


PATHBUF = re.compile(r"(std::path::)?PathBuf$")
BYTES_NATIVE = re.compile(r"(Vec<u8>|&('[a-z_]+)?\[u8\]|\[u8;[0-9]+\]|String|&('[a-z_]+)?str|(std::path::)?PathBuf|Box<\[u8\]>)$")


def field_shape(rust_ty, ptype, where):
    """-> (container, ('sc', name) | ('msg', TypeName) | ('result', T, E))"""
    t = norm_type(rust_ty)
    cont = "CPlain"
    while True:
        inner = outer_generic(t, "Box")
        if inner is not None and inner != "[u8]":
            t = inner
            continue
        break
    if ptype in SCALARS and ptype != "string_path":
        def kind(native):
            # PathBuf under `string` packs the path's OS bytes but unpacks through string::unpack
            return "string_path" if ptype == "string" and PATHBUF.match(native) else ptype
        if ptype in ("bytes", "bytes16", "bytes32", "bytes64", "string") and BYTES_NATIVE.match(t):
            return "CPlain", ("sc", kind(t))
        for gen, c in (("Vec", "CRep"), ("Option", "COpt")):
            inner = outer_generic(t, gen)
            if inner is not None:
                if outer_generic(inner, "Vec") is not None and not BYTES_NATIVE.match(inner) or outer_generic(inner, "Option") is not None:
                    raise ParseError("%s: nested container %s" % (where, rust_ty))
                while outer_generic(inner, "Box") is not None and outer_generic(inner, "Box") != "[u8]":
                    inner = outer_generic(inner, "Box")
                return c, ("sc", kind(inner))
        return "CPlain", ("sc", kind(t))
    if ptype != "message":
        raise ParseError("%s: unknown field type `%s`" % (where, ptype))
    for gen, c in (("Vec", "CRep"), ("Option", "COpt")):
        inner = outer_generic(t, gen)
        if inner is not None:
            cont, t = c, inner
            break
    while outer_generic(t, "Box") is not None:
        t = outer_generic(t, "Box")
    res = outer_generic(t, "Result")
    if res is not None:
        parts = split_top(res)
        if len(parts) != 2:
            raise ParseError("%s: Result with %d parameters" % (where, len(parts)))
        return cont, ("result", last_segment(parts[0]), last_segment(parts[1]))
    if outer_generic(t, "Vec") is not None or outer_generic(t, "Option") is not None:
        raise ParseError("%s: nested container %s" % (where, rust_ty))
    return cont, ("msg", last_segment(t))


def parse_fields(body, named, where):
    """fields of a struct / named variant body -> [(num, cont, tyref)], skipped field names"""
    fields, skipped = [], []
    for k, part in enumerate(split_top(body)):
        if not part.strip():
            continue
        attrs, i = take_attrs(part, 0)
        rest = part[i:].strip()
        rest = re.sub(r"^pub(\s*\([^)]*\))?\s+", "", rest)
        if named:
            m = re.match(r"(r#)?([A-Za-z_][A-Za-z0-9_]*)\s*:\s*(.*)$", rest, flags=re.S)
            if not m:
                raise ParseError("%s: cannot read field %r" % (where, rest[:60]))
            fname, rty = m.group(2), m.group(3)
        else:
            fname, rty = str(k), rest
        pa = prototk_attr(attrs, "%s.%s" % (where, fname))
        if pa is None:
            skipped.append(fname)
            continue
        cont, ty = field_shape(rty, pa[1], "%s.%s" % (where, fname))
        fields.append((pa[0], cont, ty, fname))
    return fields, skipped


def parse_item(s, i, attrs, path):
    """s[i:] starts after the attributes of an item with derive(Message)"""
    m = re.match(r"\s*(?:pub(?:\s*\([^)]*\))?\s+)?(struct|enum)\s+([A-Za-z_][A-Za-z0-9_]*)", s[i:])
    if not m:
        raise ParseError("%s: derive(Message) on something that is not a struct or enum: %r" % (path, s[i:i + 60]))
    kind, name = m.group(1), m.group(2)
    j = i + m.end()
    where = "%s::%s" % (path, name)
    # generics
    generics = ""
    k = j
    while k < len(s) and s[k].isspace():
        k += 1
    if k < len(s) and s[k] == "<":
        depth, e = 0, k
        while e < len(s):
            if s[e] == "<":
                depth += 1
            elif s[e] == ">" and s[e - 1] != "-":
                depth -= 1
                if depth == 0:
                    break
            e += 1
        generics = s[k + 1:e]
        j = e + 1
    type_params = [g.strip() for g in split_top(generics) if g.strip() and not g.strip().startswith("'") and not g.strip().startswith("const ")]
    # where clause / body
    k = j
    while k < len(s) and s[k] not in "{(;":
        k += 1
    if k >= len(s):
        raise ParseError("%s: no body" % where)
    derives = []
    for a in attrs:
        dm = re.match(r"derive\s*\((.*)\)\s*$", a, flags=re.S)
        if dm:
            derives += [last_segment(x.strip()) for x in dm.group(1).split(",") if x.strip()]
    item = {"name": name, "kind": kind, "path": path, "line": s.count("\n", 0, i) + 1, "type_params": [re.split(r"[:=\s]", g)[0] for g in type_params],
            "skipped": [], "derives": derives, "default_variant": None}
    if kind == "struct":
        if s[k] == ";":
            item["fields"], end = [], k + 1
        elif s[k] == "{":
            e = match_close(s, k)
            item["fields"], item["skipped"] = parse_fields(s[k + 1:e], True, where)
            end = e + 1
        else:
            e = match_close(s, k)
            item["fields"], item["skipped"] = parse_fields(s[k + 1:e], False, where)
            end = e + 1
    else:
        if s[k] != "{":
            raise ParseError("%s: enum without a body" % where)
        e = match_close(s, k)
        variants = []
        for part in split_top(s[k + 1:e]):
            if not part.strip():
                continue
            vattrs, vi = take_attrs(part, 0)
            rest = part[vi:].strip()
            vm = re.match(r"([A-Za-z_][A-Za-z0-9_]*)\s*(.*)$", rest, flags=re.S)
            if not vm:
                raise ParseError("%s: cannot read variant %r" % (where, rest[:60]))
            vname, vrest = vm.group(1), vm.group(2).strip()
            vrest = re.sub(r"=\s*[-0-9A-Za-z_]+\s*$", "", vrest).strip()
            if any(a.strip() == "default" for a in vattrs):
                item["default_variant"] = len(variants)
            pa = prototk_attr(vattrs, "%s::%s" % (where, vname))
            if pa is None:
                raise ParseError("%s::%s: variant without #[prototk(..)] (the derive macro rejects it)" % (where, vname))
            if not vrest:
                variants.append(("u", pa[0], vname))
            elif vrest.startswith("("):
                ve = match_close(vrest, 0)
                inner = split_top(vrest[1:ve])
                if len(inner) != 1:
                    raise ParseError("%s::%s: tuple variant with %d fields" % (where, vname, len(inner)))
                _, it = take_attrs(inner[0], 0)
                cont, ty = field_shape(inner[0][it:].strip(), pa[1], "%s::%s" % (where, vname))
                if cont != "CPlain":
                    raise ParseError("%s::%s: container in an unnamed variant: %s" % (where, vname, inner[0].strip()))
                variants.append(("o", pa[0], ty, vname))
            elif vrest.startswith("{"):
                ve = match_close(vrest, 0)
                fs, sk = parse_fields(vrest[1:ve], True, "%s::%s" % (where, vname))
                if sk:
                    raise ParseError("%s::%s: named variant field without #[prototk(..)]" % (where, vname))
                variants.append(("n", pa[0], fs, vname))
            else:
                raise ParseError("%s::%s: cannot read variant body %r" % (where, vname, vrest[:40]))
        item["variants"] = variants
        end = e + 1
    return item, end


def scan_file(path, rel):
    with open(path, encoding="utf-8", errors="replace") as fh:
        raw = fh.read()
    if "Message" not in raw or "derive" not in raw:
        return [], []
    s = strip_comments(raw)
    items, notes = [], []
    pos = 0
    for m in re.finditer(r"#\s*\[\s*derive\s*\(", s):
        if m.start() < pos:
            continue
        # all attributes of the item, starting at the first attribute of the run that contains this derive
        attrs, after = take_attrs(s, m.start())
        derives = []
        for a in attrs:
            dm = re.match(r"derive\s*\((.*)\)\s*$", a, flags=re.S)
            if dm:
                derives += [x.strip() for x in dm.group(1).split(",")]
        if not any(last_segment(d) == "Message" and (d == "Message" or d.endswith("prototk_derive::Message") or d.endswith("::Message")) for d in derives):
            continue
        # inside a macro_rules! body the declaration is a template, not a type
        head = s[:m.start()]
        if "$" in s[m.start():after + 200].split("{")[0] or re.search(r"macro_rules!\s*[A-Za-z_0-9]+\s*\{[^}]*$", head[-4000:]) and "$" in s[after:after + 400]:
            notes.append("%s:%d derive(Message) inside a macro_rules! template: not expanded" % (rel, s.count("\n", 0, m.start()) + 1))
            continue
        item, end = parse_item(s, after, attrs, rel)
        items.append(item)
        pos = end
    return items, notes


def scan_repo(repo=REPO):
    items, notes = [], []
    for root, dirs, files in os.walk(repo):
        dirs[:] = sorted(d for d in dirs if d not in SKIP_DIRS and not d.startswith("."))
        for fn in sorted(files):
            if not fn.endswith(".rs"):
                continue
            p = os.path.join(root, fn)
            rel = os.path.relpath(p, repo)
            if rel.startswith("prototk_derive" + os.sep):
                continue        # the macro's own source and README examples
            try:
                its, ns = scan_file(p, rel)
            except ParseError as e:
                raise ParseError("%s: %s" % (rel, e))
            items += its
            notes += ns
    return items, notes


def crate_of(rel):
    return rel.split(os.sep)[0].replace("-", "_")


def coq_ident(s):
    return re.sub(r"[^A-Za-z0-9_]", "_", s)


def assign_names(items):
    """Coq names: shape_<Type> for src/ types unique in their crate's src/, otherwise with the file stem"""
    by_crate = {}
    for it in items:
        it["crate"] = crate_of(it["path"])
        parts = it["path"].split(os.sep)
        it["in_src"] = len(parts) > 1 and parts[1] == "src"
        by_crate.setdefault(it["crate"], []).append(it)
    for crate, its in by_crate.items():
        src_names = {}
        for it in its:
            if it["in_src"]:
                src_names.setdefault(it["name"], []).append(it)
        used = set()
        for it in its:
            stem = coq_ident("_".join(it["path"].split(os.sep)[1:])[:-3])
            if it["in_src"] and len(src_names[it["name"]]) == 1:
                nm = "shape_" + it["name"]
            else:
                nm = "shape_%s_%s" % (stem, it["name"])
            if nm in used:
                nm = "%s_L%d" % (nm, it["line"])
            used.add(nm)
            it["coq"] = nm
    return by_crate


def resolve(items, by_crate):
    """message references -> items; marks inexpressible types with the reason"""
    by_name = {}
    for it in items:
        by_name.setdefault(it["name"], []).append(it)

    def lookup(name, frm):
        cands = by_name.get(name, [])
        same_file = [c for c in cands if c["path"] == frm["path"]]
        if len(same_file) == 1:
            return same_file[0]
        if len(same_file) > 1:
            return None
        same_crate = [c for c in cands if c["crate"] == frm["crate"] and c["in_src"]]
        if len(same_crate) == 1:
            return same_crate[0]
        src = [c for c in cands if c["in_src"]]
        if len(src) == 1:
            return src[0]
        return None

    def refs_of(it):
        out = []
        fls = list(it.get("fields", []))
        for v in it.get("variants", []):
            if v[0] == "o":
                out.append(v[2])
            elif v[0] == "n":
                fls += v[2]
        out += [f[2] for f in fls]
        return out

    for it in items:
        it["why_not"] = None
        if it["type_params"]:
            it["why_not"] = "generic over type parameter(s) %s" % ", ".join(it["type_params"])
        it["deps"] = []
        for r in refs_of(it):
            names = [r[1]] if r[0] == "msg" else list(r[1:]) if r[0] == "result" else []
            for nm in names:
                if nm in it["type_params"]:
                    continue
                tgt = lookup(nm, it)
                if tgt is None:
                    if it["why_not"] is None:
                        it["why_not"] = "message field of type `%s`, which is not a (unique) derived message of the repository" % nm
                else:
                    it["deps"].append(tgt)
        if it["kind"] == "enum" and not it.get("variants"):
            it["why_not"] = it["why_not"] or "enum without variants"
    # cycles and propagation
    state = {}

    def visit(it, stack):
        k = id(it)
        if state.get(k) == "done":
            return
        if state.get(k) == "open":
            for s_ in stack[stack.index(it):]:
                if s_["why_not"] is None:
                    s_["why_not"] = "contains itself (through %s): not a tree" % " -> ".join(x["name"] for x in stack[stack.index(it):] + [it])
            return
        state[k] = "open"
        for d in it["deps"]:
            visit(d, stack + [it])
        state[k] = "done"

    for it in items:
        visit(it, [])
    changed = True
    while changed:
        changed = False
        for it in items:
            if it["why_not"] is None:
                bad = [d for d in it["deps"] if d["why_not"] is not None]
                if bad:
                    it["why_not"] = "contains `%s`, which cannot be expressed" % bad[0]["name"]
                    changed = True
    return lookup


def render_ty(ty, it, lookup):
    if ty[0] == "sc":
        return "TSc %s" % SCALARS[ty[1]]
    if ty[0] == "msg":
        return "TMsg %s" % ref_name(lookup(ty[1], it), it)
    t, e = lookup(ty[1], it), lookup(ty[2], it)
    return "TMsg (MResult %s %s)" % (ref_name(t, it), ref_name(e, it))


def ref_name(tgt, frm):
    return tgt["coq"] if tgt["crate"] == frm["crate"] else "Shapes_%s.%s" % (tgt["crate"], tgt["coq"])


def render_flds(fs, it, lookup):
    out = "FNil"
    for (num, cont, ty, _name) in reversed(fs):
        out = "FCons %d %s (%s) (%s)" % (num, cont, render_ty(ty, it, lookup), out)
    return out


def render_item(it, lookup):
    if it["kind"] == "struct":
        return "MStruct (%s)" % render_flds(it["fields"], it, lookup)
    out = "VNil"
    for v in reversed(it["variants"]):
        if v[0] == "u":
            out = "VUnit %d (%s)" % (v[1], out)
        elif v[0] == "o":
            out = "VOne %d (%s) (%s)" % (v[1], render_ty(v[2], it, lookup), out)
        else:
            out = "VNamed %d (%s) (%s)" % (v[1], render_flds(v[2], it, lookup), out)
    return "MEnum (%s)" % out


def topo(items):
    done, order = set(), []

    def go(it):
        if id(it) in done:
            return
        done.add(id(it))
        for d in it["deps"]:
            go(d)
        order.append(it)

    for it in items:
        go(it)
    return order


def describe(it, lookup):
    """JSON description of an expressible type (what checks/c15.py generates values from)"""
    def ty(t):
        if t[0] == "sc":
            return t[1]
        if t[0] == "msg":
            tg = lookup(t[1], it)
            return ["M", tg["crate"] + "::" + tg["coq"]]
        return ["R", lookup(t[1], it)["crate"] + "::" + lookup(t[1], it)["coq"], lookup(t[2], it)["crate"] + "::" + lookup(t[2], it)["coq"]]

    def flds(fs):
        return [[num, {"CPlain": "p", "COpt": "o", "CRep": "r"}[c], ty(t), nm] for (num, c, t, nm) in fs]

    if it["kind"] == "struct":
        return ["S", flds(it["fields"])]
    vs = []
    for v in it["variants"]:
        if v[0] == "u":
            vs.append(["u", v[1], v[2]])
        elif v[0] == "o":
            vs.append(["o", v[1], ty(v[2]), v[3]])
        else:
            vs.append(["n", v[1], flds(v[2]), v[3]])
    return ["E", vs]


def main():
    want_json = "--json" in sys.argv
    try:
        items, notes = scan_repo()
        by_crate = assign_names(items)
        lookup = resolve(items, by_crate)
    except (ParseError, OSError) as e:
        sys.stderr.write("shapes.py: %s\n" % e)
        sys.exit(2)
    # does <T as Default>::default() coincide with the model's default (zero / empty / None; an enum's
    # first variant)?  Only then may decodings of incomplete encodings be compared with the model.
    def own_default_ok(it):
        if "Default" not in it["derives"]:
            return False
        if it["kind"] == "enum":
            return it["default_variant"] == 0 and it["variants"][0][0] == "u"
        return True
    for it in items:
        it["default_like_model"] = None
    def dlm(it, seen=()):
        # decoding `it` uses Self::default() of a struct and the defaults of the types of its fields
        if it in seen:
            return False
        if it["kind"] == "struct" and "Default" not in it["derives"]:
            return False
        return all(own_default_ok(d) and dlm(d, seen + (it,)) for d in it["deps"])
    for it in items:
        it["default_like_model"] = bool(it["why_not"] is None and dlm(it))
    os.makedirs(OUT_DIR, exist_ok=True)
    summary = {"types": {}, "inexpressible": {}, "notes": notes, "crates": {}}
    wanted_files = {}
    crate_order = sorted(by_crate)
    # crates in dependency order for Shapes_all
    for crate in crate_order:
        its = by_crate[crate]
        ok = [it for it in topo(its) if it["why_not"] is None and it["crate"] == crate]
        bad = [it for it in its if it["why_not"] is not None]
        ext = sorted({d["crate"] for it in ok for d in it["deps"] if d["crate"] != crate})
        lines = ["(* GENERATED by tools/shapes.py from /repo's working tree on every run. DO NOT EDIT. *)",
                 "(* the messages crate `%s` declares with #[derive(Message)], as shapes of Wire/ModelMsg.v *)" % crate,
                 "From Coq Require Import NArith List.", "From Blue Require Import Wire.Model Wire.ModelMsg."]
        for e in ext:
            lines.append("From Blue Require Gen.Shapes_%s." % e)
        lines += ["Import ListNotations.", "Open Scope N_scope.", ""]
        for it in ok:
            lines.append("(* %s:%d  %s %s%s *)" % (it["path"], it["line"], it["kind"], it["name"],
                                                  ("  [not serialised: %s]" % ", ".join(it["skipped"])) if it["skipped"] else ""))
            lines.append("Definition %s : msg := %s." % (it["coq"], render_item(it, lookup)))
            # the side condition of the Wire theorems (valid, distinct field numbers at every level), by computation:
            # a source edit that breaks it breaks this file, and with it every development that imports it
            lines.append("Example %s_wf : msg_wf %s = true. Proof. vm_compute. reflexivity. Qed." % (it["coq"], it["coq"]))
            summary["types"]["%s::%s" % (crate, it["coq"])] = {"rust": it["name"], "path": it["path"], "line": it["line"],
                                                              "shape": describe(it, lookup), "skipped_fields": it["skipped"],
                                                              "derives": it["derives"], "default_like_model": it["default_like_model"]}
        lines.append("")
        lines.append("Definition shapes_%s : list msg := [%s]." % (crate, "; ".join(it["coq"] for it in ok)))
        if bad:
            lines.append("")
            lines.append("(* NOT EXPRESSIBLE in the shape language (listed, not dropped):")
            for it in bad:
                lines.append("   %s:%d  %s %s  --  %s" % (it["path"], it["line"], it["kind"], it["name"], it["why_not"].replace("*)", "* )")))
                summary["inexpressible"]["%s::%s (%s:%d)" % (crate, it["name"], it["path"], it["line"])] = it["why_not"]
            lines.append("*)")
        wanted_files["Shapes_%s.v" % crate] = "\n".join(lines) + "\n"
        summary["crates"][crate] = {"expressed": len(ok), "inexpressible": len(bad)}
    lines = ["(* GENERATED by tools/shapes.py from /repo's working tree on every run. DO NOT EDIT. *)",
             "(* every message shape the repository declares *)", "From Coq Require Import List."]
    lines.append("From Blue Require Import Wire.ModelMsg.")
    for crate in crate_order:
        lines.append("From Blue Require Gen.Shapes_%s." % crate)
    lines += ["Import ListNotations.", "",
              "Definition all_shapes : list msg :=\n  %s." % " ++\n  ".join("Shapes_%s.shapes_%s" % (c, c) for c in crate_order) if crate_order else "Definition all_shapes : list msg := []."]
    if notes:
        lines.append("")
        lines.append("(* notes:\n   %s\n*)" % "\n   ".join(n.replace("*)", "* )") for n in notes))
    wanted_files["Shapes_all.v"] = "\n".join(lines) + "\n"
    for fn, text in wanted_files.items():
        p = os.path.join(OUT_DIR, fn)
        old = open(p).read() if os.path.exists(p) else None
        if old != text:
            with open(p, "w") as fh:
                fh.write(text)
            sys.stderr.write("shapes.py: wrote %s\n" % p)
    # a crate that no longer declares messages must not leave a stale file behind
    for fn in os.listdir(OUT_DIR):
        if fn.startswith("Shapes_") and fn.endswith(".v") and fn not in wanted_files:
            os.remove(os.path.join(OUT_DIR, fn))
            for ext in (".vo", ".vos", ".vok", ".glob"):
                q = os.path.join(OUT_DIR, fn[:-2] + ext)
                if os.path.exists(q):
                    os.remove(q)
            sys.stderr.write("shapes.py: removed stale %s\n" % fn)
    if want_json:
        print(json.dumps(summary))


if __name__ == "__main__":
    main()
