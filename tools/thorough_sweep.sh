#!/bin/bash
# tools/thorough_sweep.sh [ids...] : setup, then every thorough command, one at a time; prints exit status + wall time per property.
cd "$(dirname "$0")/.." || exit 2
./bin/setup >/dev/null 2>&1 || echo "SETUP FAILED"
ids=${@:-C01 C02 C03 C04 C05 C06 C07 C08 C09 C10 C11 C12 C13 C14 C15 C16 C17 C18 C19 C20}
for p in $ids; do
  s=$(date +%s)
  VERIF_SEED=${VERIF_SEED:-1} python3 bin/check $p --tier thorough > sweep_$p.out 2>&1
  rc=$?
  echo "$p exit=$rc wall=$(( $(date +%s) - s ))s viol=$(grep -c '^VIOLATION' sweep_$p.out) known=$(grep -c '^KNOWN-FINDING' sweep_$p.out)"
done
