#!/bin/bash
# tools/seedconfirm_cmd.sh <worktree> <n> <dest-dir-for-demo> "<demo command>" [crates to test...]
wt=$1; n=$2; dest=$3; cmd=$4; shift 4
export CARGO_TARGET_DIR=$wt/target CARGO_NET_OFFLINE=true
cd $wt || exit 2
git checkout -q -- .
mkdir -p $dest; cp out/$n/demo/*.rs $dest/
echo "--- HEAD: demo"; bash -c "$cmd" >/tmp/seeddemo.out 2>&1; echo "exit=$?"; grep -E "^test result|PASS|FAIL|lost|failing" /tmp/seeddemo.out | tail -3
git apply out/$n/patch.diff || { echo "PATCH FAILED"; exit 2; }
echo "--- PATCHED: demo"; bash -c "$cmd" >/tmp/seeddemo.out 2>&1; echo "exit=$?"; grep -E "^test result|PASS|FAIL|lost|failing" /tmp/seeddemo.out | tail -3
for f in out/$n/demo/*.rs; do rm -f $dest/$(basename $f); done
for c in "$@"; do echo "--- PATCHED: existing tests of $c"; cargo test --offline -p $c 2>&1 | grep -E "^test result" | awk '{p+=$4; f+=$6} END {print "passed="p" failed="f}'; done
git checkout -q -- .
