#!/usr/bin/env python3
"""tools/design_tables.py : rewrite in place the generated table of DESIGN.md 0.5 (seeded changes) from seeded/*/meta.json."""
import os, re, subprocess
V = os.path.normpath(os.path.join(os.path.dirname(os.path.abspath(__file__)), ".."))
d = open(V + "/DESIGN.md").read()
tbl = subprocess.run(["python3", V + "/tools/seedtable.py"], stdout=subprocess.PIPE, check=True).stdout.decode()
m = re.search(r"^\| seeded change \|.*?(?=^\n)", d, re.M | re.S)
assert m, "table not found"
d = d[:m.start()] + tbl + d[m.end():]
open(V + "/DESIGN.md", "w").write(d)
print("rewrote seeded table: %d rows" % (tbl.count("\n") - 2))
