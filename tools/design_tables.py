#!/usr/bin/env python3
"""tools/design_tables.py : rewrite in place the generated tables of DESIGN.md: 0.3 (findings, from known_findings.txt)
and 0.5 (seeded changes, from seeded/*/meta.json)."""
import os, re, subprocess
V = os.path.normpath(os.path.join(os.path.dirname(os.path.abspath(__file__)), ".."))
d = open(V + "/DESIGN.md").read()
for tool, head in (("seedtable.py", r"^\| seeded change \|"), ("findings_table.py", r"^\| disposition \|")):
    tbl = subprocess.run(["python3", V + "/tools/" + tool], stdout=subprocess.PIPE, check=True).stdout.decode()
    m = re.search(head + r".*?(?=^\n)", d, re.M | re.S)
    assert m, "table not found: " + tool
    d = d[:m.start()] + tbl + d[m.end():]
    print("%s: %d rows" % (tool, tbl.count("\n") - 2))
open(V + "/DESIGN.md", "w").write(d)
