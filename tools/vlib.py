"""Shared machinery for /verif/bin/check: Coq build + hygiene + assumptions, harness/OCaml builds,
PRNG, evidence, known findings, violation reporting."""
import glob
import hashlib
import json
import os
import re
import subprocess
import sys
import time

VERIF = os.path.normpath(os.path.join(os.path.dirname(os.path.abspath(__file__)), ".."))
REPO = os.environ.get("BLUE_REPO", "/repo")
COQ = os.path.join(VERIF, "coq")
THEORIES = os.path.join(COQ, "theories")
WORK = os.path.join(VERIF, "work")
TARGET = os.path.join(WORK, "target")
NCPU = os.cpu_count() or 4

ALLOWED_AXIOMS = {
    # standard-library axioms that may appear; each is reported by name in the evidence
    "FunctionalExtensionality.functional_extensionality_dep",
    "functional_extensionality_dep",
    "ProofIrrelevance.proof_irrelevance", "proof_irrelevance",
    "Classical_Prop.classic", "classic",
    "JMeq.JMeq_eq", "JMeq_eq",
    "Eqdep.Eq_rect_eq.eq_rect_eq", "eq_rect_eq",
    "ClassicalEpsilon.constructive_indefinite_description", "constructive_indefinite_description",
    "PropExtensionality.propositional_extensionality", "propositional_extensionality",
}

FORBIDDEN = re.compile(
    r"\b(Admitted|admit|Axiom|Axioms|Parameter|Parameters|Conjecture|Conjectures|Abort All|"
    r"Unset\s+Guard\s+Checking|Unset\s+Positivity\s+Checking|Unset\s+Universe\s+Checking|"
    r"bypass_check|Admit\s+Obligations|type-in-type|impredicative-set|give_up)\b")


def log(*a):
    sys.stderr.write(" ".join(str(x) for x in a) + "\n")
    sys.stderr.flush()


def sh(cmd, cwd=None, timeout=None, env=None, stdin=None, check=False):
    e = dict(os.environ)
    e.setdefault("CARGO_NET_OFFLINE", "true")
    if env:
        e.update(env)
    try:
        p = subprocess.run(cmd, cwd=cwd, env=e, input=stdin, stdout=subprocess.PIPE,
                           stderr=subprocess.STDOUT, timeout=timeout, shell=isinstance(cmd, str))
        out = p.stdout.decode("utf-8", "replace")
        rc = p.returncode
    except subprocess.TimeoutExpired as ex:
        out = (ex.stdout or b"").decode("utf-8", "replace") + "\n[TIMEOUT]"
        rc = 124
    if check and rc != 0:
        raise RuntimeError("command failed (%d): %s\n%s" % (rc, cmd, out[-4000:]))
    return rc, out


# ---------------------------------------------------------------- PRNG (SplitMix64)
class Rng:
    M = (1 << 64) - 1

    def __init__(self, seed):
        self.s = seed & self.M

    def u64(self):
        self.s = (self.s + 0x9E3779B97F4A7C15) & self.M
        z = self.s
        z = ((z ^ (z >> 30)) * 0xBF58476D1CE4E5B9) & self.M
        z = ((z ^ (z >> 27)) * 0x94D049BB133111EB) & self.M
        return z ^ (z >> 31)

    def below(self, n):
        return self.u64() % n if n > 0 else 0

    def range(self, lo, hi):  # inclusive
        return lo + self.below(hi - lo + 1)

    def choice(self, xs):
        return xs[self.below(len(xs))]

    def chance(self, num, den):
        return self.below(den) < num

    def bytes(self, n):
        return bytes(self.below(256) for _ in range(n))

    def fork(self):
        return Rng(self.u64())


# ---------------------------------------------------------------- Coq
def strip_coq_comments(text):
    out, depth, i = [], 0, 0
    while i < len(text):
        if text.startswith("(*", i):
            depth += 1
            i += 2
        elif text.startswith("*)", i) and depth > 0:
            depth -= 1
            i += 2
        else:
            if depth == 0:
                out.append(text[i])
            i += 1
    return "".join(out)


def coq_files():
    return sorted(glob.glob(os.path.join(THEORIES, "**", "*.v"), recursive=True))


def hygiene(files=None):
    """forbidden vernacular anywhere in the development; Variable/Hypothesis outside a Section"""
    problems = []
    for f in files or coq_files():
        with open(f) as fh:
            txt = strip_coq_comments(fh.read())
        # strings could hide things; we do not use the forbidden words in strings
        for m in FORBIDDEN.finditer(txt):
            problems.append("%s: forbidden `%s`" % (os.path.relpath(f, VERIF), m.group(0)))
        depth = 0
        for m in re.finditer(r"(?m)^\s*(Section|End|Module|Variables?|Hypothes[ie]s|Context)\b\s*([A-Za-z_0-9']*)", txt):
            kw = m.group(1)
            if kw == "Section":
                depth += 1
            elif kw == "End":
                # End may close a Module too; track only to >=0
                depth = max(0, depth - 1)
            elif kw == "Module":
                depth += 1  # End Module will decrement
            elif depth == 0:
                problems.append("%s: `%s` outside a Section" % (os.path.relpath(f, VERIF), kw))
    return problems


def gen_constants(areas=()):
    rc, out = sh([sys.executable, os.path.join(VERIF, "tools", "constants.py")] + list(areas))
    # the message shapes the repository declares (Gen/Shapes_<crate>.v, for Wire and its users) are
    # regenerated alongside; a failure of that translator counts for the areas that use them
    rc2, out2 = sh([sys.executable, os.path.join(VERIF, "tools", "shapes.py")])
    shapes_ok = rc2 == 0 or (bool(areas) and "Wire" not in areas)
    return rc == 0 and shapes_ok, out + out2


def _area_of(rel):
    # theories/<Area>/File.v -> Area
    parts = rel.split("/")
    return parts[1] if len(parts) >= 3 else "Top"


def _area_dirs(area, seen=None):
    """directories (under theories/) whose files belong to an area's project: itself, Gen, Base,
    and the areas named in theories/<Area>/DEPS (transitively)"""
    seen = seen if seen is not None else []
    if area in seen:
        return seen
    seen.append(area)
    deps = os.path.join(THEORIES, area, "DEPS")
    if os.path.exists(deps):
        for ln in open(deps):
            ln = ln.strip()
            if ln and not ln.startswith("#"):
                _area_dirs(ln, seen)
    return seen


def coq_project(area=None):
    """(re)generate the project files.  With an area: coq/_CoqProject.<Area> + Makefile.<Area>
    (only that area's files and its DEPS; lets several areas build concurrently).  Without: the
    whole development (_CoqProject + Makefile), which is what a stranger's `make` uses."""
    if area is None:
        files = [os.path.relpath(f, COQ) for f in coq_files()]
        suffix = ""
    else:
        dirs = _area_dirs(area) + ["Gen", "Base"]
        files = []
        for d in dirs:
            files += [os.path.relpath(f, COQ) for f in sorted(glob.glob(os.path.join(THEORIES, d, "*.v")))]
        files = sorted(set(files))
        suffix = "." + area
    text = "-Q theories Blue\n-arg -w -arg -notation-overridden,-deprecated-hint-without-locality,-deprecated-instance-without-locality\n" + "\n".join(files) + "\n"
    cp = os.path.join(COQ, "_CoqProject" + suffix)
    mk = "Makefile" + suffix
    old = open(cp).read() if os.path.exists(cp) else None
    if old != text or not os.path.exists(os.path.join(COQ, mk)):
        with open(cp, "w") as fh:
            fh.write(text)
        sh(["coq_makefile", "-f", "_CoqProject" + suffix, "-o", mk], cwd=COQ, check=True)
    return mk


def coq_make(vo_targets, timeout=1500):
    """full .vo build of the cone of the given targets (paths relative to coq/), through the
    coq_makefile-generated Makefile of the target's area, serialised per area by flock"""
    area = _area_of(vo_targets[0])
    os.makedirs(WORK, exist_ok=True)
    gen_constants()          # every build sees the constants of /repo's current source
    mk = coq_project(area)
    lock = os.path.join(WORK, "coq.%s.lock" % area)
    rc, out = sh(["flock", lock, "make", "-f", mk, "-j%d" % NCPU] + list(vo_targets), cwd=COQ, timeout=timeout)
    return rc == 0, out


def coq_cone(v_rel):
    """the .v files (relative to coq/) the given file transitively depends on, itself included"""
    area = _area_of(v_rel)
    coq_project(area)
    rc, out = sh(["coqdep", "-f", "_CoqProject." + area], cwd=COQ)
    deps = {}
    for ln in out.splitlines():
        if ":" not in ln:
            continue
        lhs, rhs = ln.split(":", 1)
        tg = [t for t in lhs.split() if t.endswith(".vo")]
        if not tg:
            continue
        src = tg[0][:-1]
        deps[src] = [d[:-1] for d in rhs.split() if d.endswith(".vo") and d.startswith("theories/")]
    seen, todo = set(), [v_rel]
    while todo:
        x = todo.pop()
        if x in seen:
            continue
        seen.add(x)
        todo.extend(deps.get(x, []))
    return sorted(seen)


def count_obligations(v_files_rel):
    """number of Qed/Defined-closed proofs in the given files (measured, not a constant)"""
    n = 0
    for f in v_files_rel:
        with open(os.path.join(COQ, f)) as fh:
            txt = strip_coq_comments(fh.read())
        n += len(re.findall(r"\b(Qed|Defined)\s*\.", txt))
    return n


def props_theorems(v_rel):
    with open(os.path.join(COQ, v_rel)) as fh:
        txt = strip_coq_comments(fh.read())
    return re.findall(r"(?m)^\s*(?:Theorem|Corollary)\s+([A-Za-z_0-9']+)", txt)


def print_assumptions(module, theorems, workdir):
    """run coqc on a generated file; returns {thm: [] (closed) | [axiom names]} or None on failure"""
    os.makedirs(workdir, exist_ok=True)
    path = os.path.join(workdir, "Assum.v")
    with open(path, "w") as fh:
        fh.write("From Blue Require Import %s.\n" % module)
        for t in theorems:
            fh.write('Goal True. idtac "@@BEGIN %s". Abort.\nPrint Assumptions %s.\nGoal True. idtac "@@END". Abort.\n' % (t, t))
    rc, out = sh(["coqc", "-noglob", "-Q", os.path.join(COQ, "theories"), "Blue", path], cwd=workdir, timeout=600)
    if rc != 0:
        return None, out
    res = {}
    for m in re.finditer(r"@@BEGIN (\S+)\n(.*?)@@END", out, flags=re.S):
        body = m.group(2)
        if "Closed under the global context" in body:
            res[m.group(1)] = []
        else:
            ax = re.findall(r"(?m)^([A-Za-z_][A-Za-z_0-9.']*)\s*:", body)
            res[m.group(1)] = ax
    return res, out


def check_pins(v_rel, pins_rel, workdir):
    """pins file: `Check thm : statement.` lines compiled against the Props module, so that a
    property theorem cannot be silently weakened.  Returns (ok, out)."""
    p = os.path.join(COQ, pins_rel)
    if not os.path.exists(p):
        return True, "no pins"
    os.makedirs(workdir, exist_ok=True)
    rc, out = sh(["coqc", "-noglob", "-Q", os.path.join(COQ, "theories"), "Blue", p, "-o", os.path.join(workdir, os.path.basename(p) + "o")], cwd=workdir, timeout=600)
    return rc == 0, out


# ---------------------------------------------------------------- builds
def _harness_dir():
    """the harness crate to build: /verif/harness itself when checking /repo; for another
    repository root (BLUE_REPO=<scratch worktree>, used to test seeded changes without touching
    /repo) a generated twin whose path dependencies point there, with its own target dir"""
    h = os.path.join(VERIF, "harness")
    if os.path.normpath(REPO) == "/repo":
        return h, TARGET
    tag = hashlib.sha1(os.path.normpath(REPO).encode()).hexdigest()[:10]
    alt = os.path.join(WORK, "harness_alt", tag)
    os.makedirs(alt, exist_ok=True)
    toml = open(os.path.join(h, "Cargo.toml")).read().replace('"/repo/', '"%s/' % os.path.normpath(REPO))
    p = os.path.join(alt, "Cargo.toml")
    if not os.path.exists(p) or open(p).read() != toml:
        with open(p, "w") as fh:
            fh.write(toml)
    for name in ("src", ".cargo"):
        link = os.path.join(alt, name)
        if not os.path.islink(link):
            os.symlink(os.path.join(h, name), link)
    return alt, os.path.join(WORK, "target_alt", tag)


def cargo_build(bins, release=True, extra_env=None, timeout=3000):
    """build harness bins against the repository's working tree (REPO) with hooks on"""
    h, target = _harness_dir()
    lock = os.path.join(h, "Cargo.lock")
    src_lock = os.path.join(REPO, "Cargo.lock")
    if not os.path.exists(src_lock):
        src_lock = "/repo/Cargo.lock"      # a scratch worktree has no (untracked) lock file
    if not os.path.exists(lock):
        # start from the repository's lock so that nothing needs resolving online
        with open(lock, "w") as fh:
            fh.write(open(src_lock).read())
    env = {"RUSTFLAGS": "--cfg blue_verif -A unexpected_cfgs -A warnings", "CARGO_TARGET_DIR": target,
           "CARGO_NET_OFFLINE": "true"}
    if extra_env:
        env.update(extra_env)
    cmd = ["cargo", "build", "--offline"] + (["--release"] if release else [])
    for b in bins:
        cmd += ["--bin", b]
    rc, out = sh(cmd, cwd=h, env=env, timeout=timeout)
    paths = [os.path.join(target, "release" if release else "debug", b) for b in bins]
    return rc == 0, out, paths


def ocaml_build(area, exe, timeout=900):
    """dune build of ocaml/<area>/<exe>.exe (extracted model + hand-written driver)"""
    rc, out = sh(["dune", "build", "--root", ".", "./%s/%s.exe" % (area, exe)], cwd=os.path.join(VERIF, "ocaml"), timeout=timeout)
    return rc == 0, out, os.path.join(VERIF, "ocaml", "_build", "default", area, exe + ".exe")


# ---------------------------------------------------------------- findings, evidence, verdict
def known_findings(pid):
    """entries of known_findings.txt for a property: list of (kind, cls, text); kind in known|fixed"""
    out = []
    p = os.path.join(VERIF, "known_findings.txt")
    if not os.path.exists(p):
        return out
    with open(p) as fh:
        for ln in fh:
            ln = ln.strip()
            if not ln or ln.startswith("#"):
                continue
            m = re.match(r"(known|fixed):\s+property=(\S+)\s+(\S+)\s+(.*)", ln)
            if m and m.group(2) == pid:
                out.append((m.group(1), m.group(3), m.group(4)))
    return out


class Check:
    """One run of one property's check.  Collects obligations, coverage, violations."""

    def __init__(self, pid, tier, seed):
        self.pid, self.tier, self.seed = pid, tier, seed
        self.t0 = time.time()
        self.work = os.path.join(WORK, pid)
        sh(["rm", "-rf", self.work, os.path.join(WORK, "replay", pid)])
        os.makedirs(self.work, exist_ok=True)
        self.coverage = {}
        self.assumptions = []
        self.violations = []      # (replay_path, no_input_found)
        self.known_hits = {}      # class -> count
        self.trusted = []
        self.level = "proof"
        self.notes = []

    def replay_path(self, name):
        d = os.path.join(WORK, "replay", self.pid)
        os.makedirs(d, exist_ok=True)
        return os.path.join(d, name)

    def violation(self, name, obj, no_input=False):
        p = self.replay_path(name)
        with open(p, "w") as fh:
            json.dump(obj, fh, indent=1, default=str)
        self.violations.append((p, no_input))

    def known(self, cls, what):
        self.known_hits.setdefault(cls, [0, what])[0] += 1

    def finish(self):
        ev = {
            "property_id": self.pid, "tier": self.tier, "seed": self.seed, "level": self.level,
            "coverage": self.coverage, "assumptions": self.assumptions,
            "wall_s": round(time.time() - self.t0, 2), "violations": len(self.violations),
        }
        if self.notes:
            ev["coverage"]["notes"] = self.notes
        if self.known_hits:
            ev["coverage"]["known_findings_hit"] = {k: v[0] for k, v in self.known_hits.items()}
        os.makedirs(os.path.join(VERIF, "evidence"), exist_ok=True)
        with open(os.path.join(VERIF, "evidence", self.pid + ".json"), "w") as fh:
            json.dump(ev, fh, indent=1, default=str)
            fh.write("\n")
        for cls, (n, what) in sorted(self.known_hits.items()):
            print("KNOWN-FINDING: property=%s %s %s (%d cases this run)" % (self.pid, cls, what, n))
        for p, no_input in self.violations:
            print("VIOLATION property=%s replay=%s%s" % (self.pid, p, " no-failing-input-found" if no_input else ""))
        sys.stdout.flush()
        return 1 if self.violations else 0


def proof_stage(chk, props_rel, module, const_areas=(), pins_rel=None):
    """Hygiene, constants, build of the cone of the property file, assumptions, pins.
    Returns (ok, info).  Fills chk.coverage proof keys.  `ok` False means: a proof obligation no
    longer checks (the caller must then search for a concrete failing input)."""
    info = {"broken": []}
    okc, outc = gen_constants(const_areas)
    if not okc:
        info["broken"].append("constants translator failed: " + outc[-500:])
    cone = coq_cone(props_rel)
    hyg = hygiene([os.path.join(COQ, f) for f in cone])
    for h in hyg:
        info["broken"].append("hygiene: " + h)
    vo = props_rel + "o"
    okb, outb = coq_make([vo])
    if not okb:
        m = re.findall(r'File "([^"]+)", line (\d+)[^\n]*\n((?:.*\n){0,12})', outb)
        info["broken"].append("coq build failed: " + (("%s:%s %s" % (m[0][0], m[0][1], m[0][2][:600])) if m else outb[-800:]))
        with open(os.path.join(chk.work, "coq_build.log"), "w") as fh:
            fh.write(outb)
    thms = props_theorems(props_rel)
    n_obl = count_obligations(cone)
    discharged = n_obl if okb else 0
    axioms_used = {}
    if okb:
        res, outa = print_assumptions(module, thms, chk.work)
        if res is None:
            info["broken"].append("Print Assumptions failed: " + outa[-500:])
            discharged = 0
        else:
            for t in thms:
                if t not in res:
                    info["broken"].append("no Print Assumptions output for " + t)
                    continue
                bad = [a for a in res[t] if a not in ALLOWED_AXIOMS and a.split(".")[-1] not in ALLOWED_AXIOMS]
                if bad:
                    info["broken"].append("theorem %s depends on non-allow-listed assumptions %s" % (t, bad))
                if res[t]:
                    axioms_used[t] = res[t]
        if pins_rel:
            okp, outp = check_pins(props_rel, pins_rel, chk.work)
            if not okp:
                info["broken"].append("pinned statement no longer checks: " + outp[-600:])
    if okb and chk.tier == "thorough":
        # independent re-check of the compiled cone, and the axioms it (and everything it loads) uses
        rcc, outc = sh(["coqchk", "-o", "-silent", "-Q", "theories", "Blue", "Blue." + module], cwd=COQ, timeout=3000)
        summary = outc[outc.find("CONTEXT SUMMARY"):] if "CONTEXT SUMMARY" in outc else outc[-1500:]
        ax = re.search(r"\* Axioms:(.*?)\n\s*\n\* Constants", summary, flags=re.S)
        axl = [a.strip() for a in (ax.group(1) if ax else "?").split("\n") if a.strip()]
        chk.coverage["coqchk"] = {"exit": rcc, "axioms": axl,
                                  "type_in_type": "type-in-type: <none>" not in summary.replace("relying on ", ""),
                                  "summary": " ".join(summary.split())[:600]}
        if rcc != 0:
            info["broken"].append("coqchk rejected the compiled cone: " + outc[-500:])
        for a in axl:
            if a != "<none>" and a not in ALLOWED_AXIOMS and a.split(".")[-1] not in ALLOWED_AXIOMS:
                info["broken"].append("coqchk reports a non-allow-listed axiom in the loaded context: " + a)
    chk.coverage.update({
        "obligations": n_obl, "discharged": discharged if not info["broken"] else min(discharged, max(0, n_obl - 1)),
        "checker_cmd": "cd coq && coq_makefile -f _CoqProject -o Makefile && make %s  (coqc 8.16.1, full .vo build; then coqc Assum.v with Print Assumptions for: %s)" % (vo, ", ".join(thms)),
        "property_theorems": thms,
        "axioms_reported": axioms_used if axioms_used else "all property theorems: Closed under the global context",
        "cone_files": cone,
    })
    info["theorems"] = thms
    return (not info["broken"]), info
