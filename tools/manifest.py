#!/usr/bin/env python3
"""Regenerates MANIFEST.json from the META dict of every checks/cNN.py; properties without a check
module are listed under not_applicable with the reason from tools/not_claimed.json."""
import importlib
import json
import os
import sys

ROOT = os.path.normpath(os.path.join(os.path.dirname(os.path.abspath(__file__)), ".."))
sys.path.insert(0, os.path.join(ROOT, "tools"))
sys.path.insert(0, os.path.join(ROOT, "checks"))

props = [json.loads(l)["id"] for l in open(os.path.join(ROOT, "properties.jsonl")) if l.strip()]
not_claimed = json.load(open(os.path.join(ROOT, "tools", "not_claimed.json")))
checks, na, served = [], [], []
for pid in props:
    path = os.path.join(ROOT, "checks", pid.lower() + ".py")
    if os.path.exists(path) and pid not in not_claimed.get("_disabled", []):
        mod = importlib.import_module(pid.lower())
        m = mod.META
        checks.append({
            "property_id": pid,
            "quick_cmd": "./bin/check %s --tier quick" % pid,
            "thorough_cmd": "./bin/check %s --tier thorough" % pid,
            "evidence_file": "evidence/%s.json" % pid,
            "replay_cmd_template": "./bin/check %s --replay {path}" % pid,
            "engine": "coq",
            "level_claimed": {"category": m.get("category", "proof"), "text": m["text"], "design_ref": m.get("design_ref", "DESIGN.md section 8, " + pid)},
            "level_note": m["note"],
            "technique": m.get("technique", "machine-checked proof (Coq) + model/implementation correspondence"),
        })
        served.append(pid)
    else:
        na.append({"property_id": pid, "reason": not_claimed.get(pid, "not claimed yet: the Coq model and correspondence check for this property are still under construction (see DESIGN.md)")})

man = {
    "version": 1,
    "setup_cmd": "./bin/setup",
    "hooks": json.load(open(os.path.join(ROOT, "tools", "hooks.json"))),
    "engines": [
        {"name": "coq", "path": "coq/", "serves_properties": served, "kind_free_text": "Coq 8.16.1 development: executable Gallina models + theorems; constants regenerated from /repo by tools/constants.py on every run"},
        {"name": "hx", "path": "harness/", "serves_properties": served, "kind_free_text": "Rust correspondence harness (path dependencies on /repo, rebuilt from the working tree on every run with --cfg blue_verif)"},
        {"name": "mx", "path": "ocaml/", "serves_properties": served, "kind_free_text": "models extracted from Coq (ExtrOcamlBasic) + OCaml drivers"},
    ],
    "checks": checks,
    "not_applicable": na,
    "notes": "bin/check <id> --tier quick|thorough. See DESIGN.md; known_findings.txt lists recorded and repaired defects.",
}
with open(os.path.join(ROOT, "MANIFEST.json"), "w") as fh:
    json.dump(man, fh, indent=1)
    fh.write("\n")
print("claimed:", served, " not claimed:", [x["property_id"] for x in na])
