#!/usr/bin/env python3
"""prints the markdown table of findings (DESIGN.md 0.3) from known_findings.txt"""
import os, re
p = os.path.join(os.path.dirname(os.path.abspath(__file__)), "..", "known_findings.txt")
rows = []
for ln in open(p):
    m = re.match(r"(known|fixed):\s+property=(\S+)\s+(\S+)\s+(.*)", ln.strip())
    if m:
        rows.append(m.groups())
print("| disposition | property | commit / class | what failed (concrete input in known_findings.txt) |")
print("|---|---|---|---|")
for kind, pid, ident, text in rows:
    t = text.replace("|", "/")
    if len(t) > 330:
        t = t[:330] + " …"
    print("| %s | %s | %s | %s |" % ("**known**" if kind == "known" else "fixed", pid, ident, t))
