#!/bin/bash
# tools/seedconfirm.sh <worktree> <n> <crate> <demo-test-name> [more crates to test...]
# Confirms a seeded change in its scratch worktree: (a) clean HEAD: demo passes; (b) patched: the
# crate's existing tests pass and the demo fails.  Leaves the worktree at HEAD.
wt=$1; n=$2; crate=$3; demo=$4; shift 4
export CARGO_TARGET_DIR=$wt/target CARGO_NET_OFFLINE=true
cd $wt || exit 2
git checkout -q -- . ; git clean -fdq -- '*/tests' 2>/dev/null
mkdir -p $crate/tests; cp out/$n/demo/$demo.rs $crate/tests/ 2>/dev/null
echo "--- HEAD: demo"; cargo test --offline -p $crate --test $demo 2>&1 | grep -E "^test result|error(\[|:)" | head -3
git apply out/$n/patch.diff || { echo "PATCH FAILED"; exit 2; }
echo "--- PATCHED: demo"; cargo test --offline -p $crate --test $demo 2>&1 | grep -E "^test result|error(\[|:)" | head -3
rm -f $crate/tests/$demo.rs
for c in $crate "$@"; do echo "--- PATCHED: existing tests of $c"; cargo test --offline -p $c 2>&1 | grep -E "^test result" | awk '{p+=$4; f+=$6} END {print "passed="p" failed="f}'; done
git checkout -q -- .
