#!/usr/bin/env python3
"""tools/seedstore.py <pid> <n> <out_dir> <detected: yes|no|partial> <check-ids comma> "<needs>" "<confirmation>" "<verdict lines>"
copies patch.diff + demo/ + notes.md of a seeded change into /verif/seeded/<pid>-<n>/ with meta.json"""
import json, os, shutil, sys
pid, n, src, detected, checks, needs, confirm, verdict = sys.argv[1:9]
dst = os.path.join(os.path.dirname(os.path.abspath(__file__)), "..", "seeded", "%s-%s" % (pid, n))
dst = os.path.normpath(dst)
shutil.rmtree(dst, ignore_errors=True)
os.makedirs(dst)
shutil.copy(os.path.join(src, "patch.diff"), dst)
if os.path.isdir(os.path.join(src, "demo")):
    shutil.copytree(os.path.join(src, "demo"), os.path.join(dst, "demo"))
if os.path.exists(os.path.join(src, "notes.md")):
    shutil.copy(os.path.join(src, "notes.md"), dst)
for f in os.listdir(src):
    if f.startswith("replay_"):
        shutil.copy(os.path.join(src, f), dst)
meta = {"property": pid, "breaks": pid, "needs_to_manifest": needs,
        "confirmed_by_coordinator": confirm,
        "checks_run": checks.split(","), "detected": detected, "verdict_lines": verdict,
        "how_to_rerun": "python3 tools/seedtest.py seeded/%s-%s/patch.diff %s" % (pid, n, " ".join(checks.split(",")))}
json.dump(meta, open(os.path.join(dst, "meta.json"), "w"), indent=1)
print("stored", dst)
