#!/usr/bin/env python3
"""tools/mutprompt.py <Cnn> <round> : print the prompt for a mutant sub-agent (property text only, private worktree
/tmp/mut/<Cnn>r<round>); round >= 2 adds a list of one-line descriptions of the places already explored (file + function
only) so that the new changes differ.  Nothing from /verif's machinery is disclosed."""
import glob, json, os, re, sys
pid, rnd = sys.argv[1], int(sys.argv[2])
V = os.path.normpath(os.path.join(os.path.dirname(os.path.abspath(__file__)), ".."))
prop = [json.loads(l) for l in open(V + "/properties.jsonl") if json.loads(l)["id"] == pid][0]
wt = "/tmp/mut/%sr%d" % (pid, rnd)
mech = "; ".join("%s (%s)" % (m["name"], m["where"]) for m in prop["anchors"].get("mechanism", []))
avoid = []
for d in sorted(glob.glob(V + "/seeded/%s-*" % pid)):
    p = open(d + "/patch.diff").read()
    files = sorted(set(re.findall(r"^\+\+\+ b/(\S+)", p, re.M)))
    funcs = sorted(set(x.strip() for x in re.findall(r"^@@.*@@\s*(.*)$", p, re.M) if x.strip()))
    avoid.append("%s  [%s]" % (", ".join(files), "; ".join(funcs)[:160]))
print("""You have a private git worktree of the Rust monorepo rescrv/blue at %(wt)s (a detached checkout; this is YOUR scratch copy - work only inside it; never read or write /repo or /verif, they are off limits). The sandbox is offline: use `cargo ... --offline`, and keep all build output private with `export CARGO_TARGET_DIR=%(wt)s/target`.

Here is a semantic property the code base is supposed to satisfy:

  id: %(id)s
  title: %(title)s
  statement: %(statement)s
  quantified over: %(qtext)s
  anchored in: %(files)s
  mechanisms meant to make it hold: %(mech)s

Your task: produce THREE different source changes to rescrv/blue, each of which BREAKS this property while the code still compiles and the repository's existing tests for the affected crates still pass (`cargo test --offline -p <crate>` for every crate you touch and for the crates that depend on it among lsmtk/sst/mani), together with a DEMONSTRATION for each (a new test file or a small program under examples/ or a scratch crate inside your worktree) that FAILS with the change applied and PASSES without it. Aim for realistic regressions a maintainer could plausibly introduce (an off-by-one at a boundary, a dropped or reordered step, a weakened condition, a check moved to the wrong side of a side effect, two sites that each look fine alone, a refactor that changes an evaluation order, a wrong constant) and that need something SPECIFIC to manifest - a particular interleaving, a crash or fault at a particular point, a multi-step sequence of operations, an unusual input or option setting - not changes that ordinary use or the first smoke test would expose at once. Do not touch the existing tests. Prefer changes in the files the property is anchored in, and lines marked `#[cfg(blue_verif)]` (instrumentation) should be left as they are unless the statement they annotate moves.
%(avoid)s
Deliverables, for n = 1, 2, 3, in %(wt)s/out/<n>/ :
  - patch.diff : `git diff` against HEAD of the source change only (must apply with `git apply` on a clean checkout of the same HEAD)
  - demo/ : the demonstration (files plus a RUN.md with the exact commands to run it and the expected pass/fail outputs with and without the patch); the demo must not be part of patch.diff
  - notes.md : what the change does, why it breaks the property, what it needs in order to manifest, and which existing tests you ran with the patch applied (with their pass counts)
Verify each yourself both ways (with patch: existing tests pass, demo fails; without patch: demo passes). When you are done leave the worktree sources at HEAD (`git checkout -- .`; untracked out/ and target/ stay). Your final message: a short table of the three changes (file, one-line description, what it needs to manifest, demo command).""" % dict(
    wt=wt, id=pid, title=prop["title"], statement=prop["statement"], qtext=prop["quantifier"]["text"],
    files=", ".join(prop["anchors"]["files"]), mech=mech,
    avoid=("\nEarlier rounds already explored changes at these places; yours must be at DIFFERENT places or of a different kind:\n" + "\n".join("  - " + a for a in avoid) + "\n") if avoid and rnd >= 2 else ""))
