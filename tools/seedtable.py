#!/usr/bin/env python3
"""prints the markdown table of seeded changes from seeded/*/meta.json (pasted into DESIGN.md 0.5)"""
import json, os, glob
root = os.path.normpath(os.path.join(os.path.dirname(os.path.abspath(__file__)), "..", "seeded"))
print("| seeded change | breaks | needs to manifest | checks run | outcome |")
print("|---|---|---|---|---|")
for d in sorted(glob.glob(os.path.join(root, "*"))):
    m = json.load(open(os.path.join(d, "meta.json")))
    print("| %s | %s | %s | %s | %s: %s |" % (os.path.basename(d), m["property"], m["needs_to_manifest"].replace("|", "/"),
          ", ".join(m["checks_run"]), m["detected"], m["verdict_lines"].replace("|", "/")))
