#!/bin/bash
# tools/seedconfirm_ex.sh <worktree> <n> <crate> <example-name> [crates to test...]   (demo = cargo example taking a scratch dir)
wt=$1; n=$2; crate=$3; ex=$4; shift 4
export CARGO_TARGET_DIR=$wt/target CARGO_NET_OFFLINE=true
cd $wt || exit 2
git checkout -q -- .
mkdir -p $crate/examples; cp out/$n/demo/*.rs $crate/examples/
rm -rf out/$n/scratch-db
echo "--- HEAD: demo"; cargo run --offline -q -p $crate --example $ex -- $wt/out/$n/scratch-db >/tmp/seeddemo.out 2>&1; echo "exit=$?"; tail -2 /tmp/seeddemo.out
git apply out/$n/patch.diff || { echo "PATCH FAILED"; exit 2; }
rm -rf out/$n/scratch-db
echo "--- PATCHED: demo"; cargo run --offline -q -p $crate --example $ex -- $wt/out/$n/scratch-db >/tmp/seeddemo.out 2>&1; echo "exit=$?"; tail -3 /tmp/seeddemo.out
rm -rf $crate/examples/$ex.rs out/$n/scratch-db
for c in "$@"; do echo "--- PATCHED: existing tests of $c"; cargo test --offline -p $c 2>&1 | grep -E "^test result" | awk '{p+=$4; f+=$6} END {print "passed="p" failed="f}'; done
git checkout -q -- .; rmdir $crate/examples 2>/dev/null
