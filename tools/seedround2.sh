#!/bin/bash
# tools/seedround2.sh <worktree> <checks> <spec>...   spec = n:kind:crate:demo[:verif]  kind = test|example ; verif = build with --cfg blue_verif
# confirm each (HEAD demo passes, patched demo fails, crate tests pass) then run seedtest against <checks>
wt=$1; checks=$2; shift 2
export CARGO_NET_OFFLINE=true
for spec in "$@"; do
  IFS=: read n kind crate demo verif <<< "$spec"
  cd $wt; git checkout -q -- .
  td=$wt/target; fl="-A warnings"; [ -n "$verif" ] && { td=$wt/target/verif; fl="--cfg blue_verif -A unexpected_cfgs -A warnings"; }
  if [ $kind = test ]; then mkdir -p $crate/tests; cp out/$n/demo/$demo.rs $crate/tests/; run="cargo test --offline -p $crate --test $demo"; else mkdir -p $crate/examples; cp out/$n/demo/$demo.rs $crate/examples/; run="cargo run --offline -q -p $crate --example $demo -- $wt/scratch_$n"; fi
  echo "##### $n ($demo)"
  CARGO_TARGET_DIR=$td RUSTFLAGS="$fl" timeout 900 $run > /tmp/sr2.out 2>&1; echo "HEAD rc=$? $(grep -E '^test result|^PASS|^FAIL' /tmp/sr2.out | tail -1)"
  git apply out/$n/patch.diff || echo "PATCH FAILED"
  CARGO_TARGET_DIR=$td RUSTFLAGS="$fl" timeout 900 $run > /tmp/sr2.out 2>&1; echo "PATCHED rc=$? $(grep -E '^test result|^PASS|^FAIL' /tmp/sr2.out | tail -1)"
  rm -f $crate/tests/$demo.rs $crate/examples/$demo.rs; rm -rf $wt/scratch_$n
  CARGO_TARGET_DIR=$wt/target RUSTFLAGS="-A warnings" cargo test --offline -p $crate 2>&1 | grep "^test result" | awk -v c=$crate '{p+=$4; f+=$6} END {print "existing "c" passed="p" failed="f}'
  git checkout -q -- .
  cd /verif; python3 tools/seedtest.py $wt/out/$n/patch.diff $checks 2>&1 | grep "^==\|VIOLATION" | cut -c1-170 | head -8
done
