#!/usr/bin/env python3
"""tools/hookcheck.py : every line a `hook:` commit of /repo deletes or rewrites was introduced by an earlier `hook:`
commit (so, relative to the repository's own code, the hook commits only ADD lines); also lists hook commits that are
missing from tools/hooks.json."""
import json, os, re, subprocess, sys
V = os.path.normpath(os.path.join(os.path.dirname(os.path.abspath(__file__)), ".."))
BASE = "130b4a1"
def sh(c):
    return subprocess.run(c, shell=True, cwd="/repo", stdout=subprocess.PIPE, stderr=subprocess.DEVNULL).stdout.decode(errors="replace")
log = sh("git log --format=%%H%%x09%%s %s..HEAD" % BASE).splitlines()
hooks = [l.split("\t")[0] for l in log if l.split("\t")[1].startswith("hook:")]
others = [l for l in log if not (l.split("\t")[1].startswith("hook:") or l.split("\t")[1].startswith("fix:"))]
hookset = set(h[:7] for h in hooks)
bad = 0
for h in hooks:
    cur = None
    for ln in sh("git show --format= --unified=0 %s" % h).splitlines():
        m = re.match(r"^--- a/(.*)", ln)
        if m:
            cur = m.group(1)
            continue
        m = re.match(r"^@@ -(\d+)(?:,(\d+))? \+", ln)
        if m and cur:
            start, n = int(m.group(1)), (int(m.group(2)) if m.group(2) is not None else 1)
            if n == 0:
                continue
            for b in sh("git blame -l -L %d,%d %s^ -- %s" % (start, start + n - 1, h, cur)).splitlines():
                if b.split()[0].lstrip("^")[:7] not in hookset:
                    bad += 1
                    print("hook", h[:7], "rewrites a non-hook line in", cur, ":", b[:140])
listed = set(json.load(open(V + "/tools/hooks.json"))["source_commits"])
missing = [h[:7] for h in hooks if h[:7] not in listed]
print("hook commits: %d, fix commits: %d, other commits: %d" % (len(hooks), len(log) - len(hooks) - len(others), len(others)))
print("non-hook lines touched by hook commits:", bad, "; hook commits missing from tools/hooks.json:", missing)
sys.exit(1 if bad or missing or others else 0)
