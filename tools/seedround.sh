#!/bin/bash
# tools/seedround.sh <worktree> <crate> <extra crates...> -- for n in 1 2 3: confirm (test-file demos), then seedtest against the given checks
# usage: tools/seedround.sh /tmp/mut/C13r2 mani "C13" [other crates to test]
wt=$1; crate=$2; checks=$3; shift 3
for n in 1 2 3; do
  demo=$(basename $(ls $wt/out/$n/demo/*.rs | head -1) .rs)
  echo "##### $n ($demo)"
  bash /verif/tools/seedconfirm.sh $wt $n $crate $demo "$@" 2>&1 | grep -v "^error: test failed"
  python3 /verif/tools/seedtest.py $wt/out/$n/patch.diff $checks 2>&1 | tail -6
done
